/-
  The command-line layer of the converters (Model/ConvCli.lean): which file is read, which is written.
-/
import MotoModel.Model.ConvCli
import MotoModel.Proofs.PathSpelling
namespace Moto.Conv
open Moto

theorem not_dot_of_upper {s t : Str} (h : upper s = t) (ht : 46 ∉ t) : 46 ∉ s := by
  intro hm
  apply ht
  rw [← h]
  unfold upper
  exact List.mem_map.mpr ⟨46, hm, by decide⟩

/-- the last dot of `stem.tail` when `tail` holds none -/
theorem rfind_last_dot (stem tail : Str) (h : 46 ∉ tail) : rfindFrom 46 (stem ++ 46 :: tail) 0 = some stem.length := by
  rcases rfind_split 46 (stem ++ 46 :: tail) with ⟨_, hno⟩ | ⟨i, hi, pre, post, hsplit, hlen, hpost⟩
  · exact absurd (by simp) hno
  · rw [hi]
    -- both splittings cut at the last dot
    have : pre = stem ∧ post = tail := by
      have key : ∀ (a b c d : Str), a ++ 46 :: b = c ++ 46 :: d → 46 ∉ b → 46 ∉ d → a = c ∧ b = d := by
        intro a
        induction a with
        | nil =>
          intro b c d he hb hd
          cases c with
          | nil => simp at he; exact ⟨rfl, he⟩
          | cons x xs =>
            simp only [List.nil_append, List.cons_append, List.cons.injEq] at he
            exfalso; apply hb; rw [he.2]; simp
        | cons y ys ih =>
          intro b c d he hb hd
          cases c with
          | nil =>
            simp only [List.nil_append, List.cons_append, List.cons.injEq] at he
            exfalso; apply hd; rw [← he.2]; simp
          | cons x xs =>
            simp only [List.cons_append, List.cons.injEq] at he
            obtain ⟨h1, h2⟩ := ih b xs d he.2 hb hd
            exact ⟨by rw [he.1, h1], h2⟩
      exact key pre post stem tail hsplit.symm hpost h
    rw [← hlen, this.1]

theorem drop_stem (stem tail : Str) : (stem ++ 46 :: tail).drop (stem.length + 1) = tail := by
  rw [show stem ++ 46 :: tail = (stem ++ [46]) ++ tail by simp, List.drop_left' (by simp)]

theorem take_minus (a b : Str) (n : Nat) (h : b.length = n) : (a ++ b).take ((a ++ b).length - n) = a := by
  rw [List.length_append, h, Nat.add_sub_cancel, List.take_left']
  rfl

/-- **`moto_lst2bas name.lst,a`** (extension and option in either case): the listing `name.lst` is read, `name.bas` —
    beside it, same stem as typed — receives its ASCII BASIC form, nothing else is written -/
theorem lst2bas_ascii (w : Str → Option Listing) (stem ext opt text : Str) (hext : upper ext = str "LST") (hopt : upper opt = str ",A")
    (hw : w (stem ++ 46 :: ext) = some (.text text)) :
    lst2basOne w (stem ++ 46 :: (ext ++ opt)) = { writes := [(stem ++ 46 :: str "bas", toAsciiBasic text)] } := by
  have hd : 46 ∉ ext ++ opt := by
    intro h
    rcases List.mem_append.mp h with h | h
    · exact not_dot_of_upper hext (by decide) h
    · exact not_dot_of_upper hopt (by decide) h
  have hel : ext.length = 3 := by have := congrArg List.length hext; simpa [upper, str] using this
  have hol : opt.length = 2 := by have := congrArg List.length hopt; simpa [upper, str] using this
  unfold lst2basOne
  rw [rfind_last_dot stem (ext ++ opt) hd]
  simp only [drop_stem]
  have hu : upper (ext ++ opt) = str "LST,A" := by rw [upper_append, hext, hopt]; decide
  rw [hu, if_neg (by decide), if_pos rfl]
  have hsrc : (stem ++ 46 :: (ext ++ opt)).take ((stem ++ 46 :: (ext ++ opt)).length - 2) = stem ++ 46 :: ext := by
    have := take_minus (stem ++ 46 :: ext) opt 2 hol
    simpa [List.append_assoc] using this
  rw [hsrc, hw]
  have htgt : (stem ++ 46 :: ext).take ((stem ++ 46 :: ext).length - 3) = stem ++ [46] := by
    have := take_minus (stem ++ [46]) ext 3 hel
    simpa [List.append_assoc] using this
  rw [htgt]
  simp

/-- **`moto_lst2bas name.lst`**: `name.bas` beside the listing receives the tokenized program -/
theorem lst2bas_tokenized (w : Str → Option Listing) (stem ext text : Str) (b : Bytes) (hext : upper ext = str "LST")
    (hw : w (stem ++ 46 :: ext) = some (.text text)) (hc : Basic.convert text = some b) :
    lst2basOne w (stem ++ 46 :: ext) = { writes := [(stem ++ 46 :: str "bas", b)] } := by
  have hd : 46 ∉ ext := not_dot_of_upper hext (by decide)
  have hel : ext.length = 3 := by have := congrArg List.length hext; simpa [upper, str] using this
  unfold lst2basOne
  rw [rfind_last_dot stem ext hd]
  simp only [drop_stem]
  rw [hext, if_pos rfl, hw]
  have htgt : (stem ++ 46 :: ext).take ((stem ++ 46 :: ext).length - 3) = stem ++ [46] := by
    have := take_minus (stem ++ [46]) ext 3 hel
    simpa [List.append_assoc] using this
  simp only [htgt, hc]
  simp

/-- … or, when a line of the listing carries no number, `name.bas` is left empty and the run ends with a `ValueError` -/
theorem lst2bas_tokenized_refused (w : Str → Option Listing) (stem ext text : Str) (hext : upper ext = str "LST")
    (hw : w (stem ++ 46 :: ext) = some (.text text)) (hc : Basic.convert text = none) :
    lst2basOne w (stem ++ 46 :: ext)
      = { writes := [(stem ++ 46 :: str "bas", [])], err := some (.valueError "No line number in this line") } := by
  have hd : 46 ∉ ext := not_dot_of_upper hext (by decide)
  have hel : ext.length = 3 := by have := congrArg List.length hext; simpa [upper, str] using this
  unfold lst2basOne
  rw [rfind_last_dot stem ext hd]
  simp only [drop_stem]
  rw [hext, if_pos rfl, hw]
  have htgt : (stem ++ 46 :: ext).take ((stem ++ 46 :: ext).length - 3) = stem ++ [46] := by
    have := take_minus (stem ++ [46]) ext 3 hel
    simpa [List.append_assoc] using this
  simp only [htgt, hc]
  simp

/-- **`moto_bas2lst name.bas,a [--dos]`**: the file `name.bas` is read, `name.lst` beside it receives its lines -/
theorem bas2lst_ascii (w : Str → Option Bytes) (dos : Bool) (stem ext opt : Str) (data : Bytes) (hext : upper ext = str "BAS")
    (hopt : upper opt = str ",A") (hw : w (stem ++ ext) = some data) :
    bas2lstOne w dos (stem ++ (ext ++ opt)) = { writes := [(stem ++ str "lst", toListing dos data)] } := by
  have hel : ext.length = 3 := by have := congrArg List.length hext; simpa [upper, str] using this
  have hol : opt.length = 2 := by have := congrArg List.length hopt; simpa [upper, str] using this
  unfold bas2lstOne
  have hlast2 : (stem ++ (ext ++ opt)).drop ((stem ++ (ext ++ opt)).length - 2) = opt := by
    rw [← List.append_assoc, List.length_append, hol, Nat.add_sub_cancel, List.drop_left' rfl]
  have hsrc : (stem ++ (ext ++ opt)).take ((stem ++ (ext ++ opt)).length - 2) = stem ++ ext := by
    have := take_minus (stem ++ ext) opt 2 hol
    simpa [List.append_assoc] using this
  simp only [hlast2, hopt, decide_true, if_true, hsrc]
  have hlast3 : (stem ++ ext).drop ((stem ++ ext).length - 3) = ext := by
    rw [List.length_append, hel, Nat.add_sub_cancel, List.drop_left' rfl]
  have htgt : (stem ++ ext).take ((stem ++ ext).length - 3) = stem := take_minus stem ext 3 hel
  rw [hlast3, hext, if_neg (by simp), hw, htgt]

/-- the loop: sources are converted in order; the first failure ends the run and what was written before stays -/
theorem runSeq_ok (one : Str → Out) (s : Str) (rest : List Str) (h : (one s).err = none) :
    runSeq one (s :: rest) = { writes := (one s).writes ++ (runSeq one rest).writes, err := (runSeq one rest).err } := by
  simp [runSeq, h]

theorem runSeq_fail (one : Str → Out) (s : Str) (rest : List Str) (e : PyErr) (h : (one s).err = some e) :
    runSeq one (s :: rest) = one s := by
  simp [runSeq, h]

/-- every source converts: the run writes the results of all of them, in the order given, and returns 0 -/
theorem runSeq_all_ok (one : Str → Out) : ∀ (srcs : List Str), (∀ s ∈ srcs, (one s).err = none) →
    runSeq one srcs = { writes := srcs.flatMap (fun s => (one s).writes), err := none }
  | [], _ => rfl
  | s :: rest, h => by
    rw [runSeq_ok one s rest (h s (by simp)), runSeq_all_ok one rest (fun x hx => h x (by simp [hx]))]
    simp

/-- the first source that fails ends the run: the results of the sources before it and what the failing one left are written,
    the sources after it are not touched, the run ends with its error -/
theorem runSeq_first_failure (one : Str → Out) (s : Str) (e : PyErr) (post : List Str) (hs : (one s).err = some e) :
    ∀ (pre : List Str), (∀ x ∈ pre, (one x).err = none) →
    runSeq one (pre ++ s :: post) = { writes := pre.flatMap (fun x => (one x).writes) ++ (one s).writes, err := some e }
  | [], _ => by
    simp only [List.nil_append, List.flatMap_nil]
    rw [runSeq_fail one s post e hs]
    cases h : one s with
    | mk w er => rw [h] at hs; simp only at hs; subst hs; rfl
  | x :: pre, h => by
    rw [List.cons_append, runSeq_ok one x _ (h x (by simp)), runSeq_first_failure one s e post hs pre (fun y hy => h y (by simp [hy]))]
    simp

end Moto.Conv
