/-
  Facts about the model of argparse (Model/Argparse.lean) for *every* parser description and every
  command line: what one step keeps (the unrecognised strings only grow, positionals never swallow an
  option string), and what follows for whole runs — an unknown option string always ends among the
  extras, the exclusive group is decided by the option strings alone.
-/
import MotoModel.Model.Argparse
namespace Moto.Argparse
open Moto Moto.Gen.Cli

/-! ### one action -/

@[simp] theorem isO_dd : Tok.dd.isO = false := rfl
@[simp] theorem isO_arg (s : Str) : (Tok.arg s).isO = false := rfl
@[simp] theorem isO_opt (s a os ex) : (Tok.opt s a os ex).isO = true := rfl
@[simp] theorem isO_unk (s : Str) : (Tok.unk s).isO = true := rfl
@[simp] theorem isDD_dd : Tok.dd.isDD = true := rfl
@[simp] theorem isDD_arg (s : Str) : (Tok.arg s).isDD = false := rfl
@[simp] theorem isDD_opt (s a os ex) : (Tok.opt s a os ex).isDD = false := rfl
@[simp] theorem isDD_unk (s : Str) : (Tok.unk s).isDD = false := rfl
@[simp] theorem isArg_dd : Tok.dd.isArg = false := rfl
@[simp] theorem isArg_arg (s : Str) : (Tok.arg s).isArg = true := rfl
@[simp] theorem isArg_opt (s a os ex) : (Tok.opt s a os ex).isArg = false := rfl
@[simp] theorem isArg_unk (s : Str) : (Tok.unk s).isArg = false := rfl

theorem takeAction_ok {st st' : St} {a : Action} {args : List Str} (h : takeAction st a args = .ok st') :
    st'.extras = st.extras ∧ st'.pos = st.pos ∧ st'.group = (if a.inGroup then some a else st.group) ∧
      conflicts st.group a = false := by
  unfold takeAction at h
  cases hv : valueOf a args with
  | none => rw [hv] at h; simp at h
  | some v =>
    rw [hv] at h
    simp only at h
    by_cases hc : conflicts st.group a = true
    · rw [if_pos hc] at h; simp at h
    · rw [if_neg hc] at h
      by_cases hh : (a.dest == helpDest) = true
      · rw [if_pos hh] at h; simp at h
      · rw [if_neg hh] at h
        injection h with h
        subst h
        exact ⟨rfl, rfl, rfl, by simpa using hc⟩

theorem takeAll_ok : ∀ (acts : List (Action × List Str)) {st st' : St}, takeAll st acts = .ok st' →
    st'.extras = st.extras ∧ st'.pos = st.pos ∧
      ((∀ p ∈ acts, p.1.inGroup = false) → st'.group = st.group)
  | [], st, st', h => by
    simp only [takeAll] at h
    injection h with h
    subst h
    exact ⟨rfl, rfl, fun _ => rfl⟩
  | (a, args) :: more, st, st', h => by
    simp only [takeAll] at h
    cases h1 : takeAction st a args with
    | error o => rw [h1] at h; simp at h
    | ok s1 =>
      rw [h1] at h
      simp only at h
      obtain ⟨e1, p1, g1, _⟩ := takeAction_ok h1
      obtain ⟨e2, p2, g2⟩ := takeAll_ok more h
      refine ⟨by rw [e2, e1], by rw [p2, p1], ?_⟩
      intro hall
      have ha : a.inGroup = false := hall (a, args) (by simp)
      rw [g2 (fun p hp => hall p (by simp [hp])), g1, ha]
      simp

/-! ### positionals take only 'A' and '-' -/

theorem takeWhile_dd_le (toks : List Tok) : (toks.takeWhile Tok.isDD).length ≤ nonO toks := by
  unfold nonO
  induction toks with
  | nil => simp
  | cons x xs ih =>
    cases x <;> simp only [List.takeWhile_cons, isDD_dd, isDD_arg, isDD_opt, isDD_unk, isO_dd, isO_arg, isO_opt, isO_unk,
      Bool.not_true, Bool.not_false, if_true, List.length_cons, List.length_nil, Bool.false_eq_true, if_false] <;> omega

theorem nonO_drop_dd (toks : List Tok) :
    nonO (toks.drop (toks.takeWhile Tok.isDD).length) + (toks.takeWhile Tok.isDD).length = nonO toks := by
  unfold nonO
  induction toks with
  | nil => simp
  | cons x xs ih =>
    cases x <;> simp only [List.takeWhile_cons, isDD_dd, isDD_arg, isDD_opt, isDD_unk, isO_dd, isO_arg, isO_opt, isO_unk,
      Bool.not_true, Bool.not_false, if_true, List.length_cons, List.length_nil, Bool.false_eq_true, if_false, List.drop_succ_cons, List.drop_zero,
      Nat.add_zero]
    omega

theorem takeWhile_da_eq (toks : List Tok) : (toks.takeWhile (fun k => k.isDD || k.isArg)).length = nonO toks := by
  unfold nonO
  induction toks with
  | nil => simp
  | cons x xs ih =>
    cases x <;> simp only [List.takeWhile_cons, isDD_dd, isDD_arg, isDD_opt, isDD_unk, isO_dd, isO_arg, isO_opt, isO_unk, isArg_dd, isArg_arg,
      isArg_opt, isArg_unk, Bool.or_true, Bool.or_false,
      Bool.not_true, Bool.not_false, if_true, List.length_cons, List.length_nil, Bool.false_eq_true, if_false, ih]

theorem nonO_arg (s : Str) (r : List Tok) : nonO (Tok.arg s :: r) = nonO r + 1 := by
  simp only [nonO, List.takeWhile_cons, isO_arg, Bool.not_false, if_true, List.length_cons]

theorem nonO_drop_nonO (toks : List Tok) : nonO (toks.drop (nonO toks)) = 0 := by
  unfold nonO
  induction toks with
  | nil => simp
  | cons x xs ih =>
    cases x <;> simp only [List.takeWhile_cons, isO_dd, isO_arg, isO_opt, isO_unk,
      Bool.not_true, Bool.not_false, if_true, List.length_cons, List.length_nil, Bool.false_eq_true, if_false, List.drop_succ_cons, List.drop_zero, ih]

theorem matchSlice_le : ∀ (pos : List Action) (toks : List Tok) (r : List Nat), matchSlice pos toks = some r →
    r.sum ≤ nonO toks ∧ r.length = pos.length
  | [], toks, r, h => by
    simp only [matchSlice] at h
    injection h with h
    subst h
    simp
  | a :: more, toks, r, h => by
    simp only [matchSlice] at h
    split at h
    · -- single
      split at h
      · rename_i s r' hd
        cases hm : matchSlice more (r'.drop (r'.takeWhile Tok.isDD).length) with
        | none => rw [hm] at h; simp at h
        | some q =>
          rw [hm] at h
          simp only [Option.map_some] at h
          injection h with h
          subst h
          obtain ⟨ih, il⟩ := matchSlice_le more _ q hm
          have h1 := nonO_drop_dd toks
          rw [hd] at h1
          have h2 : nonO (Tok.arg s :: r') = nonO r' + 1 := nonO_arg s r'
          have h3 := nonO_drop_dd r'
          simp only [List.sum_cons, List.length_cons]
          constructor
          · omega
          · omega
      · simp at h
    · split at h
      · -- plus
        split at h
        · rename_i s r' hd
          cases hm : matchSlice more (r'.drop (r'.takeWhile (fun k => k.isDD || k.isArg)).length) with
          | none => rw [hm] at h; simp at h
          | some q =>
            rw [hm] at h
            simp only [Option.map_some] at h
            injection h with h
            subst h
            obtain ⟨ih, il⟩ := matchSlice_le more _ q hm
            rw [takeWhile_da_eq] at ih ⊢
            have h1 := nonO_drop_dd toks
            rw [hd] at h1
            have h2 : nonO (Tok.arg s :: r') = nonO r' + 1 := nonO_arg s r'
            have h3 := nonO_drop_nonO r'
            simp only [List.sum_cons, List.length_cons]
            constructor
            · omega
            · omega
        · simp at h
      · cases hm : matchSlice more (toks.drop (toks.takeWhile (fun k => k.isDD || k.isArg)).length) with
        | none => rw [hm] at h; simp at h
        | some q =>
          rw [hm] at h
          simp only [Option.map_some] at h
          injection h with h
          subst h
          obtain ⟨ih, il⟩ := matchSlice_le more _ q hm
          rw [takeWhile_da_eq] at ih ⊢
          have := nonO_drop_nonO toks
          simp only [List.sum_cons, List.length_cons]
          constructor
          · omega
          · omega

theorem matchPartial_le (pos : List Action) (toks : List Tok) :
    (matchPartial pos toks).sum ≤ nonO toks ∧ (matchPartial pos toks).length ≤ pos.length := by
  unfold matchPartial
  suffices h : ∀ i, i ≤ pos.length → (matchPartial.go pos toks i).sum ≤ nonO toks ∧ (matchPartial.go pos toks i).length ≤ pos.length from
    h pos.length (Nat.le_refl _)
  intro i
  induction i with
  | zero => intro _; simp [matchPartial.go]
  | succ i ih =>
    intro hi
    simp only [matchPartial.go]
    cases hm : matchSlice (pos.take (i + 1)) toks with
    | none => exact ih (by omega)
    | some r =>
      obtain ⟨h1, h2⟩ := matchSlice_le _ _ r hm
      simp only
      refine ⟨h1, ?_⟩
      rw [h2, List.length_take]
      omega

theorem feedPos_ok : ∀ (acts : List Action) (counts : List Nat) (toks : List Tok) {st st' : St} {n : Nat},
    feedPos st acts counts toks = .ok (st', n) →
    st'.extras = st.extras ∧ st'.pos = st.pos ∧ n ≤ counts.sum ∧ ((∀ a ∈ acts, a.inGroup = false) → st'.group = st.group)
  | [], counts, toks, st, st', n, h => by
    simp only [feedPos] at h
    injection h with h
    injection h with h1 h2
    subst h1; subst h2
    exact ⟨rfl, rfl, Nat.zero_le _, fun _ => rfl⟩
  | a :: more, [], toks, st, st', n, h => by
    simp only [feedPos] at h
    injection h with h
    injection h with h1 h2
    subst h1; subst h2
    exact ⟨rfl, rfl, Nat.zero_le _, fun _ => rfl⟩
  | a :: more, c :: counts, toks, st, st', n, h => by
    simp only [feedPos] at h
    cases h1 : takeAction st a ((toks.take c).map Tok.str) with
    | error o => rw [h1] at h; simp at h
    | ok s1 =>
      rw [h1] at h
      simp only at h
      cases h2 : feedPos s1 more counts (toks.drop c) with
      | error o => rw [h2] at h; simp at h
      | ok p =>
        obtain ⟨s2, m⟩ := p
        rw [h2] at h
        simp only at h
        injection h with h
        injection h with ha hb
        subst ha; subst hb
        obtain ⟨e1, p1, g1, _⟩ := takeAction_ok h1
        obtain ⟨e2, p2, n2, g2⟩ := feedPos_ok more counts _ h2
        refine ⟨by rw [e2, e1], by rw [p2, p1], by simp only [List.sum_cons]; omega, ?_⟩
        intro hall
        rw [g2 (fun x hx => hall x (by simp [hx])), g1, hall a (by simp)]
        simp

theorem consumePos_ok {st st' : St} {toks : List Tok} {c : Nat} (h : consumePos st toks = .ok (st', c)) :
    st'.extras = st.extras ∧ c ≤ nonO toks ∧ ((∀ a ∈ st.pos, a.inGroup = false) → st'.group = st.group) ∧
      (∃ k, st'.pos = st.pos.drop k) := by
  unfold consumePos at h
  simp only at h
  cases hf : feedPos st st.pos (matchPartial st.pos toks) toks with
  | error o => rw [hf] at h; simp at h
  | ok p =>
    obtain ⟨s1, n⟩ := p
    rw [hf] at h
    simp only at h
    injection h with h
    injection h with ha hb
    subst ha; subst hb
    obtain ⟨e, pp, hn, g⟩ := feedPos_ok _ _ _ hf
    have := (matchPartial_le st.pos toks).1
    exact ⟨e, by omega, g, ⟨(matchPartial st.pos toks).length, by simp [pp]⟩⟩

/-! ### one option -/

theorem noExplicit_ok {a : Action} {acc : List (Action × List Str)} {rest : List Tok} {acts rest'} (h : noExplicit a acc rest = .ok (acts, rest')) :
    (rest' = rest ∨ ∃ s, rest = .arg s :: rest') ∧ ∃ args, acts = acc ++ [(a, args)] := by
  unfold noExplicit at h
  split at h
  · injection h with h
    injection h with h1 h2
    subst h1; subst h2
    exact ⟨Or.inl rfl, _, rfl⟩
  · split at h
    · injection h with h
      injection h with h1 h2
      subst h1; subst h2
      exact ⟨Or.inr ⟨_, rfl⟩, _, rfl⟩
    · simp at h

/-- the actions a clustered option string reaches are found through the option table -/
theorem clusterGo_ok (t : Tool) : ∀ (e : Str) (a : Action) (os : Str) (acc : List (Action × List Str)) (rest : List Tok) {acts rest'},
    clusterGo t a os e acc rest = .ok (acts, rest') →
    (rest' = rest ∨ ∃ s, rest = .arg s :: rest') ∧
      ∃ more, acts = acc ++ more ∧ (∀ p ∈ more, p.1 = a ∨ (a.nargs = 0 ∧ ∃ c, findOpt t [dash, c] = some p.1))
  | [], a, os, acc, rest, acts, rest', h => by
    simp only [clusterGo] at h
    split at h
    · simp at h
    · injection h with h
      injection h with h1 h2
      subst h1; subst h2
      exact ⟨Or.inl rfl, _, rfl, by simp⟩
  | c :: e, a, os, acc, rest, acts, rest', h => by
    simp only [clusterGo] at h
    split at h
    · rename_i hn
      have hn0 : a.nargs = 0 := by simpa using hn
      split at h
      · cases hf : findOpt t [dash, c] with
        | none => rw [hf] at h; simp at h
        | some a' =>
          rw [hf] at h
          simp only at h
          split at h
          · obtain ⟨hr, args, ha⟩ := noExplicit_ok h
            refine ⟨hr, [(a, []), (a', args)], by rw [ha]; simp, ?_⟩
            intro p hp
            simp only [List.mem_cons, List.mem_nil_iff, or_false] at hp
            rcases hp with rfl | rfl
            · exact Or.inl rfl
            · exact Or.inr ⟨hn0, c, hf⟩
          · obtain ⟨hr, more, ha, hm⟩ := clusterGo_ok t e a' [dash, c] _ rest h
            refine ⟨hr, (a, []) :: more, by rw [ha]; simp, ?_⟩
            intro p hp
            simp only [List.mem_cons] at hp
            rcases hp with rfl | hp
            · exact Or.inl rfl
            · rcases hm p hp with h1 | ⟨_, c', hc'⟩
              · exact Or.inr ⟨hn0, c, by rw [h1]; exact hf⟩
              · exact Or.inr ⟨hn0, c', hc'⟩
      · simp at h
    · injection h with h
      injection h with h1 h2
      subst h1; subst h2
      exact ⟨Or.inl rfl, _, rfl, by simp⟩

theorem consumeOpt_ok {t : Tool} {st st' : St} {a : Action} {os : Str} {ex : Option Str} {rest rest' : List Tok}
    (h : consumeOpt t st a os ex rest = .ok (st', rest')) :
    st'.extras = st.extras ∧ st'.pos = st.pos ∧ (rest' = rest ∨ ∃ s, rest = .arg s :: rest') := by
  unfold consumeOpt at h
  split at h
  · simp at h
  · rename_i acts r1 hm
    cases ht : takeAll st acts with
    | error o => rw [ht] at h; simp at h
    | ok s1 =>
      rw [ht] at h
      simp only at h
      injection h with h
      injection h with h1 h2
      subst h1; subst h2
      obtain ⟨e, p, _⟩ := takeAll_ok acts ht
      refine ⟨e, p, ?_⟩
      cases ex with
      | none => exact (noExplicit_ok hm).1
      | some e0 => exact (clusterGo_ok t e0 a os [] rest hm).1

/-! ### whole runs: an unknown option string ends among the extras -/

/-- what a run keeps: the unrecognised strings collected so far stay, every unknown option string still to come joins them -/
def KeepsExtras (k : List Tok → St → Out) : Prop :=
  ∀ toks st ns ex, k toks st = .ok ns ex → (∀ e ∈ st.extras, e ∈ ex) ∧ (∀ s, Tok.unk s ∈ toks → s ∈ ex)

theorem unk_mem_drop {toks : List Tok} {c : Nat} (hc : c ≤ nonO toks) {s : Str} (h : Tok.unk s ∈ toks) : Tok.unk s ∈ toks.drop c := by
  induction toks generalizing c with
  | nil => simp at h
  | cons x xs ih =>
    cases c with
    | zero => simpa using h
    | succ c =>
      simp only [List.drop_succ_cons]
      cases x with
      | dd =>
        have : nonO (Tok.dd :: xs) = nonO xs + 1 := by simp only [nonO, List.takeWhile_cons, isO_dd, Bool.not_false, if_true, List.length_cons]
        simp only [List.mem_cons] at h
        rcases h with h | h
        · cases h
        · exact ih (by omega) h
      | arg s0 =>
        have := nonO_arg s0 xs
        simp only [List.mem_cons] at h
        rcases h with h | h
        · cases h
        · exact ih (by omega) h
      | opt s0 a os ex =>
        have : nonO (Tok.opt s0 a os ex :: xs) = 0 := by simp only [nonO, List.takeWhile_cons, isO_opt, Bool.not_true, Bool.false_eq_true, if_false, List.length_nil]
        omega
      | unk s0 =>
        have : nonO (Tok.unk s0 :: xs) = 0 := by simp only [nonO, List.takeWhile_cons, isO_unk, Bool.not_true, Bool.false_eq_true, if_false, List.length_nil]
        omega

theorem finish_ok {t : Tool} {st : St} {ns ex} (h : finish t st = .ok ns ex) : ex = st.extras := by
  unfold finish at h
  split at h
  · simp at h
  · split at h
    · simp at h
    · injection h with _ h2
      exact h2.symm

theorem finalPhase_keeps (t : Tool) : KeepsExtras (finalPhase t) := by
  intro toks st ns ex h
  unfold finalPhase at h
  cases hc : consumePos st toks with
  | error o => rw [hc] at h; cases o <;> simp [Stop.out] at h
  | ok p =>
    obtain ⟨st', c⟩ := p
    rw [hc] at h
    simp only at h
    have he := finish_ok h
    obtain ⟨e1, hle, _, _⟩ := consumePos_ok hc
    simp only at he
    constructor
    · intro e hm
      rw [he, e1]
      exact List.mem_append_left _ hm
    · intro s hs
      rw [he]
      apply List.mem_append_right
      have := unk_mem_drop hle hs
      exact List.mem_map.mpr ⟨_, this, rfl⟩

theorem optStep_keeps (t : Tool) {k : List Tok → St → Out} (hk : KeepsExtras k) : KeepsExtras (optStep t k) := by
  intro toks st ns ex h
  unfold optStep at h
  split at h
  · rename_i s rest
    obtain ⟨h1, h2⟩ := hk _ _ _ _ h
    constructor
    · intro e hm
      exact h1 e (by simp [hm])
    · intro s' hs
      simp only [List.mem_cons] at hs
      rcases hs with hs | hs
      · injection hs with hs
        subst hs
        exact h1 _ (by simp)
      · exact h2 _ hs
  · rename_i s0 a os e0 rest
    cases hc : consumeOpt t st a os e0 rest with
    | error o => rw [hc] at h; cases o <;> simp [Stop.out] at h
    | ok p =>
      obtain ⟨st', rest'⟩ := p
      rw [hc] at h
      simp only at h
      obtain ⟨h1, h2⟩ := hk _ _ _ _ h
      obtain ⟨e1, _, hr⟩ := consumeOpt_ok hc
      constructor
      · intro e hm
        exact h1 e (by rw [e1]; exact hm)
      · intro s' hs
        simp only [List.mem_cons] at hs
        rcases hs with hs | hs
        · cases hs
        · rcases hr with hr | ⟨s1, hr⟩
          · subst hr; exact h2 _ hs
          · rw [hr] at hs
            simp only [List.mem_cons] at hs
            rcases hs with hs | hs
            · cases hs
            · exact h2 _ hs
  · simp at h

theorem unk_mem_drop_nonO {toks : List Tok} {s : Str} (h : Tok.unk s ∈ toks) : Tok.unk s ∈ toks.drop (nonO toks) :=
  unk_mem_drop (Nat.le_refl _) h

theorem loop_keeps (t : Tool) : ∀ fuel, KeepsExtras (loop t fuel)
  | 0 => by intro toks st ns ex h; simp [loop] at h
  | fuel + 1 => by
    intro toks st ns ex h
    have ih := loop_keeps t fuel
    simp only [loop, loopBody] at h
    split at h
    · exact finalPhase_keeps t _ _ _ _ h
    · split at h
      · cases hc : consumePos st toks with
        | error o => rw [hc] at h; cases o <;> simp [Stop.out] at h
        | ok p =>
          obtain ⟨st', c⟩ := p
          rw [hc] at h
          simp only at h
          obtain ⟨e1, hle, _, _⟩ := consumePos_ok hc
          split at h
          · obtain ⟨h1, h2⟩ := ih _ _ _ _ h
            exact ⟨fun e hm => h1 e (by rw [e1]; exact hm), fun s hs => h2 s (unk_mem_drop hle hs)⟩
          · obtain ⟨h1, h2⟩ := optStep_keeps t ih _ _ _ _ h
            exact ⟨fun e hm => h1 e (by simp only [e1]; exact List.mem_append_left _ hm), fun s hs => h2 s (unk_mem_drop_nonO hs)⟩
      · exact optStep_keeps t ih _ _ _ _ h

/-! ### the command line as strings -/

theorem tokenize_unk (t : Tool) : ∀ (pre : List Str) (s : Str) (post : List Str) (toks : List Tok),
    tokenize t (pre ++ s :: post) = some toks → dashdash ∉ pre → s ≠ dashdash → classify t s = .unknown → Tok.unk s ∈ toks
  | [], s, post, toks, h, _, hs, hc => by
    simp only [List.nil_append, tokenize] at h
    rw [if_neg (by simpa using hs), hc] at h
    simp only at h
    cases ht : tokenize t post with
    | none => rw [ht] at h; simp at h
    | some r => rw [ht] at h; simp only [Option.map_some] at h; injection h with h; subst h; simp
  | p :: pre, s, post, toks, h, hp, hs, hc => by
    simp only [List.cons_append, tokenize] at h
    have hp1 : p ≠ dashdash := fun e => hp (by simp [e])
    have hp2 : dashdash ∉ pre := fun e => hp (by simp [e])
    rw [if_neg (by simpa using hp1)] at h
    cases ht : tokenize t (pre ++ s :: post) with
    | none => rw [ht] at h; cases hcl : classify t p <;> rw [hcl] at h <;> simp at h
    | some r =>
      have := tokenize_unk t pre s post r ht hp2 hs hc
      rw [ht] at h
      cases hcl : classify t p <;> rw [hcl] at h <;> simp only [Option.map_some] at h
      · injection h with h; subst h; simp [this]
      · injection h with h; subst h; simp [this]
      · injection h with h; subst h; simp [this]
      · simp at h

theorem classify_unknown_head {t : Tool} {s : Str} (h : classify t s = .unknown) : s.head? = some dash := by
  unfold classify at h
  split at h
  · simp at h
  · split at h
    · simp at h
    · rename_i h2
      simpa using h2

/-- **an unknown option string before any `--` is never accepted**: whatever the parser description, `parse_known_args` ends
    with help, with an error, or hands the string back among the unrecognised ones -/
theorem parseKnown_unknown (t : Tool) (pre : List Str) (s : Str) (post : List Str) (hp : dashdash ∉ pre) (hs : s ≠ dashdash)
    (hc : classify t s = .unknown) (ns : List (Str × Val)) (ex : List Str) (h : parseKnown t (pre ++ s :: post) = .ok ns ex) : s ∈ ex := by
  unfold parseKnown at h
  cases ht : tokenize t (pre ++ s :: post) with
  | none => rw [ht] at h; simp at h
  | some toks =>
    rw [ht] at h
    simp only at h
    exact (loop_keeps t _ _ _ _ _ h).2 s (tokenize_unk t pre s post toks ht hp hs hc)

theorem cliParse_unknown (t : Tool) (pre : List Str) (s : Str) (post : List Str) (hp : dashdash ∉ pre) (hs : s ≠ dashdash)
    (hc : classify t s = .unknown) (hm : t.parseMode = .knownThenEosFilter → upper s ≠ eosWord) (ns : List (Str × Val)) (ex : List Str) :
    cliParse t (pre ++ s :: post) ≠ .ok ns ex := by
  intro h
  unfold cliParse at h
  cases hk : parseKnown t (pre ++ s :: post) with
  | help => rw [hk] at h; simp at h
  | error => rw [hk] at h; simp at h
  | ok ns' ex' =>
    rw [hk] at h
    simp only at h
    have hmem := parseKnown_unknown t pre s post hp hs hc ns' ex' hk
    cases hmode : t.parseMode with
    | strict =>
      rw [hmode] at h
      simp only at h
      have : ex'.isEmpty = false := by cases ex' with | nil => simp at hmem | cons _ _ => rfl
      rw [this] at h
      simp at h
    | knownThenEosFilter =>
      rw [hmode] at h
      simp only at h
      have : (ex'.any (fun e => e.head? == some dash && upper e != eosWord)) = true := by
        apply List.any_eq_true.mpr
        refine ⟨s, hmem, ?_⟩
        have h1 := classify_unknown_head hc
        have h2 := hm hmode
        simp [h1, h2]
      rw [if_pos this] at h
      simp at h
    | other => rw [hmode] at h; simp at h

/-! ### the exclusive group -/

theorem isO_mem_drop {toks : List Tok} {c : Nat} (hc : c ≤ nonO toks) {x : Tok} (hx : x.isO = true) (h : x ∈ toks) : x ∈ toks.drop c := by
  induction toks generalizing c with
  | nil => simp at h
  | cons y ys ih =>
    cases c with
    | zero => simpa using h
    | succ c =>
      simp only [List.drop_succ_cons]
      cases y with
      | dd =>
        have : nonO (Tok.dd :: ys) = nonO ys + 1 := by simp only [nonO, List.takeWhile_cons, isO_dd, Bool.not_false, if_true, List.length_cons]
        simp only [List.mem_cons] at h
        rcases h with h | h
        · subst h; simp at hx
        · exact ih (by omega) h
      | arg s0 =>
        have := nonO_arg s0 ys
        simp only [List.mem_cons] at h
        rcases h with h | h
        · subst h; simp at hx
        · exact ih (by omega) h
      | opt s0 a os ex =>
        have : nonO (Tok.opt s0 a os ex :: ys) = 0 := by simp only [nonO, List.takeWhile_cons, isO_opt, Bool.not_true, Bool.false_eq_true, if_false, List.length_nil]
        omega
      | unk s0 =>
        have : nonO (Tok.unk s0 :: ys) = 0 := by simp only [nonO, List.takeWhile_cons, isO_unk, Bool.not_true, Bool.false_eq_true, if_false, List.length_nil]
        omega

theorem isO_mem_rest {rest rest' : List Tok} (hr : rest' = rest ∨ ∃ s, rest = .arg s :: rest') {x : Tok} (hx : x.isO = true) (h : x ∈ rest) : x ∈ rest' := by
  rcases hr with hr | ⟨s, hr⟩
  · subst hr; exact h
  · rw [hr] at h
    simp only [List.mem_cons] at h
    rcases h with h | h
    · subst h; simp at hx
    · exact h

theorem mem_of_mem_drop' {toks : List Tok} {c : Nat} {x : Tok} (h : x ∈ toks.drop c) : x ∈ toks := List.mem_of_mem_drop h

/-- an option string that is exactly an option of the exclusive group (no explicit argument) -/
def GOpt (tok : Tok) (b : Action) : Prop := ∃ s os, tok = .opt s b os none ∧ b.inGroup = true ∧ b.nargs = 0

theorem GOpt.isO {tok : Tok} {b : Action} (h : GOpt tok b) : tok.isO = true := by
  obtain ⟨s, os, rfl, _, _⟩ := h; rfl

theorem takeAll_group : ∀ (acts : List (Action × List Str)) {st st' : St}, takeAll st acts = .ok st' →
    ∀ g, st.group = some g → ∃ g', st'.group = some g' ∧ g'.opts = g.opts
  | [], st, st', h, g, hg => by
    simp only [takeAll] at h
    injection h with h
    subst h
    exact ⟨g, hg, rfl⟩
  | (a, args) :: more, st, st', h, g, hg => by
    simp only [takeAll] at h
    cases h1 : takeAction st a args with
    | error o => rw [h1] at h; simp at h
    | ok s1 =>
      rw [h1] at h
      simp only at h
      obtain ⟨_, _, g1, c1⟩ := takeAction_ok h1
      by_cases hin : a.inGroup = true
      · have hopts : a.opts = g.opts := by
          unfold conflicts at c1
          rw [hg, hin] at c1
          simp only [Bool.true_and, bne_eq_false_iff_eq] at c1
          exact c1.symm
        obtain ⟨g', h2, h3⟩ := takeAll_group more h a (by rw [g1, if_pos hin])
        exact ⟨g', h2, by rw [h3, hopts]⟩
      · have : s1.group = some g := by rw [g1, if_neg hin, hg]
        exact takeAll_group more h g this

/-- the state remembers an option of the group and an option string of another option of the group is still to come -/
def Q (st : St) (toks : List Tok) : Prop :=
  ∃ g, st.group = some g ∧ ∃ tok ∈ toks, ∃ b, GOpt tok b ∧ b.opts ≠ g.opts

/-- two option strings of two different options of the group are still to come -/
def P2 (toks : List Tok) : Prop :=
  ∃ t1 ∈ toks, ∃ t2 ∈ toks, ∃ b1 b2, GOpt t1 b1 ∧ GOpt t2 b2 ∧ b1.opts ≠ b2.opts

def RejectsTwo (k : List Tok → St → Out) : Prop :=
  ∀ toks st, (∀ a ∈ st.pos, a.inGroup = false) → (Q st toks ∨ P2 toks) → ∀ ns ex, k toks st ≠ .ok ns ex

theorem consumeOpt_gopt {t : Tool} {st : St} {os : Str} {b : Action} {rest : List Tok} (hb : b.inGroup = true) (hn : b.nargs = 0) :
    (∃ o, consumeOpt t st b os none rest = .error o) ∨
    (∃ st', consumeOpt t st b os none rest = .ok (st', rest) ∧ st'.group = some b ∧ st'.pos = st.pos ∧ conflicts st.group b = false) := by
  unfold consumeOpt noExplicit
  simp only [hn, beq_self_eq_true, if_true, List.nil_append, takeAll]
  cases h1 : takeAction st b [] with
  | error o => exact Or.inl ⟨o, rfl⟩
  | ok s1 =>
    obtain ⟨_, p1, g1, c1⟩ := takeAction_ok h1
    exact Or.inr ⟨s1, rfl, by rw [g1, if_pos hb], p1, c1⟩

theorem consumeOpt_group {t : Tool} {st st' : St} {a : Action} {os : Str} {ex : Option Str} {rest rest' : List Tok}
    (h : consumeOpt t st a os ex rest = .ok (st', rest')) : ∀ g, st.group = some g → ∃ g', st'.group = some g' ∧ g'.opts = g.opts := by
  unfold consumeOpt at h
  split at h
  · simp at h
  · rename_i acts r1 hm
    cases ht : takeAll st acts with
    | error o => rw [ht] at h; simp at h
    | ok s1 =>
      rw [ht] at h
      simp only at h
      injection h with h
      injection h with h1 h2
      subst h1
      exact takeAll_group acts ht

theorem optStep_two (t : Tool) {k : List Tok → St → Out} (hk : RejectsTwo k) : RejectsTwo (optStep t k) := by
  intro toks st hpos hq ns ex h
  unfold optStep at h
  split at h
  · -- an unknown option string: nothing changes
    rename_i s rest
    refine hk rest { st with extras := st.extras ++ [s] } hpos ?_ ns ex h
    rcases hq with ⟨g, hg, tok, hm, b, hb, hne⟩ | ⟨t1, m1, t2, m2, b1, b2, g1, g2, hne⟩
    · refine Or.inl ⟨g, hg, tok, ?_, b, hb, hne⟩
      simp only [List.mem_cons] at hm
      rcases hm with hm | hm
      · subst hm; obtain ⟨_, _, hh, _⟩ := hb; cases hh
      · exact hm
    · refine Or.inr ⟨t1, ?_, t2, ?_, b1, b2, g1, g2, hne⟩
      · simp only [List.mem_cons] at m1
        rcases m1 with m1 | m1
        · subst m1; obtain ⟨_, _, hh, _⟩ := g1; cases hh
        · exact m1
      · simp only [List.mem_cons] at m2
        rcases m2 with m2 | m2
        · subst m2; obtain ⟨_, _, hh, _⟩ := g2; cases hh
        · exact m2
  · rename_i s0 a os e0 rest
    cases hc : consumeOpt t st a os e0 rest with
    | error o => rw [hc] at h; cases o <;> simp [Stop.out] at h
    | ok p =>
      obtain ⟨st', rest'⟩ := p
      rw [hc] at h
      simp only at h
      obtain ⟨_, hp', hr⟩ := consumeOpt_ok hc
      have hpos' : ∀ a ∈ st'.pos, a.inGroup = false := by rw [hp']; exact hpos
      refine hk rest' st' hpos' ?_ ns ex h
      rcases hq with ⟨g, hg, tok, hm, b, hb, hne⟩ | ⟨t1, m1, t2, m2, b1, b2, g1, g2, hne⟩
      · -- the group is decided: the head is the other option (error) or keeps the decision
        simp only [List.mem_cons] at hm
        rcases hm with hm | hm
        · -- the head is the conflicting option: consumeOpt cannot succeed
          exfalso
          obtain ⟨s1, os1, hh, hin, hn⟩ := hb
          subst hm
          injection hh with _ ha _ he
          subst ha; subst he
          rcases consumeOpt_gopt (t := t) (st := st) (os := os) (rest := rest) hin hn with ⟨o, ho⟩ | ⟨s2, _, _, _, hcf⟩
          · rw [ho] at hc; simp at hc
          · unfold conflicts at hcf
            rw [hg, hin] at hcf
            simp only [Bool.true_and, bne_eq_false_iff_eq] at hcf
            exact hne hcf.symm
        · obtain ⟨g', hg', hopts⟩ := consumeOpt_group hc g hg
          exact Or.inl ⟨g', hg', tok, isO_mem_rest hr hb.isO hm, b, hb, by rw [hopts]; exact hne⟩
      · simp only [List.mem_cons] at m1 m2
        rcases m1 with m1 | m1
        · -- the head is t1
          obtain ⟨s1, os1, hh, hin, hn⟩ := g1
          subst m1
          injection hh with _ ha _ he
          subst ha; subst he
          rcases m2 with m2 | m2
          · exfalso
            obtain ⟨_, _, hh2, _, _⟩ := g2
            rw [m2] at hh2
            injection hh2 with _ ha2 _ _
            exact hne (by rw [ha2])
          · rcases consumeOpt_gopt (t := t) (st := st) (os := os) (rest := rest) hin hn with ⟨o, ho⟩ | ⟨s2, hs2, hgr, _, _⟩
            · rw [ho] at hc; simp at hc
            · rw [hs2] at hc
              injection hc with hc
              injection hc with hc1 hc2
              subst hc1; subst hc2
              exact Or.inl ⟨_, hgr, t2, m2, b2, g2, fun e => hne e.symm⟩
        · rcases m2 with m2 | m2
          · -- the head is t2
            obtain ⟨s1, os1, hh, hin, hn⟩ := g2
            subst m2
            injection hh with _ ha _ he
            subst ha; subst he
            rcases consumeOpt_gopt (t := t) (st := st) (os := os) (rest := rest) hin hn with ⟨o, ho⟩ | ⟨s2, hs2, hgr, _, _⟩
            · rw [ho] at hc; simp at hc
            · rw [hs2] at hc
              injection hc with hc
              injection hc with hc1 hc2
              subst hc1; subst hc2
              exact Or.inl ⟨_, hgr, t1, m1, b1, g1, hne⟩
          · exact Or.inr ⟨t1, isO_mem_rest hr g1.isO m1, t2, isO_mem_rest hr g2.isO m2, b1, b2, g1, g2, hne⟩
  · simp at h

theorem any_isO_of_mem {toks : List Tok} {x : Tok} (hx : x.isO = true) (h : x ∈ toks) : toks.any Tok.isO = true :=
  List.any_eq_true.mpr ⟨x, h, hx⟩

theorem loop_two (t : Tool) : ∀ fuel, RejectsTwo (loop t fuel)
  | 0 => by intro toks st _ _ ns ex h; simp [loop] at h
  | fuel + 1 => by
    intro toks st hpos hq ns ex h
    have ih := loop_two t fuel
    -- some option string is still to come
    have hany : toks.any Tok.isO = true := by
      rcases hq with ⟨g, hg, tok, hm, b, hb, hne⟩ | ⟨t1, m1, t2, m2, b1, b2, g1, g2, hne⟩
      · exact any_isO_of_mem hb.isO hm
      · exact any_isO_of_mem g1.isO m1
    simp only [loop, loopBody, hany, Bool.not_true, Bool.false_eq_true, if_false] at h
    split at h
    · cases hc : consumePos st toks with
      | error o => rw [hc] at h; cases o <;> simp [Stop.out] at h
      | ok p =>
        obtain ⟨st', c⟩ := p
        rw [hc] at h
        simp only at h
        obtain ⟨_, hle, hgr, k, hk⟩ := consumePos_ok hc
        have hpos' : ∀ a ∈ st'.pos, a.inGroup = false := by
          intro a ha; rw [hk] at ha; exact hpos a (List.mem_of_mem_drop ha)
        have hg' := hgr hpos
        have carry : ∀ c', c' ≤ nonO toks → (Q st' (toks.drop c') ∨ P2 (toks.drop c')) := by
          intro c' hc'
          rcases hq with ⟨g, hg, tok, hm, b, hb, hne⟩ | ⟨t1, m1, t2, m2, b1, b2, g1, g2, hne⟩
          · exact Or.inl ⟨g, by rw [hg', hg], tok, isO_mem_drop hc' hb.isO hm, b, hb, hne⟩
          · exact Or.inr ⟨t1, isO_mem_drop hc' g1.isO m1, t2, isO_mem_drop hc' g2.isO m2, b1, b2, g1, g2, hne⟩
        split at h
        · exact ih _ _ hpos' (carry c hle) ns ex h
        · refine optStep_two t ih _ { st' with extras := st'.extras ++ (toks.take (nonO toks)).map Tok.str } hpos' ?_ ns ex h
          rcases carry (nonO toks) (Nat.le_refl _) with ⟨g, hg, r⟩ | r
          · exact Or.inl ⟨g, hg, r⟩
          · exact Or.inr r
    · exact optStep_two t ih _ _ hpos hq ns ex h

theorem tokenize_gopt (t : Tool) : ∀ (pre : List Str) (s : Str) (post : List Str) (toks : List Tok) (b : Action),
    tokenize t (pre ++ s :: post) = some toks → dashdash ∉ pre → s ≠ dashdash → findOpt t s = some b → s.head? = some dash →
    Tok.opt s b s none ∈ toks
  | [], s, post, toks, b, h, _, hs, hf, hd => by
    have hc : classify t s = .opt b s none := by
      unfold classify
      have hne : s.isEmpty = false := by cases s with | nil => simp at hd | cons _ _ => rfl
      simp only [hne, Bool.false_eq_true, if_false, hd, bne_self_eq_false, hf]
    simp only [List.nil_append, tokenize] at h
    rw [if_neg (by simpa using hs), hc] at h
    simp only at h
    cases ht : tokenize t post with
    | none => rw [ht] at h; simp at h
    | some r => rw [ht] at h; simp only [Option.map_some] at h; injection h with h; subst h; simp
  | p :: pre, s, post, toks, b, h, hp, hs, hf, hd => by
    simp only [List.cons_append, tokenize] at h
    have hp1 : p ≠ dashdash := fun e => hp (by simp [e])
    have hp2 : dashdash ∉ pre := fun e => hp (by simp [e])
    rw [if_neg (by simpa using hp1)] at h
    cases ht : tokenize t (pre ++ s :: post) with
    | none => rw [ht] at h; cases hcl : classify t p <;> rw [hcl] at h <;> simp at h
    | some r =>
      have := tokenize_gopt t pre s post r b ht hp2 hs hf hd
      rw [ht] at h
      cases hcl : classify t p <;> rw [hcl] at h <;> simp only [Option.map_some] at h
      · injection h with h; subst h; simp [this]
      · injection h with h; subst h; simp [this]
      · injection h with h; subst h; simp [this]
      · simp at h

theorem initSt_pos (t : Tool) (h : ∀ a ∈ t.actions, a.opts.isEmpty = true → a.inGroup = false) : ∀ a ∈ (initSt t).pos, a.inGroup = false := by
  intro a ha
  simp only [initSt, List.mem_filter] at ha
  exact h a ha.1 ha.2

theorem cliParse_ok_known {t : Tool} {argv : List Str} {ns ex} (h : cliParse t argv = .ok ns ex) : ∃ ns' ex', parseKnown t argv = .ok ns' ex' := by
  unfold cliParse at h
  cases hk : parseKnown t argv with
  | help => rw [hk] at h; simp at h
  | error => rw [hk] at h; simp at h
  | ok ns' ex' => exact ⟨ns', ex', rfl⟩

/-- **two different options of the exclusive group on one command line are never accepted** -/
theorem cliParse_two_actions (t : Tool) (hpos : ∀ a ∈ t.actions, a.opts.isEmpty = true → a.inGroup = false)
    (argv : List Str) (pre1 post1 pre2 post2 : List Str) (s1 s2 : Str) (b1 b2 : Action)
    (h1 : argv = pre1 ++ s1 :: post1) (h2 : argv = pre2 ++ s2 :: post2) (hp1 : dashdash ∉ pre1) (hp2 : dashdash ∉ pre2)
    (hs1 : s1 ≠ dashdash) (hs2 : s2 ≠ dashdash) (hd1 : s1.head? = some dash) (hd2 : s2.head? = some dash)
    (f1 : findOpt t s1 = some b1) (f2 : findOpt t s2 = some b2)
    (g1 : b1.inGroup = true ∧ b1.nargs = 0) (g2 : b2.inGroup = true ∧ b2.nargs = 0) (hne : b1.opts ≠ b2.opts)
    (ns : List (Str × Val)) (ex : List Str) : cliParse t argv ≠ .ok ns ex := by
  intro h
  obtain ⟨ns', ex', hk⟩ := cliParse_ok_known h
  unfold parseKnown at hk
  cases ht : tokenize t argv with
  | none => rw [ht] at hk; simp at hk
  | some toks =>
    rw [ht] at hk
    simp only at hk
    have m1 := tokenize_gopt t pre1 s1 post1 toks b1 (by rw [← h1]; exact ht) hp1 hs1 f1 hd1
    have m2 := tokenize_gopt t pre2 s2 post2 toks b2 (by rw [← h2]; exact ht) hp2 hs2 f2 hd2
    exact loop_two t _ toks (initSt t) (initSt_pos t hpos)
      (Or.inr ⟨_, m1, _, m2, b1, b2, ⟨s1, s1, rfl, g1.1, g1.2⟩, ⟨s2, s2, rfl, g2.1, g2.2⟩, hne⟩) ns' ex' hk

/-! ### no option of the required group on the command line -/

/-- an argument string that cannot reach an option of the group: not an option string of the group, and not a cluster of
    single-dash flags (an explicit argument only on an option that takes a value) -/
def NoGroupTok : Tok → Prop
  | .opt _ a _ ex => a.inGroup = false ∧ (ex.isSome = true → a.nargs ≠ 0)
  | _ => True

theorem clusterGo_value (t : Tool) (a : Action) (os : Str) (e : Str) (acc : List (Action × List Str)) (rest : List Tok) (hn : a.nargs ≠ 0) :
    clusterGo t a os e acc rest = .ok (acc ++ [(a, [e])], rest) := by
  have hb : (a.nargs == 0) = false := by simpa using hn
  cases e with
  | nil => simp only [clusterGo, hb, Bool.false_eq_true, if_false]
  | cons c e => simp only [clusterGo, hb, Bool.false_eq_true, if_false]

theorem consumeOpt_nogroup {t : Tool} {st st' : St} {a : Action} {os : Str} {ex : Option Str} {rest rest' : List Tok}
    (hin : a.inGroup = false) (hex : ex.isSome = true → a.nargs ≠ 0)
    (h : consumeOpt t st a os ex rest = .ok (st', rest')) : st'.group = st.group := by
  unfold consumeOpt at h
  split at h
  · simp at h
  · rename_i acts r1 hm
    cases ht : takeAll st acts with
    | error o => rw [ht] at h; simp at h
    | ok s1 =>
      rw [ht] at h
      simp only at h
      injection h with h
      injection h with h1 h2
      subst h1
      refine (takeAll_ok acts ht).2.2 ?_
      cases ex with
      | none =>
        obtain ⟨_, args, ha⟩ := noExplicit_ok hm
        rw [ha]
        intro p hp
        simp only [List.nil_append, List.mem_cons, List.mem_nil_iff, or_false] at hp
        subst hp
        exact hin
      | some e0 =>
        simp only at hm
        rw [clusterGo_value t a os e0 [] rest (hex rfl)] at hm
        injection hm with hm
        injection hm with hm1 _
        rw [← hm1]
        intro p hp
        simp only [List.nil_append, List.mem_cons, List.mem_nil_iff, or_false] at hp
        subst hp
        exact hin

def RejectsNone (t : Tool) (k : List Tok → St → Out) : Prop :=
  ∀ toks st, st.group = none → (∀ a ∈ st.pos, a.inGroup = false) → (∀ tok ∈ toks, NoGroupTok tok) → ∀ ns ex, k toks st ≠ .ok ns ex

theorem finalPhase_none (t : Tool) (hreq : t.groupRequired = true) : RejectsNone t (finalPhase t) := by
  intro toks st hg hpos _ ns ex h
  unfold finalPhase at h
  cases hc : consumePos st toks with
  | error o => rw [hc] at h; cases o <;> simp [Stop.out] at h
  | ok p =>
    obtain ⟨st', c⟩ := p
    rw [hc] at h
    simp only at h
    obtain ⟨_, _, hgr, _⟩ := consumePos_ok hc
    have : st'.group = none := by rw [hgr hpos, hg]
    unfold finish at h
    split at h
    · simp at h
    · simp only [hreq, this, Option.isNone_none, Bool.and_self, if_true] at h
      simp at h

theorem optStep_none (t : Tool) {k : List Tok → St → Out} (hk : RejectsNone t k) : RejectsNone t (optStep t k) := by
  intro toks st hg hpos htok ns ex h
  unfold optStep at h
  split at h
  · rename_i s rest
    exact hk rest { st with extras := st.extras ++ [s] } hg hpos (fun x hx => htok x (by simp [hx])) ns ex h
  · rename_i s0 a os e0 rest
    cases hc : consumeOpt t st a os e0 rest with
    | error o => rw [hc] at h; cases o <;> simp [Stop.out] at h
    | ok p =>
      obtain ⟨st', rest'⟩ := p
      rw [hc] at h
      simp only at h
      obtain ⟨_, hp', hr⟩ := consumeOpt_ok hc
      have hh : NoGroupTok (.opt s0 a os e0) := htok _ (by simp)
      have hg' : st'.group = none := by rw [consumeOpt_nogroup hh.1 hh.2 hc, hg]
      refine hk rest' st' hg' (by rw [hp']; exact hpos) ?_ ns ex h
      intro x hx
      rcases hr with hr | ⟨s1, hr⟩
      · subst hr; exact htok x (by simp [hx])
      · exact htok x (by rw [hr]; simp [hx])
  · simp at h

theorem loop_none (t : Tool) (hreq : t.groupRequired = true) : ∀ fuel, RejectsNone t (loop t fuel)
  | 0 => by intro toks st _ _ _ ns ex h; simp [loop] at h
  | fuel + 1 => by
    intro toks st hg hpos htok ns ex h
    have ih := loop_none t hreq fuel
    simp only [loop, loopBody] at h
    split at h
    · exact finalPhase_none t hreq _ _ hg hpos htok ns ex h
    · split at h
      · cases hc : consumePos st toks with
        | error o => rw [hc] at h; cases o <;> simp [Stop.out] at h
        | ok p =>
          obtain ⟨st', c⟩ := p
          rw [hc] at h
          simp only at h
          obtain ⟨_, _, hgr, k, hk⟩ := consumePos_ok hc
          have hpos' : ∀ a ∈ st'.pos, a.inGroup = false := by
            intro a ha; rw [hk] at ha; exact hpos a (List.mem_of_mem_drop ha)
          have hg' : st'.group = none := by rw [hgr hpos, hg]
          split at h
          · exact ih _ _ hg' hpos' (fun x hx => htok x (List.mem_of_mem_drop hx)) ns ex h
          · exact optStep_none t ih _ { st' with extras := st'.extras ++ (toks.take (nonO toks)).map Tok.str } hg' hpos'
              (fun x hx => htok x (List.mem_of_mem_drop hx)) ns ex h
      · exact optStep_none t ih _ _ hg hpos htok ns ex h

/-- the same condition on the argument strings -/
def NoGroupStr (t : Tool) (s : Str) : Prop :=
  match classify t s with
  | .opt a _ ex => a.inGroup = false ∧ (ex.isSome = true → a.nargs ≠ 0)
  | _ => True

theorem tokenize_nogroup (t : Tool) : ∀ (argv : List Str) (toks : List Tok), tokenize t argv = some toks →
    (∀ s ∈ argv, NoGroupStr t s) → ∀ tok ∈ toks, NoGroupTok tok
  | [], toks, h, _ => by
    simp only [tokenize] at h
    injection h with h
    subst h
    simp
  | s :: rest, toks, h, hall => by
    simp only [tokenize] at h
    split at h
    · injection h with h
      subst h
      intro tok hm
      simp only [List.mem_cons, List.mem_map] at hm
      rcases hm with rfl | ⟨x, _, rfl⟩ <;> trivial
    · cases ht : tokenize t rest with
      | none => rw [ht] at h; cases hcl : classify t s <;> rw [hcl] at h <;> simp at h
      | some r =>
        have ih := tokenize_nogroup t rest r ht (fun x hx => hall x (by simp [hx]))
        have hs := hall s (by simp)
        unfold NoGroupStr at hs
        rw [ht] at h
        cases hcl : classify t s <;> rw [hcl] at h <;> simp only [Option.map_some] at h
        · injection h with h; subst h
          intro tok hm
          simp only [List.mem_cons] at hm
          rcases hm with rfl | hm
          · trivial
          · exact ih tok hm
        · rename_i a o e
          injection h with h; subst h
          rw [hcl] at hs
          intro tok hm
          simp only [List.mem_cons] at hm
          rcases hm with rfl | hm
          · exact hs
          · exact ih tok hm
        · injection h with h; subst h
          intro tok hm
          simp only [List.mem_cons] at hm
          rcases hm with rfl | hm
          · trivial
          · exact ih tok hm
        · simp at h

/-- **a command line on which no string reaches an option of the required group is never accepted** -/
theorem cliParse_no_action (t : Tool) (hreq : t.groupRequired = true) (hpos : ∀ a ∈ t.actions, a.opts.isEmpty = true → a.inGroup = false)
    (argv : List Str) (hall : ∀ s ∈ argv, NoGroupStr t s) (ns : List (Str × Val)) (ex : List Str) : cliParse t argv ≠ .ok ns ex := by
  intro h
  obtain ⟨ns', ex', hk⟩ := cliParse_ok_known h
  unfold parseKnown at hk
  cases ht : tokenize t argv with
  | none => rw [ht] at hk; simp at hk
  | some toks =>
    rw [ht] at hk
    simp only at hk
    exact loop_none t hreq _ toks (initSt t) rfl (initSt_pos t hpos) (tokenize_nogroup t argv toks ht hall) ns' ex' hk

end Moto.Argparse

namespace Moto.Argparse
open Moto Moto.Gen.Cli

/-! ### the documented form is accepted: `<action> <archive> <sources and --eos markers…>` -/

/-- the value a destination holds -/
def lookup (ns : List (Str × Val)) (k : Str) : Option Val := (ns.find? (fun p => p.1 == k)).map (·.2)

theorem lookup_setNs_same (ns : List (Str × Val)) (k : Str) (v : Val) : lookup (setNs ns k v) k = some v := by
  unfold lookup setNs
  split
  · rename_i h
    induction ns with
    | nil => simp at h
    | cons p ps ih =>
      simp only [List.map_cons, List.find?_cons]
      by_cases hp : (p.1 == k) = true
      · simp [hp]
      · have : ps.any (fun p => p.1 == k) = true := by
          simp only [List.any_cons, Bool.or_eq_true] at h
          rcases h with h | h
          · exact absurd h hp
          · exact h
        simp only [hp, Bool.false_eq_true, if_false]
        exact ih this
  · rename_i h
    have hnone : ns.find? (fun p => p.1 == k) = none := by
      apply List.find?_eq_none.mpr
      intro x hx hk
      exact h (List.any_eq_true.mpr ⟨x, hx, hk⟩)
    simp [List.find?_append, hnone]

theorem lookup_map_other (k k' : Str) (v : Val) (hne : (k == k') = false) : ∀ ns : List (Str × Val),
    lookup (ns.map (fun p => if p.1 == k then (k, v) else p)) k' = lookup ns k'
  | [] => rfl
  | p :: ps => by
    have ih := lookup_map_other k k' v hne ps
    unfold lookup at ih ⊢
    simp only [List.map_cons, List.find?_cons]
    by_cases hp : (p.1 == k) = true
    · have hpk : p.1 = k := by simpa using hp
      have h1 : (p.1 == k') = false := by rw [hpk]; exact hne
      simp only [hp, if_true, hne, h1]
      exact ih
    · simp only [hp, Bool.false_eq_true, if_false]
      by_cases hq : (p.1 == k') = true
      · simp [hq]
      · simp only [hq]
        exact ih

theorem lookup_setNs_other (ns : List (Str × Val)) (k k' : Str) (v : Val) (hne : (k == k') = false) : lookup (setNs ns k v) k' = lookup ns k' := by
  unfold setNs
  split
  · exact lookup_map_other k k' v hne ns
  · unfold lookup
    simp only [List.find?_append]
    cases hf : ns.find? (fun p => p.1 == k') with
    | some x => simp
    | none => simp [hne]

/-- a plain argument: the parser takes it for a positional, it is not `--` -/
def Plain (t : Tool) (s : Str) : Prop := classify t s = .pos ∧ s ≠ dashdash

/-- a source or a marker the parser does not know -/
def SrcTok (tok : Tok) : Prop := (∃ s, tok = .arg s ∧ s ≠ dashdash) ∨ (∃ s, tok = .unk s)

theorem nonO_dd' (xs : List Tok) : nonO (Tok.dd :: xs) = nonO xs + 1 := by
  simp only [nonO, List.takeWhile_cons, isO_dd, Bool.not_false, if_true, List.length_cons]

theorem nonO_unk (u : Str) (xs : List Tok) : nonO (Tok.unk u :: xs) = 0 := by
  simp only [nonO, List.takeWhile_cons, isO_unk, Bool.not_true, Bool.false_eq_true, if_false, List.length_nil]

/-- a list of sources and markers: no option string at all, or a run of plain strings, then an unknown option string -/
theorem split_at_O : ∀ (toks : List Tok), (∀ x ∈ toks, SrcTok x) →
    (toks.any Tok.isO = false ∧ nonO toks = toks.length ∧ ∀ x ∈ toks, x.isArg = true) ∨
    (∃ pre u rest, toks = pre ++ Tok.unk u :: rest ∧ (∀ x ∈ pre, x.isArg = true) ∧ nonO toks = pre.length ∧ toks.any Tok.isO = true)
  | [], _ => Or.inl ⟨rfl, rfl, by simp⟩
  | x :: xs, h => by
    rcases h x (by simp) with ⟨s, rfl, _⟩ | ⟨u, rfl⟩
    · rcases split_at_O xs (fun y hy => h y (by simp [hy])) with ⟨h1, h2, h3⟩ | ⟨pre, u, rest, h1, h2, h3, h4⟩
      · left
        refine ⟨by simp [h1], by rw [nonO_arg, h2]; rfl, ?_⟩
        intro y hy
        simp only [List.mem_cons] at hy
        rcases hy with rfl | hy
        · rfl
        · exact h3 y hy
      · right
        refine ⟨Tok.arg s :: pre, u, rest, by rw [h1]; rfl, ?_, by rw [nonO_arg, h3]; rfl, by simp [h4]⟩
        intro y hy
        simp only [List.mem_cons] at hy
        rcases hy with rfl | hy
        · rfl
        · exact h2 y hy
    · right
      exact ⟨[], u, xs, rfl, by simp, nonO_unk u xs, by simp⟩

theorem consumePos_nil (st : St) (hpos : st.pos = []) (tk : List Tok) : consumePos st tk = .ok (st, 0) := by
  cases st with
  | mk pos ns seen group extras =>
    simp only at hpos
    subst hpos
    unfold consumePos
    simp only [matchPartial, List.length_nil, matchPartial.go, feedPos, List.drop_nil]

/-- once the positionals are consumed, plain strings and unknown option strings all join the extras, in order -/
theorem loop_all_extras (t : Tool) : ∀ (fuel : Nat) (toks : List Tok) (st : St), toks.length < fuel → st.pos = [] →
    (∀ x ∈ toks, SrcTok x) → loop t fuel toks st = finish t { st with extras := st.extras ++ toks.map Tok.str }
  | 0, toks, st, hf, _, _ => by omega
  | fuel + 1, toks, st, hf, hpos, hall => by
    rcases split_at_O toks hall with ⟨h1, _, _⟩ | ⟨pre, u, rest, hd, _, hn, hany⟩
    · simp only [loop, loopBody, h1, Bool.not_false, if_true]
      unfold finalPhase
      rw [consumePos_nil st hpos]
      simp
    · have hlen : rest.length < fuel := by
        have := congrArg List.length hd
        simp only [List.length_append, List.length_cons] at this
        omega
      have hrest : ∀ x ∈ rest, SrcTok x := fun x hx => hall x (by rw [hd]; simp [hx])
      have hdrop : toks.drop (nonO toks) = Tok.unk u :: rest := by rw [hn, hd]; exact List.drop_left' rfl
      have htake : toks.take (nonO toks) = pre := by rw [hn, hd]; exact List.take_left' rfl
      have hstr : toks.map Tok.str = pre.map Tok.str ++ u :: rest.map Tok.str := by rw [hd]; simp [Tok.str]
      simp only [loop, loopBody, hany, Bool.not_true, Bool.false_eq_true, if_false]
      split
      · rw [consumePos_nil st hpos]
        simp only [Nat.lt_irrefl, if_false, hdrop, htake, optStep]
        rw [loop_all_extras t fuel rest { st with extras := st.extras ++ pre.map Tok.str ++ [u] } hlen hpos hrest]
        simp only [hstr, List.append_assoc, List.cons_append, List.nil_append, List.singleton_append]
      · rename_i hk
        have hk0 : pre.length = 0 := by omega
        have hpre : pre = [] := List.length_eq_zero_iff.mp hk0
        subst hpre
        simp only [List.nil_append] at hd
        subst hd
        simp only [optStep]
        rw [loop_all_extras t fuel rest { st with extras := st.extras ++ [u] } hlen hpos hrest]
        simp only [List.map_cons, Tok.str, List.append_assoc, List.singleton_append]

/-- the tail of a source list after its leading plain strings: nothing, or an unknown option string first -/
def TailOK (tail : List Tok) : Prop := tail = [] ∨ ∃ u r, tail = Tok.unk u :: r

theorem takeWhile_dd_args (pre tail : List Tok) (hp : ∀ x ∈ pre, x.isArg = true) (ht : TailOK tail) :
    ((pre ++ tail).takeWhile Tok.isDD).length = 0 := by
  cases pre with
  | nil =>
    rcases ht with rfl | ⟨u, r, rfl⟩
    · rfl
    · simp only [List.nil_append, List.takeWhile_cons, isDD_unk, Bool.false_eq_true, if_false, List.length_nil]
  | cons x xs =>
    have := hp x (by simp)
    cases x <;> simp at this
    simp only [List.cons_append, List.takeWhile_cons, isDD_arg, Bool.false_eq_true, if_false, List.length_nil]

theorem takeWhile_da_args : ∀ (pre tail : List Tok), (∀ x ∈ pre, x.isArg = true) → TailOK tail →
    ((pre ++ tail).takeWhile (fun k => k.isDD || k.isArg)).length = pre.length
  | [], tail, _, ht => by
    rcases ht with rfl | ⟨u, r, rfl⟩
    · rfl
    · simp only [List.nil_append, List.takeWhile_cons, isDD_unk, isArg_unk, Bool.or_false, Bool.false_eq_true, if_false, List.length_nil]
  | x :: xs, tail, hp, ht => by
    have := hp x (by simp)
    cases x <;> simp at this
    simp only [List.cons_append, List.takeWhile_cons, isDD_arg, isArg_arg, Bool.or_true, if_true, List.length_cons]
    rw [takeWhile_da_args xs tail (fun y hy => hp y (by simp [hy])) ht]

theorem removeFirstDD_none : ∀ (l : List Str), (∀ s ∈ l, s ≠ dashdash) → removeFirstDD l = l
  | [], _ => rfl
  | s :: rest, h => by
    simp only [removeFirstDD]
    rw [if_neg (by simpa using h s (by simp)), removeFirstDD_none rest (fun x hx => h x (by simp [hx]))]

/-- the two positionals of an archiver take the archive and the plain strings that follow it -/
theorem consumePos_two (st : St) (pa ps : Action) (arc : Str) (pre tail : List Tok)
    (hpos : st.pos = [pa, ps]) (ha : pa.nargs = 3) (hs : ps.nargs = 2) (hai : pa.isInt = false)
    (hga : pa.inGroup = false) (hgs : ps.inGroup = false) (hda : (pa.dest == helpDest) = false) (hds : (ps.dest == helpDest) = false)
    (harc : arc ≠ dashdash) (hp : ∀ x ∈ pre, x.isArg = true) (hpd : ∀ x ∈ pre, x.str ≠ dashdash) (ht : TailOK tail) :
    consumePos st (Tok.arg arc :: (pre ++ tail)) =
      .ok ({ st with pos := [], ns := setNs (setNs st.ns pa.dest (.str arc)) ps.dest (.list (pre.map Tok.str)),
                     seen := ps.dest :: pa.dest :: st.seen }, 1 + pre.length) := by
  have hm : matchPartial [pa, ps] (Tok.arg arc :: (pre ++ tail)) = [1, pre.length] := by
    have h3 : (pa.nargs == 3) = true := by simp [ha]
    have h23 : (ps.nargs == 3) = false := by simp [hs]
    have h24 : (ps.nargs == 4) = false := by simp [hs]
    simp only [matchPartial, List.length_cons, List.length_nil, matchPartial.go, List.take, matchSlice, h3, if_true,
      List.takeWhile_cons, isDD_arg, Bool.false_eq_true, if_false, List.length_nil, List.drop_zero, h23, h24]
    simp only [takeWhile_dd_args pre tail hp ht, List.drop_zero, takeWhile_da_args pre tail hp ht]
    simp
  cases st with
  | mk pos ns seen group extras =>
    simp only at hpos
    subst hpos
    have hc1 : conflicts group pa = false := by simp [conflicts, hga]
    have hc2 : conflicts group ps = false := by simp [conflicts, hgs]
    have hv1 : valueOf pa [arc] = some (.str arc) := by
      have : removeFirstDD [arc] = [arc] := removeFirstDD_none [arc] (by simpa using harc)
      simp [valueOf, ha, this, hai]
    have hv2 : valueOf ps (pre.map Tok.str) = some (.list (pre.map Tok.str)) := by
      have : removeFirstDD (pre.map Tok.str) = pre.map Tok.str :=
        removeFirstDD_none _ (by intro s hs'; obtain ⟨x, hx, rfl⟩ := List.mem_map.mp hs'; exact hpd x hx)
      simp [valueOf, hs, this]
    unfold consumePos
    simp only [hm, feedPos, List.take_succ_cons, List.take_zero, List.map_cons, List.map_nil, Tok.str, takeAction, hv1, hc1,
      Bool.false_eq_true, if_false, hda, hga, List.drop_succ_cons, List.drop_zero, List.take_left' rfl, hv2, hc2, hds, hgs,
      List.length_cons, List.length_nil, List.drop_nil]
    simp [Nat.add_comm]

/-- a source of the command line: not `--`, and the parser takes it for a positional or for an option it does not know -/
def SrcStr (t : Tool) (s : Str) : Prop := s ≠ dashdash ∧ (classify t s = .pos ∨ classify t s = .unknown)

theorem tokenize_srcs (t : Tool) : ∀ (srcs : List Str), (∀ s ∈ srcs, SrcStr t s) →
    ∃ T, tokenize t srcs = some T ∧ T.map Tok.str = srcs ∧ (∀ x ∈ T, SrcTok x) ∧ (∀ x ∈ T, x.str ≠ dashdash) ∧
      (∀ u, Tok.unk u ∈ T → u ∈ srcs ∧ classify t u = .unknown)
  | [], _ => ⟨[], rfl, rfl, by simp, by simp, by simp⟩
  | s :: rest, h => by
    obtain ⟨T, h1, h2, h3, h4, h5⟩ := tokenize_srcs t rest (fun x hx => h x (by simp [hx]))
    obtain ⟨hs, hc⟩ := h s (by simp)
    simp only [tokenize]
    rw [if_neg (by simpa using hs)]
    rcases hc with hc | hc
    · refine ⟨Tok.arg s :: T, by rw [hc, h1]; rfl, by simp [Tok.str, h2], ?_, ?_, ?_⟩
      rotate_left 2
      · intro u hu
        simp only [List.mem_cons] at hu
        rcases hu with hu | hu
        · cases hu
        · exact ⟨by simp [(h5 u hu).1], (h5 u hu).2⟩
      · intro x hx
        simp only [List.mem_cons] at hx
        rcases hx with rfl | hx
        · exact Or.inl ⟨s, rfl, hs⟩
        · exact h3 x hx
      · intro x hx
        simp only [List.mem_cons] at hx
        rcases hx with rfl | hx
        · exact hs
        · exact h4 x hx
    · refine ⟨Tok.unk s :: T, by rw [hc, h1]; rfl, by simp [Tok.str, h2], ?_, ?_, ?_⟩
      rotate_left 2
      · intro u hu
        simp only [List.mem_cons] at hu
        rcases hu with hu | hu
        · injection hu with hu; subst hu; exact ⟨by simp, hc⟩
        · exact ⟨by simp [(h5 u hu).1], (h5 u hu).2⟩
      · intro x hx
        simp only [List.mem_cons] at hx
        rcases hx with rfl | hx
        · exact Or.inr ⟨s, rfl⟩
        · exact h3 x hx
      · intro x hx
        simp only [List.mem_cons] at hx
        rcases hx with rfl | hx
        · exact hs
        · exact h4 x hx

theorem loop_step (t : Tool) (fuel : Nat) (toks : List Tok) (st : St) :
    loop t (fuel + 1) toks st = loopBody t (loop t fuel) toks st := rfl

/-- **the documented form of an archiver's command line is accepted**: `<action> <archive> <sources…>`, the sources being plain
    strings or strings the parser takes for unknown options (the `--eos` markers): the archive is the second string, the action is
    the first one's, and the sources followed by the unrecognised strings are exactly the strings given, in the order given -/
theorem archiver_form_parsed (t : Tool) (pa ps a : Action) (act arc : Str) (srcs : List Str)
    (hpos : (initSt t).pos = [pa, ps]) (ha : pa.nargs = 3) (hs : ps.nargs = 2) (hai : pa.isInt = false)
    (hga : pa.inGroup = false) (hgs : ps.inGroup = false) (hda : (pa.dest == helpDest) = false) (hds : (ps.dest == helpDest) = false)
    (hreq : ∀ x ∈ t.actions, ((x.nargs == 3 || x.nargs == 4) = true) → x.dest = pa.dest)
    (hd1 : (ps.dest == pa.dest) = false) (hd2 : (ps.dest == a.dest) = false) (hd3 : (pa.dest == a.dest) = false)
    (hactne : act ≠ dashdash) (hact : classify t act = .opt a act none) (hain : a.inGroup = true) (han : a.nargs = 0)
    (hadest : (a.dest == helpDest) = false)
    (harc : Plain t arc) (hsrcs : ∀ s ∈ srcs, SrcStr t s) :
    ∃ ns ex P, parseKnown t (act :: arc :: srcs) = .ok ns ex ∧ lookup ns pa.dest = some (.str arc) ∧
      lookup ns a.dest = some (if a.const.isEmpty then .bool true else .str a.const) ∧
      lookup ns ps.dest = some (.list P) ∧ P ++ ex = srcs ∧ ((∀ s ∈ srcs, classify t s = .pos) → ex = []) := by
  obtain ⟨T, hT, hTs, hTsrc, hTdd, hTunk⟩ := tokenize_srcs t srcs hsrcs
  have htok : tokenize t (act :: arc :: srcs) = some (Tok.opt act a act none :: Tok.arg arc :: T) := by
    simp only [tokenize]
    rw [if_neg (by simpa using hactne), hact]
    simp only
    rw [if_neg (by simpa using harc.2), harc.1, hT]
    rfl
  -- the state after the action option
  let v : Val := if a.const.isEmpty then .bool true else .str a.const
  let st1 : St := { (initSt t) with ns := setNs (initSt t).ns a.dest v, seen := [a.dest], group := some a }
  have hst1pos : st1.pos = [pa, ps] := hpos
  have hstep1 : ∀ fuel, loop t (fuel + 1) (Tok.opt act a act none :: Tok.arg arc :: T) (initSt t) = loop t fuel (Tok.arg arc :: T) st1 := by
    intro fuel
    have hval : valueOf a [] = some v := by simp [valueOf, han, v]
    have hcf : conflicts (initSt t).group a = false := by simp [conflicts, initSt]
    simp only [loop, loopBody, List.any_cons, isO_opt, Bool.true_or, Bool.not_true, Bool.false_eq_true, if_false, nonO, List.takeWhile_cons,
      List.length_nil, Nat.lt_irrefl, optStep, consumeOpt, noExplicit, han, beq_self_eq_true, if_true, List.nil_append, takeAll, takeAction,
      hval, hcf, hadest, hain]
    rfl
  have hfin : ∀ (st : St) (ex : List Str), st.group = some a → pa.dest ∈ st.seen → finish t { st with extras := ex } = .ok st.ns ex := by
    intro st ex hg hseen
    unfold finish
    have h1 : (t.actions.any (fun x => (x.nargs == 3 || x.nargs == 4) && !st.seen.contains x.dest)) = false := by
      apply List.any_eq_false.mpr
      intro x hx
      by_cases hn : (x.nargs == 3 || x.nargs == 4) = true
      · have := hreq x hx hn
        simp only [hn, Bool.true_and, this]
        simpa using hseen
      · simp [hn]
    simp only [h1, Bool.false_eq_true, if_false, hg, Option.isNone_some, Bool.and_false]
  have hparse : parseKnown t (act :: arc :: srcs) = loop t (T.length + 2) (Tok.arg arc :: T) st1 := by
    unfold parseKnown
    rw [htok]
    simp only [List.length_cons]
    exact hstep1 (T.length + 2)
  rcases split_at_O T hTsrc with ⟨h1, _, hallarg⟩ | ⟨pre, u, rest, hd, hpre, _, _⟩
  · -- no marker: everything is a source
    have hcp := consumePos_two st1 pa ps arc T [] hst1pos ha hs hai hga hgs hda hds harc.2 hallarg hTdd (Or.inl rfl)
    rw [List.append_nil] at hcp
    refine ⟨setNs (setNs st1.ns pa.dest (.str arc)) ps.dest (.list (T.map Tok.str)), [], T.map Tok.str, ?_, ?_, ?_, ?_, by rw [List.append_nil, hTs], fun _ => rfl⟩
    · rw [hparse, loop_step]
      simp only [loopBody, List.any_cons, isO_arg, Bool.false_or, h1, Bool.not_false, if_true, finalPhase, hcp]
      have : (List.drop (1 + T.length) (Tok.arg arc :: T)).map Tok.str = [] := by
        rw [Nat.add_comm]; simp
      rw [this, List.append_nil]
      exact hfin { st1 with pos := [], ns := setNs (setNs st1.ns pa.dest (.str arc)) ps.dest (.list (T.map Tok.str)),
                            seen := ps.dest :: pa.dest :: st1.seen } st1.extras rfl (by simp)
    · rw [lookup_setNs_other _ _ _ _ hd1, lookup_setNs_same]
    · rw [lookup_setNs_other _ _ _ _ hd2, lookup_setNs_other _ _ _ _ hd3, lookup_setNs_same]
    · rw [lookup_setNs_same]
  · -- a marker: the plain strings before it are the sources, it and everything behind it is handed back
    have hpd : ∀ x ∈ pre, x.str ≠ dashdash := fun x hx => hTdd x (by rw [hd]; simp [hx])
    have hcp := consumePos_two st1 pa ps arc pre (Tok.unk u :: rest) hst1pos ha hs hai hga hgs hda hds harc.2 hpre hpd (Or.inr ⟨u, rest, rfl⟩)
    have hrest : ∀ x ∈ Tok.unk u :: rest, SrcTok x := fun x hx => hTsrc x (by rw [hd]; simp only [List.mem_append]; exact Or.inr hx)
    have hlen : T.length = pre.length + (rest.length + 1) := by rw [hd]; simp
    refine ⟨setNs (setNs st1.ns pa.dest (.str arc)) ps.dest (.list (pre.map Tok.str)), (Tok.unk u :: rest).map Tok.str, pre.map Tok.str, ?_, ?_, ?_, ?_, by rw [← List.map_append, ← hd, hTs], ?_⟩
    rotate_left 4
    · intro hallpos
      exfalso
      obtain ⟨hm, hc⟩ := hTunk u (by rw [hd]; simp)
      rw [hallpos u hm] at hc
      cases hc
    · rw [hparse, loop_step]
      have hany : (Tok.arg arc :: T).any Tok.isO = true := by rw [hd]; simp
      have hnon : nonO (Tok.arg arc :: T) > 0 := by rw [nonO_arg]; omega
      simp only [loopBody, hany, Bool.not_true, Bool.false_eq_true, if_false, hnon, if_true]
      rw [hd, hcp]
      simp only
      have hgt : 1 + pre.length > 0 := by omega
      simp only [hgt, if_true]
      have hdrop : List.drop (1 + pre.length) (Tok.arg arc :: (pre ++ Tok.unk u :: rest)) = Tok.unk u :: rest := by
        rw [Nat.add_comm, List.drop_succ_cons]; exact List.drop_left' rfl
      rw [hdrop]
      rw [loop_all_extras t _ (Tok.unk u :: rest) _ (by simp only [List.length_append, List.length_cons]; omega) rfl hrest]
      have := hfin { st1 with pos := [], ns := setNs (setNs st1.ns pa.dest (.str arc)) ps.dest (.list (pre.map Tok.str)),
                              seen := ps.dest :: pa.dest :: st1.seen } ([] ++ (Tok.unk u :: rest).map Tok.str) rfl (by simp)
      simpa [initSt, st1] using this
    · rw [lookup_setNs_other _ _ _ _ hd1, lookup_setNs_same]
    · rw [lookup_setNs_other _ _ _ _ hd2, lookup_setNs_other _ _ _ _ hd3, lookup_setNs_same]
    · rw [lookup_setNs_same]

/-- a source or marker as the disk archivers document them: a plain string that does not start with '-', or `--eos` in any letter case -/
def DiskSrc (t : Tool) (s : Str) : Prop :=
  (classify t s = .pos ∧ s ≠ dashdash ∧ s.head? ≠ some dash) ∨ (classify t s = .unknown ∧ upper s = eosWord)

theorem eos_ne_dashdash {s : Str} (h : upper s = eosWord) : s ≠ dashdash := by
  intro e
  subst e
  simp [upper, upperC, eosWord, dashdash] at h

/-- **the documented command line of the disk archivers**: `<action> <archive> <sources and --eos markers…>` reaches `run()` with the
    archive, the action and *the sources and markers exactly as given, in the order given* -/
theorem disk_form_accepted (t : Tool) (pa ps a : Action) (act arc : Str) (srcs : List Str)
    (hmode : t.parseMode = .knownThenEosFilter) (hsd : ps.dest = sourcesDest)
    (hpos : (initSt t).pos = [pa, ps]) (ha : pa.nargs = 3) (hs : ps.nargs = 2) (hai : pa.isInt = false)
    (hga : pa.inGroup = false) (hgs : ps.inGroup = false) (hda : (pa.dest == helpDest) = false) (hds : (ps.dest == helpDest) = false)
    (hreq : ∀ x ∈ t.actions, ((x.nargs == 3 || x.nargs == 4) = true) → x.dest = pa.dest)
    (hd1 : (ps.dest == pa.dest) = false) (hd2 : (ps.dest == a.dest) = false) (hd3 : (pa.dest == a.dest) = false)
    (hactne : act ≠ dashdash) (hact : classify t act = .opt a act none) (hain : a.inGroup = true) (han : a.nargs = 0)
    (hadest : (a.dest == helpDest) = false)
    (harc : Plain t arc) (hsrcs : ∀ s ∈ srcs, DiskSrc t s) :
    ∃ ns, cliParse t (act :: arc :: srcs) = .ok ns [] ∧ lookup ns pa.dest = some (.str arc) ∧
      lookup ns a.dest = some (if a.const.isEmpty then .bool true else .str a.const) ∧
      lookup ns ps.dest = some (.list srcs) := by
  have hsrc' : ∀ s ∈ srcs, SrcStr t s := by
    intro s hs'
    rcases hsrcs s hs' with ⟨h1, h2, _⟩ | ⟨h1, h2⟩
    · exact ⟨h2, Or.inl h1⟩
    · exact ⟨eos_ne_dashdash h2, Or.inr h1⟩
  obtain ⟨ns, ex, P, hk, l1, l2, l3, hPex, _⟩ := archiver_form_parsed t pa ps a act arc srcs hpos ha hs hai hga hgs hda hds hreq hd1 hd2 hd3
    hactne hact hain han hadest harc hsrc'
  have hfilter : (ex.any (fun e => e.head? == some dash && upper e != eosWord)) = false := by
    apply List.any_eq_false.mpr
    intro e he
    have hmem : e ∈ srcs := by rw [← hPex]; exact List.mem_append_right _ he
    rcases hsrcs e hmem with ⟨_, _, h3⟩ | ⟨_, h2⟩
    · have : (e.head? == some dash) = false := by simpa using h3
      simp [this]
    · simp [h2]
  have hold : oldSources ns = P := by
    have := l3
    unfold oldSources
    unfold lookup at this
    rw [hsd] at this
    cases hf : ns.find? (fun p => p.1 == sourcesDest) with
    | none => rw [hf] at this; simp at this
    | some q =>
      rw [hf] at this
      simp only [Option.map_some, Option.some.injEq] at this
      obtain ⟨q1, q2⟩ := q
      simp only at this
      subst this
      rfl
  refine ⟨setNs ns sourcesDest (.list (P ++ ex)), ?_, ?_, ?_, ?_⟩
  · unfold cliParse
    rw [hk]
    simp only [hmode, hfilter, Bool.false_eq_true, if_false, hold]
  · rw [lookup_setNs_other _ _ _ _ (by rw [← hsd]; exact hd1)]; exact l1
  · rw [lookup_setNs_other _ _ _ _ (by rw [← hsd]; exact hd2)]; exact l2
  · rw [hsd, lookup_setNs_same, hPex]

/-- **the documented command line of an archiver that calls `parse_args()`**: `<action> <archive> <plain sources…>` -/
theorem strict_form_accepted (t : Tool) (pa ps a : Action) (act arc : Str) (srcs : List Str)
    (hmode : t.parseMode = .strict)
    (hpos : (initSt t).pos = [pa, ps]) (ha : pa.nargs = 3) (hs : ps.nargs = 2) (hai : pa.isInt = false)
    (hga : pa.inGroup = false) (hgs : ps.inGroup = false) (hda : (pa.dest == helpDest) = false) (hds : (ps.dest == helpDest) = false)
    (hreq : ∀ x ∈ t.actions, ((x.nargs == 3 || x.nargs == 4) = true) → x.dest = pa.dest)
    (hd1 : (ps.dest == pa.dest) = false) (hd2 : (ps.dest == a.dest) = false) (hd3 : (pa.dest == a.dest) = false)
    (hactne : act ≠ dashdash) (hact : classify t act = .opt a act none) (hain : a.inGroup = true) (han : a.nargs = 0)
    (hadest : (a.dest == helpDest) = false)
    (harc : Plain t arc) (hsrcs : ∀ s ∈ srcs, Plain t s) :
    ∃ ns, cliParse t (act :: arc :: srcs) = .ok ns [] ∧ lookup ns pa.dest = some (.str arc) ∧
      lookup ns a.dest = some (if a.const.isEmpty then .bool true else .str a.const) ∧
      lookup ns ps.dest = some (.list srcs) := by
  obtain ⟨ns, ex, P, hk, l1, l2, l3, hPex, hex⟩ := archiver_form_parsed t pa ps a act arc srcs hpos ha hs hai hga hgs hda hds hreq hd1 hd2 hd3
    hactne hact hain han hadest harc (fun s hs' => ⟨(hsrcs s hs').2, Or.inl (hsrcs s hs').1⟩)
  have hnil : ex = [] := hex (fun s hs' => (hsrcs s hs').1)
  subst hnil
  rw [List.append_nil] at hPex
  subst hPex
  refine ⟨ns, ?_, l1, l2, l3⟩
  unfold cliParse
  rw [hk]
  simp [hmode]

/-- **a help option in front wins**: whatever follows (provided no later string is an ambiguous abbreviation, which stops the parser
    before anything else), the run ends with the help text -/
theorem help_first (t : Tool) (h : Str) (a : Action) (rest : List Str) (hne : h ≠ dashdash) (hc : classify t h = .opt a h none)
    (hn : a.nargs = 0) (hg : a.inGroup = false) (hd : a.dest = helpDest) (hamb : tokenize t rest ≠ none) :
    cliParse t (h :: rest) = .help := by
  cases ht : tokenize t rest with
  | none => exact absurd ht hamb
  | some toks =>
    have hk : parseKnown t (h :: rest) = .help := by
      unfold parseKnown
      simp only [tokenize]
      rw [if_neg (by simpa using hne), hc, ht]
      simp only [Option.map_some, List.length_cons]
      rw [loop_step]
      have hval : valueOf a [] = some (if a.const.isEmpty then .bool true else .str a.const) := by simp [valueOf, hn]
      have hcf : conflicts (initSt t).group a = false := by simp [conflicts, hg]
      simp only [loopBody, List.any_cons, isO_opt, Bool.true_or, Bool.not_true, Bool.false_eq_true, if_false, nonO, List.takeWhile_cons,
        List.length_nil, Nat.lt_irrefl, optStep, consumeOpt, noExplicit, hn, beq_self_eq_true, if_true, List.nil_append, takeAll, takeAction,
        hval, hcf, hd, Stop.out]
    unfold cliParse
    rw [hk]

/-! ### no option string is ambiguous for parsers without abbreviations whose option strings are `-x` or `--word` -/

theorem filterMap_le_one {α β : Type} (key : α → Str) (k0 : Str) (f : α → Option β) : ∀ (l : List α), (l.map key).Nodup →
    (∀ x ∈ l, (f x).isSome = true → key x = k0) → (l.filterMap f).length ≤ 1
  | [], _, _ => by simp
  | x :: xs, hnd, hf => by
    simp only [List.map_cons, List.nodup_cons] at hnd
    cases hx : f x with
    | none =>
      simp only [List.filterMap_cons, hx]
      exact filterMap_le_one key k0 f xs hnd.2 (fun y hy => hf y (by simp [hy]))
    | some b =>
      have hk : key x = k0 := hf x (by simp) (by simp [hx])
      have hrest : xs.filterMap f = [] := by
        apply List.filterMap_eq_nil_iff.mpr
        intro y hy
        cases hy' : f y with
        | none => rfl
        | some c =>
          exfalso
          have := hf y (by simp [hy]) (by simp [hy'])
          exact hnd.1 (by rw [hk, ← this]; exact List.mem_map.mpr ⟨y, hy, rfl⟩)
      simp [List.filterMap_cons, hx, hrest]

theorem startsWith_prefix : ∀ (pat l : List Nat), startsWith pat l = true → l.take pat.length = pat
  | [], _, _ => by simp
  | p :: ps, [], h => by simp [startsWith] at h
  | p :: ps, x :: xs, h => by
    simp only [startsWith, Bool.and_eq_true, beq_iff_eq] at h
    simp only [List.length_cons, List.take_succ_cons, h.1, startsWith_prefix ps xs h.2]

/-- the option strings of the parser: pairwise distinct, each `-x` (two characters) or beginning with `--` -/
def PlainOptions (t : Tool) : Prop :=
  t.allowAbbrev = false ∧ ((optionMap t).map (·.1)).Nodup ∧
    ∀ p ∈ optionMap t, (p.1.length = 2 ∧ p.1.head? = some dash) ∨ (p.1.take 2 = dashdash)

instance (t : Tool) : Decidable (PlainOptions t) := by unfold PlainOptions; infer_instance

theorem optionTuples_le_one (t : Tool) (hp : PlainOptions t) (s : Str) (hnf : findOpt t s = none) (hlen : 2 ≤ s.length) :
    (optionTuples t s).length ≤ 1 := by
  obtain ⟨hab, hnd, hshape⟩ := hp
  unfold optionTuples
  split
  · simp [hab]
  · rename_i h1
    have hs1 : s.getD 1 0 ≠ dash := by simpa using h1
    apply filterMap_le_one (fun p : Str × Action => p.1) (s.take 2) _ (optionMap t) hnd
    intro p hp hsome
    by_cases hA : (p.1 == s.take 2) = true
    · simpa using hA
    · exfalso
      simp only [hA, Bool.false_eq_true, if_false] at hsome
      by_cases hB : startsWith s p.1 = true
      · have hpre := startsWith_prefix s p.1 hB
        rcases hshape p hp with ⟨hl2, _⟩ | hdd
        · -- a two-character option of which `s` (two characters at least) is a prefix: it is `s`, which the table does not hold
          have hs2 : s.length = 2 := by
            have := congrArg List.length hpre
            simp only [List.length_take] at this
            omega
          have heq : p.1 = s := by
            rw [← hpre, hs2, ← hl2, List.take_length]
          have : findOpt t s = some p.2 := by
            unfold findOpt
            have hfind : ∃ q, (optionMap t).find? (fun q => q.1 == s) = some q ∧ q.1 = s := by
              cases hq : (optionMap t).find? (fun q => q.1 == s) with
              | none =>
                exfalso
                have := List.find?_eq_none.mp hq p hp
                simp [heq] at this
              | some q => exact ⟨q, rfl, by simpa using List.find?_some hq⟩
            obtain ⟨q, hq1, hq2⟩ := hfind
            rw [hq1]
            simp only [Option.map_some, Option.some.injEq]
            -- distinct option strings: q is p
            have hqm := List.mem_of_find?_eq_some hq1
            have : q = p := by
              have hinj : ∀ (l : List (Str × Action)), (l.map (·.1)).Nodup → ∀ a ∈ l, ∀ b ∈ l, a.1 = b.1 → a = b := by
                intro l
                induction l with
                | nil => intro _ a ha; simp at ha
                | cons x xs ih =>
                  intro hnd' a ha b hb hab'
                  simp only [List.map_cons, List.nodup_cons] at hnd'
                  simp only [List.mem_cons] at ha hb
                  rcases ha with rfl | ha <;> rcases hb with rfl | hb
                  · rfl
                  · exact absurd (List.mem_map.mpr ⟨b, hb, hab'.symm⟩) hnd'.1
                  · exact absurd (List.mem_map.mpr ⟨a, ha, hab'⟩) hnd'.1
                  · exact ih hnd'.2 a ha b hb hab'
              exact hinj _ hnd q hqm p hp (by rw [hq2, heq])
            rw [this]
          rw [this] at hnf
          cases hnf
        · -- an option beginning with `--` of which `s` is a prefix: the second character of `s` is '-'
          have : s.getD 1 0 = dash := by
            have h2 : (p.1.take s.length).take 2 = s.take 2 := by rw [hpre]
            rw [List.take_take, Nat.min_eq_left hlen, hdd] at h2
            match s, hlen with
            | a :: b :: r, _ =>
              simp only [List.take_succ_cons, List.take_zero, dashdash, List.cons.injEq, and_true] at h2
              simp [h2.2, dash]
          exact hs1 this
      · simp [hB] at hsome

/-- **no argument string is ambiguous** for such a parser: `tokenize` always succeeds -/
theorem classify_not_ambiguous (t : Tool) (hp : PlainOptions t) (s : Str) : classify t s ≠ .ambiguous := by
  unfold classify
  split
  · simp
  · split
    · simp
    · cases hf : findOpt t s with
      | some a => simp
      | none =>
        simp only
        split
        · simp
        · rename_i hl1 _ hl
          split
          · simp
          · have hlen : 2 ≤ s.length := by
              have h0 : s.length ≠ 0 := by
                intro h0; have := List.length_eq_zero_iff.mp h0; subst this; simp at *
              have h1 : s.length ≠ 1 := by simpa using hl
              omega
            have hle := optionTuples_le_one t hp s hf hlen
            split
            · simp
            · rename_i h2
              rw [h2] at hle
              simp at hle
            · split
              · simp
              · split <;> simp

theorem tokenize_isSome (t : Tool) (hp : PlainOptions t) : ∀ argv, tokenize t argv ≠ none
  | [] => by simp [tokenize]
  | s :: rest => by
    have ih := tokenize_isSome t hp rest
    simp only [tokenize]
    split
    · simp
    · cases hr : tokenize t rest with
      | none => exact absurd hr ih
      | some r =>
        cases hc : classify t s with
        | ambiguous => exact absurd hc (classify_not_ambiguous t hp s)
        | pos => simp
        | unknown => simp
        | opt a o e => simp

end Moto.Argparse
