/-
  Facts about the model of argparse (Model/Argparse.lean) for *every* parser description and every
  command line: what one step keeps (the unrecognised strings only grow, positionals never swallow an
  option string), and what follows for whole runs — an unknown option string always ends among the
  extras, the exclusive group is decided by the option strings alone.
-/
import MotoModel.Model.Argparse
namespace Moto.Argparse
open Moto Moto.Gen.Cli

/-! ### one action -/

@[simp] theorem isO_dd : Tok.dd.isO = false := rfl
@[simp] theorem isO_arg (s : Str) : (Tok.arg s).isO = false := rfl
@[simp] theorem isO_opt (s a os ex) : (Tok.opt s a os ex).isO = true := rfl
@[simp] theorem isO_unk (s : Str) : (Tok.unk s).isO = true := rfl
@[simp] theorem isDD_dd : Tok.dd.isDD = true := rfl
@[simp] theorem isDD_arg (s : Str) : (Tok.arg s).isDD = false := rfl
@[simp] theorem isDD_opt (s a os ex) : (Tok.opt s a os ex).isDD = false := rfl
@[simp] theorem isDD_unk (s : Str) : (Tok.unk s).isDD = false := rfl
@[simp] theorem isArg_dd : Tok.dd.isArg = false := rfl
@[simp] theorem isArg_arg (s : Str) : (Tok.arg s).isArg = true := rfl
@[simp] theorem isArg_opt (s a os ex) : (Tok.opt s a os ex).isArg = false := rfl
@[simp] theorem isArg_unk (s : Str) : (Tok.unk s).isArg = false := rfl

theorem takeAction_ok {st st' : St} {a : Action} {args : List Str} (h : takeAction st a args = .ok st') :
    st'.extras = st.extras ∧ st'.pos = st.pos ∧ st'.group = (if a.inGroup then some a else st.group) ∧
      conflicts st.group a = false := by
  unfold takeAction at h
  cases hv : valueOf a args with
  | none => rw [hv] at h; simp at h
  | some v =>
    rw [hv] at h
    simp only at h
    by_cases hc : conflicts st.group a = true
    · rw [if_pos hc] at h; simp at h
    · rw [if_neg hc] at h
      by_cases hh : (a.dest == helpDest) = true
      · rw [if_pos hh] at h; simp at h
      · rw [if_neg hh] at h
        injection h with h
        subst h
        exact ⟨rfl, rfl, rfl, by simpa using hc⟩

theorem takeAll_ok : ∀ (acts : List (Action × List Str)) {st st' : St}, takeAll st acts = .ok st' →
    st'.extras = st.extras ∧ st'.pos = st.pos ∧
      ((∀ p ∈ acts, p.1.inGroup = false) → st'.group = st.group)
  | [], st, st', h => by
    simp only [takeAll] at h
    injection h with h
    subst h
    exact ⟨rfl, rfl, fun _ => rfl⟩
  | (a, args) :: more, st, st', h => by
    simp only [takeAll] at h
    cases h1 : takeAction st a args with
    | error o => rw [h1] at h; simp at h
    | ok s1 =>
      rw [h1] at h
      simp only at h
      obtain ⟨e1, p1, g1, _⟩ := takeAction_ok h1
      obtain ⟨e2, p2, g2⟩ := takeAll_ok more h
      refine ⟨by rw [e2, e1], by rw [p2, p1], ?_⟩
      intro hall
      have ha : a.inGroup = false := hall (a, args) (by simp)
      rw [g2 (fun p hp => hall p (by simp [hp])), g1, ha]
      simp

/-! ### positionals take only 'A' and '-' -/

theorem takeWhile_dd_le (toks : List Tok) : (toks.takeWhile Tok.isDD).length ≤ nonO toks := by
  unfold nonO
  induction toks with
  | nil => simp
  | cons x xs ih =>
    cases x <;> simp only [List.takeWhile_cons, isDD_dd, isDD_arg, isDD_opt, isDD_unk, isO_dd, isO_arg, isO_opt, isO_unk,
      Bool.not_true, Bool.not_false, if_true, List.length_cons, List.length_nil, Bool.false_eq_true, if_false] <;> omega

theorem nonO_drop_dd (toks : List Tok) :
    nonO (toks.drop (toks.takeWhile Tok.isDD).length) + (toks.takeWhile Tok.isDD).length = nonO toks := by
  unfold nonO
  induction toks with
  | nil => simp
  | cons x xs ih =>
    cases x <;> simp only [List.takeWhile_cons, isDD_dd, isDD_arg, isDD_opt, isDD_unk, isO_dd, isO_arg, isO_opt, isO_unk,
      Bool.not_true, Bool.not_false, if_true, List.length_cons, List.length_nil, Bool.false_eq_true, if_false, List.drop_succ_cons, List.drop_zero,
      Nat.add_zero]
    omega

theorem takeWhile_da_eq (toks : List Tok) : (toks.takeWhile (fun k => k.isDD || k.isArg)).length = nonO toks := by
  unfold nonO
  induction toks with
  | nil => simp
  | cons x xs ih =>
    cases x <;> simp only [List.takeWhile_cons, isDD_dd, isDD_arg, isDD_opt, isDD_unk, isO_dd, isO_arg, isO_opt, isO_unk, isArg_dd, isArg_arg,
      isArg_opt, isArg_unk, Bool.or_true, Bool.or_false,
      Bool.not_true, Bool.not_false, if_true, List.length_cons, List.length_nil, Bool.false_eq_true, if_false, ih]

theorem nonO_arg (s : Str) (r : List Tok) : nonO (Tok.arg s :: r) = nonO r + 1 := by
  simp only [nonO, List.takeWhile_cons, isO_arg, Bool.not_false, if_true, List.length_cons]

theorem nonO_drop_nonO (toks : List Tok) : nonO (toks.drop (nonO toks)) = 0 := by
  unfold nonO
  induction toks with
  | nil => simp
  | cons x xs ih =>
    cases x <;> simp only [List.takeWhile_cons, isO_dd, isO_arg, isO_opt, isO_unk,
      Bool.not_true, Bool.not_false, if_true, List.length_cons, List.length_nil, Bool.false_eq_true, if_false, List.drop_succ_cons, List.drop_zero, ih]

theorem matchSlice_le : ∀ (pos : List Action) (toks : List Tok) (r : List Nat), matchSlice pos toks = some r →
    r.sum ≤ nonO toks ∧ r.length = pos.length
  | [], toks, r, h => by
    simp only [matchSlice] at h
    injection h with h
    subst h
    simp
  | a :: more, toks, r, h => by
    simp only [matchSlice] at h
    split at h
    · -- single
      split at h
      · rename_i s r' hd
        cases hm : matchSlice more (r'.drop (r'.takeWhile Tok.isDD).length) with
        | none => rw [hm] at h; simp at h
        | some q =>
          rw [hm] at h
          simp only [Option.map_some] at h
          injection h with h
          subst h
          obtain ⟨ih, il⟩ := matchSlice_le more _ q hm
          have h1 := nonO_drop_dd toks
          rw [hd] at h1
          have h2 : nonO (Tok.arg s :: r') = nonO r' + 1 := nonO_arg s r'
          have h3 := nonO_drop_dd r'
          simp only [List.sum_cons, List.length_cons]
          constructor
          · omega
          · omega
      · simp at h
    · split at h
      · -- plus
        split at h
        · rename_i s r' hd
          cases hm : matchSlice more (r'.drop (r'.takeWhile (fun k => k.isDD || k.isArg)).length) with
          | none => rw [hm] at h; simp at h
          | some q =>
            rw [hm] at h
            simp only [Option.map_some] at h
            injection h with h
            subst h
            obtain ⟨ih, il⟩ := matchSlice_le more _ q hm
            rw [takeWhile_da_eq] at ih ⊢
            have h1 := nonO_drop_dd toks
            rw [hd] at h1
            have h2 : nonO (Tok.arg s :: r') = nonO r' + 1 := nonO_arg s r'
            have h3 := nonO_drop_nonO r'
            simp only [List.sum_cons, List.length_cons]
            constructor
            · omega
            · omega
        · simp at h
      · cases hm : matchSlice more (toks.drop (toks.takeWhile (fun k => k.isDD || k.isArg)).length) with
        | none => rw [hm] at h; simp at h
        | some q =>
          rw [hm] at h
          simp only [Option.map_some] at h
          injection h with h
          subst h
          obtain ⟨ih, il⟩ := matchSlice_le more _ q hm
          rw [takeWhile_da_eq] at ih ⊢
          have := nonO_drop_nonO toks
          simp only [List.sum_cons, List.length_cons]
          constructor
          · omega
          · omega

theorem matchPartial_le (pos : List Action) (toks : List Tok) :
    (matchPartial pos toks).sum ≤ nonO toks ∧ (matchPartial pos toks).length ≤ pos.length := by
  unfold matchPartial
  suffices h : ∀ i, i ≤ pos.length → (matchPartial.go pos toks i).sum ≤ nonO toks ∧ (matchPartial.go pos toks i).length ≤ pos.length from
    h pos.length (Nat.le_refl _)
  intro i
  induction i with
  | zero => intro _; simp [matchPartial.go]
  | succ i ih =>
    intro hi
    simp only [matchPartial.go]
    cases hm : matchSlice (pos.take (i + 1)) toks with
    | none => exact ih (by omega)
    | some r =>
      obtain ⟨h1, h2⟩ := matchSlice_le _ _ r hm
      simp only
      refine ⟨h1, ?_⟩
      rw [h2, List.length_take]
      omega

theorem feedPos_ok : ∀ (acts : List Action) (counts : List Nat) (toks : List Tok) {st st' : St} {n : Nat},
    feedPos st acts counts toks = .ok (st', n) →
    st'.extras = st.extras ∧ st'.pos = st.pos ∧ n ≤ counts.sum ∧ ((∀ a ∈ acts, a.inGroup = false) → st'.group = st.group)
  | [], counts, toks, st, st', n, h => by
    simp only [feedPos] at h
    injection h with h
    injection h with h1 h2
    subst h1; subst h2
    exact ⟨rfl, rfl, Nat.zero_le _, fun _ => rfl⟩
  | a :: more, [], toks, st, st', n, h => by
    simp only [feedPos] at h
    injection h with h
    injection h with h1 h2
    subst h1; subst h2
    exact ⟨rfl, rfl, Nat.zero_le _, fun _ => rfl⟩
  | a :: more, c :: counts, toks, st, st', n, h => by
    simp only [feedPos] at h
    cases h1 : takeAction st a ((toks.take c).map Tok.str) with
    | error o => rw [h1] at h; simp at h
    | ok s1 =>
      rw [h1] at h
      simp only at h
      cases h2 : feedPos s1 more counts (toks.drop c) with
      | error o => rw [h2] at h; simp at h
      | ok p =>
        obtain ⟨s2, m⟩ := p
        rw [h2] at h
        simp only at h
        injection h with h
        injection h with ha hb
        subst ha; subst hb
        obtain ⟨e1, p1, g1, _⟩ := takeAction_ok h1
        obtain ⟨e2, p2, n2, g2⟩ := feedPos_ok more counts _ h2
        refine ⟨by rw [e2, e1], by rw [p2, p1], by simp only [List.sum_cons]; omega, ?_⟩
        intro hall
        rw [g2 (fun x hx => hall x (by simp [hx])), g1, hall a (by simp)]
        simp

theorem consumePos_ok {st st' : St} {toks : List Tok} {c : Nat} (h : consumePos st toks = .ok (st', c)) :
    st'.extras = st.extras ∧ c ≤ nonO toks ∧ ((∀ a ∈ st.pos, a.inGroup = false) → st'.group = st.group) ∧
      (∃ k, st'.pos = st.pos.drop k) := by
  unfold consumePos at h
  simp only at h
  cases hf : feedPos st st.pos (matchPartial st.pos toks) toks with
  | error o => rw [hf] at h; simp at h
  | ok p =>
    obtain ⟨s1, n⟩ := p
    rw [hf] at h
    simp only at h
    injection h with h
    injection h with ha hb
    subst ha; subst hb
    obtain ⟨e, pp, hn, g⟩ := feedPos_ok _ _ _ hf
    have := (matchPartial_le st.pos toks).1
    exact ⟨e, by omega, g, ⟨(matchPartial st.pos toks).length, by simp [pp]⟩⟩

/-! ### one option -/

theorem noExplicit_ok {a : Action} {acc : List (Action × List Str)} {rest : List Tok} {acts rest'} (h : noExplicit a acc rest = .ok (acts, rest')) :
    (rest' = rest ∨ ∃ s, rest = .arg s :: rest') ∧ ∃ args, acts = acc ++ [(a, args)] := by
  unfold noExplicit at h
  split at h
  · injection h with h
    injection h with h1 h2
    subst h1; subst h2
    exact ⟨Or.inl rfl, _, rfl⟩
  · split at h
    · injection h with h
      injection h with h1 h2
      subst h1; subst h2
      exact ⟨Or.inr ⟨_, rfl⟩, _, rfl⟩
    · simp at h

/-- the actions a clustered option string reaches are found through the option table -/
theorem clusterGo_ok (t : Tool) : ∀ (e : Str) (a : Action) (os : Str) (acc : List (Action × List Str)) (rest : List Tok) {acts rest'},
    clusterGo t a os e acc rest = .ok (acts, rest') →
    (rest' = rest ∨ ∃ s, rest = .arg s :: rest') ∧
      ∃ more, acts = acc ++ more ∧ (∀ p ∈ more, p.1 = a ∨ (a.nargs = 0 ∧ ∃ c, findOpt t [dash, c] = some p.1))
  | [], a, os, acc, rest, acts, rest', h => by
    simp only [clusterGo] at h
    split at h
    · simp at h
    · injection h with h
      injection h with h1 h2
      subst h1; subst h2
      exact ⟨Or.inl rfl, _, rfl, by simp⟩
  | c :: e, a, os, acc, rest, acts, rest', h => by
    simp only [clusterGo] at h
    split at h
    · rename_i hn
      have hn0 : a.nargs = 0 := by simpa using hn
      split at h
      · cases hf : findOpt t [dash, c] with
        | none => rw [hf] at h; simp at h
        | some a' =>
          rw [hf] at h
          simp only at h
          split at h
          · obtain ⟨hr, args, ha⟩ := noExplicit_ok h
            refine ⟨hr, [(a, []), (a', args)], by rw [ha]; simp, ?_⟩
            intro p hp
            simp only [List.mem_cons, List.mem_nil_iff, or_false] at hp
            rcases hp with rfl | rfl
            · exact Or.inl rfl
            · exact Or.inr ⟨hn0, c, hf⟩
          · obtain ⟨hr, more, ha, hm⟩ := clusterGo_ok t e a' [dash, c] _ rest h
            refine ⟨hr, (a, []) :: more, by rw [ha]; simp, ?_⟩
            intro p hp
            simp only [List.mem_cons] at hp
            rcases hp with rfl | hp
            · exact Or.inl rfl
            · rcases hm p hp with h1 | ⟨_, c', hc'⟩
              · exact Or.inr ⟨hn0, c, by rw [h1]; exact hf⟩
              · exact Or.inr ⟨hn0, c', hc'⟩
      · simp at h
    · injection h with h
      injection h with h1 h2
      subst h1; subst h2
      exact ⟨Or.inl rfl, _, rfl, by simp⟩

theorem consumeOpt_ok {t : Tool} {st st' : St} {a : Action} {os : Str} {ex : Option Str} {rest rest' : List Tok}
    (h : consumeOpt t st a os ex rest = .ok (st', rest')) :
    st'.extras = st.extras ∧ st'.pos = st.pos ∧ (rest' = rest ∨ ∃ s, rest = .arg s :: rest') := by
  unfold consumeOpt at h
  split at h
  · simp at h
  · rename_i acts r1 hm
    cases ht : takeAll st acts with
    | error o => rw [ht] at h; simp at h
    | ok s1 =>
      rw [ht] at h
      simp only at h
      injection h with h
      injection h with h1 h2
      subst h1; subst h2
      obtain ⟨e, p, _⟩ := takeAll_ok acts ht
      refine ⟨e, p, ?_⟩
      cases ex with
      | none => exact (noExplicit_ok hm).1
      | some e0 => exact (clusterGo_ok t e0 a os [] rest hm).1

/-! ### whole runs: an unknown option string ends among the extras -/

/-- what a run keeps: the unrecognised strings collected so far stay, every unknown option string still to come joins them -/
def KeepsExtras (k : List Tok → St → Out) : Prop :=
  ∀ toks st ns ex, k toks st = .ok ns ex → (∀ e ∈ st.extras, e ∈ ex) ∧ (∀ s, Tok.unk s ∈ toks → s ∈ ex)

theorem unk_mem_drop {toks : List Tok} {c : Nat} (hc : c ≤ nonO toks) {s : Str} (h : Tok.unk s ∈ toks) : Tok.unk s ∈ toks.drop c := by
  induction toks generalizing c with
  | nil => simp at h
  | cons x xs ih =>
    cases c with
    | zero => simpa using h
    | succ c =>
      simp only [List.drop_succ_cons]
      cases x with
      | dd =>
        have : nonO (Tok.dd :: xs) = nonO xs + 1 := by simp only [nonO, List.takeWhile_cons, isO_dd, Bool.not_false, if_true, List.length_cons]
        simp only [List.mem_cons] at h
        rcases h with h | h
        · cases h
        · exact ih (by omega) h
      | arg s0 =>
        have := nonO_arg s0 xs
        simp only [List.mem_cons] at h
        rcases h with h | h
        · cases h
        · exact ih (by omega) h
      | opt s0 a os ex =>
        have : nonO (Tok.opt s0 a os ex :: xs) = 0 := by simp only [nonO, List.takeWhile_cons, isO_opt, Bool.not_true, Bool.false_eq_true, if_false, List.length_nil]
        omega
      | unk s0 =>
        have : nonO (Tok.unk s0 :: xs) = 0 := by simp only [nonO, List.takeWhile_cons, isO_unk, Bool.not_true, Bool.false_eq_true, if_false, List.length_nil]
        omega

theorem finish_ok {t : Tool} {st : St} {ns ex} (h : finish t st = .ok ns ex) : ex = st.extras := by
  unfold finish at h
  split at h
  · simp at h
  · split at h
    · simp at h
    · injection h with _ h2
      exact h2.symm

theorem finalPhase_keeps (t : Tool) : KeepsExtras (finalPhase t) := by
  intro toks st ns ex h
  unfold finalPhase at h
  cases hc : consumePos st toks with
  | error o => rw [hc] at h; cases o <;> simp [Stop.out] at h
  | ok p =>
    obtain ⟨st', c⟩ := p
    rw [hc] at h
    simp only at h
    have he := finish_ok h
    obtain ⟨e1, hle, _, _⟩ := consumePos_ok hc
    simp only at he
    constructor
    · intro e hm
      rw [he, e1]
      exact List.mem_append_left _ hm
    · intro s hs
      rw [he]
      apply List.mem_append_right
      have := unk_mem_drop hle hs
      exact List.mem_map.mpr ⟨_, this, rfl⟩

theorem optStep_keeps (t : Tool) {k : List Tok → St → Out} (hk : KeepsExtras k) : KeepsExtras (optStep t k) := by
  intro toks st ns ex h
  unfold optStep at h
  split at h
  · rename_i s rest
    obtain ⟨h1, h2⟩ := hk _ _ _ _ h
    constructor
    · intro e hm
      exact h1 e (by simp [hm])
    · intro s' hs
      simp only [List.mem_cons] at hs
      rcases hs with hs | hs
      · injection hs with hs
        subst hs
        exact h1 _ (by simp)
      · exact h2 _ hs
  · rename_i s0 a os e0 rest
    cases hc : consumeOpt t st a os e0 rest with
    | error o => rw [hc] at h; cases o <;> simp [Stop.out] at h
    | ok p =>
      obtain ⟨st', rest'⟩ := p
      rw [hc] at h
      simp only at h
      obtain ⟨h1, h2⟩ := hk _ _ _ _ h
      obtain ⟨e1, _, hr⟩ := consumeOpt_ok hc
      constructor
      · intro e hm
        exact h1 e (by rw [e1]; exact hm)
      · intro s' hs
        simp only [List.mem_cons] at hs
        rcases hs with hs | hs
        · cases hs
        · rcases hr with hr | ⟨s1, hr⟩
          · subst hr; exact h2 _ hs
          · rw [hr] at hs
            simp only [List.mem_cons] at hs
            rcases hs with hs | hs
            · cases hs
            · exact h2 _ hs
  · simp at h

theorem unk_mem_drop_nonO {toks : List Tok} {s : Str} (h : Tok.unk s ∈ toks) : Tok.unk s ∈ toks.drop (nonO toks) :=
  unk_mem_drop (Nat.le_refl _) h

theorem loop_keeps (t : Tool) : ∀ fuel, KeepsExtras (loop t fuel)
  | 0 => by intro toks st ns ex h; simp [loop] at h
  | fuel + 1 => by
    intro toks st ns ex h
    have ih := loop_keeps t fuel
    simp only [loop] at h
    split at h
    · exact finalPhase_keeps t _ _ _ _ h
    · split at h
      · cases hc : consumePos st toks with
        | error o => rw [hc] at h; cases o <;> simp [Stop.out] at h
        | ok p =>
          obtain ⟨st', c⟩ := p
          rw [hc] at h
          simp only at h
          obtain ⟨e1, hle, _, _⟩ := consumePos_ok hc
          split at h
          · obtain ⟨h1, h2⟩ := ih _ _ _ _ h
            exact ⟨fun e hm => h1 e (by rw [e1]; exact hm), fun s hs => h2 s (unk_mem_drop hle hs)⟩
          · obtain ⟨h1, h2⟩ := optStep_keeps t ih _ _ _ _ h
            exact ⟨fun e hm => h1 e (by simp only [e1]; exact List.mem_append_left _ hm), fun s hs => h2 s (unk_mem_drop_nonO hs)⟩
      · exact optStep_keeps t ih _ _ _ _ h

/-! ### the command line as strings -/

theorem tokenize_unk (t : Tool) : ∀ (pre : List Str) (s : Str) (post : List Str) (toks : List Tok),
    tokenize t (pre ++ s :: post) = some toks → dashdash ∉ pre → s ≠ dashdash → classify t s = .unknown → Tok.unk s ∈ toks
  | [], s, post, toks, h, _, hs, hc => by
    simp only [List.nil_append, tokenize] at h
    rw [if_neg (by simpa using hs), hc] at h
    simp only at h
    cases ht : tokenize t post with
    | none => rw [ht] at h; simp at h
    | some r => rw [ht] at h; simp only [Option.map_some] at h; injection h with h; subst h; simp
  | p :: pre, s, post, toks, h, hp, hs, hc => by
    simp only [List.cons_append, tokenize] at h
    have hp1 : p ≠ dashdash := fun e => hp (by simp [e])
    have hp2 : dashdash ∉ pre := fun e => hp (by simp [e])
    rw [if_neg (by simpa using hp1)] at h
    cases ht : tokenize t (pre ++ s :: post) with
    | none => rw [ht] at h; cases hcl : classify t p <;> rw [hcl] at h <;> simp at h
    | some r =>
      have := tokenize_unk t pre s post r ht hp2 hs hc
      rw [ht] at h
      cases hcl : classify t p <;> rw [hcl] at h <;> simp only [Option.map_some] at h
      · injection h with h; subst h; simp [this]
      · injection h with h; subst h; simp [this]
      · injection h with h; subst h; simp [this]
      · simp at h

theorem classify_unknown_head {t : Tool} {s : Str} (h : classify t s = .unknown) : s.head? = some dash := by
  unfold classify at h
  split at h
  · simp at h
  · split at h
    · simp at h
    · rename_i h2
      simpa using h2

/-- **an unknown option string before any `--` is never accepted**: whatever the parser description, `parse_known_args` ends
    with help, with an error, or hands the string back among the unrecognised ones -/
theorem parseKnown_unknown (t : Tool) (pre : List Str) (s : Str) (post : List Str) (hp : dashdash ∉ pre) (hs : s ≠ dashdash)
    (hc : classify t s = .unknown) (ns : List (Str × Val)) (ex : List Str) (h : parseKnown t (pre ++ s :: post) = .ok ns ex) : s ∈ ex := by
  unfold parseKnown at h
  cases ht : tokenize t (pre ++ s :: post) with
  | none => rw [ht] at h; simp at h
  | some toks =>
    rw [ht] at h
    simp only at h
    exact (loop_keeps t _ _ _ _ _ h).2 s (tokenize_unk t pre s post toks ht hp hs hc)

theorem cliParse_unknown (t : Tool) (pre : List Str) (s : Str) (post : List Str) (hp : dashdash ∉ pre) (hs : s ≠ dashdash)
    (hc : classify t s = .unknown) (hm : t.parseMode = .knownThenEosFilter → upper s ≠ eosWord) (ns : List (Str × Val)) (ex : List Str) :
    cliParse t (pre ++ s :: post) ≠ .ok ns ex := by
  intro h
  unfold cliParse at h
  cases hk : parseKnown t (pre ++ s :: post) with
  | help => rw [hk] at h; simp at h
  | error => rw [hk] at h; simp at h
  | ok ns' ex' =>
    rw [hk] at h
    simp only at h
    have hmem := parseKnown_unknown t pre s post hp hs hc ns' ex' hk
    cases hmode : t.parseMode with
    | strict =>
      rw [hmode] at h
      simp only at h
      have : ex'.isEmpty = false := by cases ex' with | nil => simp at hmem | cons _ _ => rfl
      rw [this] at h
      simp at h
    | knownThenEosFilter =>
      rw [hmode] at h
      simp only at h
      have : (ex'.any (fun e => e.head? == some dash && upper e != eosWord)) = true := by
        apply List.any_eq_true.mpr
        refine ⟨s, hmem, ?_⟩
        have h1 := classify_unknown_head hc
        have h2 := hm hmode
        simp [h1, h2]
      rw [if_pos this] at h
      simp at h
    | other => rw [hmode] at h; simp at h

/-! ### the exclusive group -/

theorem isO_mem_drop {toks : List Tok} {c : Nat} (hc : c ≤ nonO toks) {x : Tok} (hx : x.isO = true) (h : x ∈ toks) : x ∈ toks.drop c := by
  induction toks generalizing c with
  | nil => simp at h
  | cons y ys ih =>
    cases c with
    | zero => simpa using h
    | succ c =>
      simp only [List.drop_succ_cons]
      cases y with
      | dd =>
        have : nonO (Tok.dd :: ys) = nonO ys + 1 := by simp only [nonO, List.takeWhile_cons, isO_dd, Bool.not_false, if_true, List.length_cons]
        simp only [List.mem_cons] at h
        rcases h with h | h
        · subst h; simp at hx
        · exact ih (by omega) h
      | arg s0 =>
        have := nonO_arg s0 ys
        simp only [List.mem_cons] at h
        rcases h with h | h
        · subst h; simp at hx
        · exact ih (by omega) h
      | opt s0 a os ex =>
        have : nonO (Tok.opt s0 a os ex :: ys) = 0 := by simp only [nonO, List.takeWhile_cons, isO_opt, Bool.not_true, Bool.false_eq_true, if_false, List.length_nil]
        omega
      | unk s0 =>
        have : nonO (Tok.unk s0 :: ys) = 0 := by simp only [nonO, List.takeWhile_cons, isO_unk, Bool.not_true, Bool.false_eq_true, if_false, List.length_nil]
        omega

theorem isO_mem_rest {rest rest' : List Tok} (hr : rest' = rest ∨ ∃ s, rest = .arg s :: rest') {x : Tok} (hx : x.isO = true) (h : x ∈ rest) : x ∈ rest' := by
  rcases hr with hr | ⟨s, hr⟩
  · subst hr; exact h
  · rw [hr] at h
    simp only [List.mem_cons] at h
    rcases h with h | h
    · subst h; simp at hx
    · exact h

theorem mem_of_mem_drop' {toks : List Tok} {c : Nat} {x : Tok} (h : x ∈ toks.drop c) : x ∈ toks := List.mem_of_mem_drop h

/-- an option string that is exactly an option of the exclusive group (no explicit argument) -/
def GOpt (tok : Tok) (b : Action) : Prop := ∃ s os, tok = .opt s b os none ∧ b.inGroup = true ∧ b.nargs = 0

theorem GOpt.isO {tok : Tok} {b : Action} (h : GOpt tok b) : tok.isO = true := by
  obtain ⟨s, os, rfl, _, _⟩ := h; rfl

theorem takeAll_group : ∀ (acts : List (Action × List Str)) {st st' : St}, takeAll st acts = .ok st' →
    ∀ g, st.group = some g → ∃ g', st'.group = some g' ∧ g'.opts = g.opts
  | [], st, st', h, g, hg => by
    simp only [takeAll] at h
    injection h with h
    subst h
    exact ⟨g, hg, rfl⟩
  | (a, args) :: more, st, st', h, g, hg => by
    simp only [takeAll] at h
    cases h1 : takeAction st a args with
    | error o => rw [h1] at h; simp at h
    | ok s1 =>
      rw [h1] at h
      simp only at h
      obtain ⟨_, _, g1, c1⟩ := takeAction_ok h1
      by_cases hin : a.inGroup = true
      · have hopts : a.opts = g.opts := by
          unfold conflicts at c1
          rw [hg, hin] at c1
          simp only [Bool.true_and, bne_eq_false_iff_eq] at c1
          exact c1.symm
        obtain ⟨g', h2, h3⟩ := takeAll_group more h a (by rw [g1, if_pos hin])
        exact ⟨g', h2, by rw [h3, hopts]⟩
      · have : s1.group = some g := by rw [g1, if_neg hin, hg]
        exact takeAll_group more h g this

/-- the state remembers an option of the group and an option string of another option of the group is still to come -/
def Q (st : St) (toks : List Tok) : Prop :=
  ∃ g, st.group = some g ∧ ∃ tok ∈ toks, ∃ b, GOpt tok b ∧ b.opts ≠ g.opts

/-- two option strings of two different options of the group are still to come -/
def P2 (toks : List Tok) : Prop :=
  ∃ t1 ∈ toks, ∃ t2 ∈ toks, ∃ b1 b2, GOpt t1 b1 ∧ GOpt t2 b2 ∧ b1.opts ≠ b2.opts

def RejectsTwo (k : List Tok → St → Out) : Prop :=
  ∀ toks st, (∀ a ∈ st.pos, a.inGroup = false) → (Q st toks ∨ P2 toks) → ∀ ns ex, k toks st ≠ .ok ns ex

theorem consumeOpt_gopt {t : Tool} {st : St} {os : Str} {b : Action} {rest : List Tok} (hb : b.inGroup = true) (hn : b.nargs = 0) :
    (∃ o, consumeOpt t st b os none rest = .error o) ∨
    (∃ st', consumeOpt t st b os none rest = .ok (st', rest) ∧ st'.group = some b ∧ st'.pos = st.pos ∧ conflicts st.group b = false) := by
  unfold consumeOpt noExplicit
  simp only [hn, beq_self_eq_true, if_true, List.nil_append, takeAll]
  cases h1 : takeAction st b [] with
  | error o => exact Or.inl ⟨o, rfl⟩
  | ok s1 =>
    obtain ⟨_, p1, g1, c1⟩ := takeAction_ok h1
    exact Or.inr ⟨s1, rfl, by rw [g1, if_pos hb], p1, c1⟩

theorem consumeOpt_group {t : Tool} {st st' : St} {a : Action} {os : Str} {ex : Option Str} {rest rest' : List Tok}
    (h : consumeOpt t st a os ex rest = .ok (st', rest')) : ∀ g, st.group = some g → ∃ g', st'.group = some g' ∧ g'.opts = g.opts := by
  unfold consumeOpt at h
  split at h
  · simp at h
  · rename_i acts r1 hm
    cases ht : takeAll st acts with
    | error o => rw [ht] at h; simp at h
    | ok s1 =>
      rw [ht] at h
      simp only at h
      injection h with h
      injection h with h1 h2
      subst h1
      exact takeAll_group acts ht

theorem optStep_two (t : Tool) {k : List Tok → St → Out} (hk : RejectsTwo k) : RejectsTwo (optStep t k) := by
  intro toks st hpos hq ns ex h
  unfold optStep at h
  split at h
  · -- an unknown option string: nothing changes
    rename_i s rest
    refine hk rest { st with extras := st.extras ++ [s] } hpos ?_ ns ex h
    rcases hq with ⟨g, hg, tok, hm, b, hb, hne⟩ | ⟨t1, m1, t2, m2, b1, b2, g1, g2, hne⟩
    · refine Or.inl ⟨g, hg, tok, ?_, b, hb, hne⟩
      simp only [List.mem_cons] at hm
      rcases hm with hm | hm
      · subst hm; obtain ⟨_, _, hh, _⟩ := hb; cases hh
      · exact hm
    · refine Or.inr ⟨t1, ?_, t2, ?_, b1, b2, g1, g2, hne⟩
      · simp only [List.mem_cons] at m1
        rcases m1 with m1 | m1
        · subst m1; obtain ⟨_, _, hh, _⟩ := g1; cases hh
        · exact m1
      · simp only [List.mem_cons] at m2
        rcases m2 with m2 | m2
        · subst m2; obtain ⟨_, _, hh, _⟩ := g2; cases hh
        · exact m2
  · rename_i s0 a os e0 rest
    cases hc : consumeOpt t st a os e0 rest with
    | error o => rw [hc] at h; cases o <;> simp [Stop.out] at h
    | ok p =>
      obtain ⟨st', rest'⟩ := p
      rw [hc] at h
      simp only at h
      obtain ⟨_, hp', hr⟩ := consumeOpt_ok hc
      have hpos' : ∀ a ∈ st'.pos, a.inGroup = false := by rw [hp']; exact hpos
      refine hk rest' st' hpos' ?_ ns ex h
      rcases hq with ⟨g, hg, tok, hm, b, hb, hne⟩ | ⟨t1, m1, t2, m2, b1, b2, g1, g2, hne⟩
      · -- the group is decided: the head is the other option (error) or keeps the decision
        simp only [List.mem_cons] at hm
        rcases hm with hm | hm
        · -- the head is the conflicting option: consumeOpt cannot succeed
          exfalso
          obtain ⟨s1, os1, hh, hin, hn⟩ := hb
          subst hm
          injection hh with _ ha _ he
          subst ha; subst he
          rcases consumeOpt_gopt (t := t) (st := st) (os := os) (rest := rest) hin hn with ⟨o, ho⟩ | ⟨s2, _, _, _, hcf⟩
          · rw [ho] at hc; simp at hc
          · unfold conflicts at hcf
            rw [hg, hin] at hcf
            simp only [Bool.true_and, bne_eq_false_iff_eq] at hcf
            exact hne hcf.symm
        · obtain ⟨g', hg', hopts⟩ := consumeOpt_group hc g hg
          exact Or.inl ⟨g', hg', tok, isO_mem_rest hr hb.isO hm, b, hb, by rw [hopts]; exact hne⟩
      · simp only [List.mem_cons] at m1 m2
        rcases m1 with m1 | m1
        · -- the head is t1
          obtain ⟨s1, os1, hh, hin, hn⟩ := g1
          subst m1
          injection hh with _ ha _ he
          subst ha; subst he
          rcases m2 with m2 | m2
          · exfalso
            obtain ⟨_, _, hh2, _, _⟩ := g2
            rw [m2] at hh2
            injection hh2 with _ ha2 _ _
            exact hne (by rw [ha2])
          · rcases consumeOpt_gopt (t := t) (st := st) (os := os) (rest := rest) hin hn with ⟨o, ho⟩ | ⟨s2, hs2, hgr, _, _⟩
            · rw [ho] at hc; simp at hc
            · rw [hs2] at hc
              injection hc with hc
              injection hc with hc1 hc2
              subst hc1; subst hc2
              exact Or.inl ⟨_, hgr, t2, m2, b2, g2, fun e => hne e.symm⟩
        · rcases m2 with m2 | m2
          · -- the head is t2
            obtain ⟨s1, os1, hh, hin, hn⟩ := g2
            subst m2
            injection hh with _ ha _ he
            subst ha; subst he
            rcases consumeOpt_gopt (t := t) (st := st) (os := os) (rest := rest) hin hn with ⟨o, ho⟩ | ⟨s2, hs2, hgr, _, _⟩
            · rw [ho] at hc; simp at hc
            · rw [hs2] at hc
              injection hc with hc
              injection hc with hc1 hc2
              subst hc1; subst hc2
              exact Or.inl ⟨_, hgr, t1, m1, b1, g1, hne⟩
          · exact Or.inr ⟨t1, isO_mem_rest hr g1.isO m1, t2, isO_mem_rest hr g2.isO m2, b1, b2, g1, g2, hne⟩
  · simp at h

theorem any_isO_of_mem {toks : List Tok} {x : Tok} (hx : x.isO = true) (h : x ∈ toks) : toks.any Tok.isO = true :=
  List.any_eq_true.mpr ⟨x, h, hx⟩

theorem loop_two (t : Tool) : ∀ fuel, RejectsTwo (loop t fuel)
  | 0 => by intro toks st _ _ ns ex h; simp [loop] at h
  | fuel + 1 => by
    intro toks st hpos hq ns ex h
    have ih := loop_two t fuel
    -- some option string is still to come
    have hany : toks.any Tok.isO = true := by
      rcases hq with ⟨g, hg, tok, hm, b, hb, hne⟩ | ⟨t1, m1, t2, m2, b1, b2, g1, g2, hne⟩
      · exact any_isO_of_mem hb.isO hm
      · exact any_isO_of_mem g1.isO m1
    simp only [loop, hany, Bool.not_true, Bool.false_eq_true, if_false] at h
    split at h
    · cases hc : consumePos st toks with
      | error o => rw [hc] at h; cases o <;> simp [Stop.out] at h
      | ok p =>
        obtain ⟨st', c⟩ := p
        rw [hc] at h
        simp only at h
        obtain ⟨_, hle, hgr, k, hk⟩ := consumePos_ok hc
        have hpos' : ∀ a ∈ st'.pos, a.inGroup = false := by
          intro a ha; rw [hk] at ha; exact hpos a (List.mem_of_mem_drop ha)
        have hg' := hgr hpos
        have carry : ∀ c', c' ≤ nonO toks → (Q st' (toks.drop c') ∨ P2 (toks.drop c')) := by
          intro c' hc'
          rcases hq with ⟨g, hg, tok, hm, b, hb, hne⟩ | ⟨t1, m1, t2, m2, b1, b2, g1, g2, hne⟩
          · exact Or.inl ⟨g, by rw [hg', hg], tok, isO_mem_drop hc' hb.isO hm, b, hb, hne⟩
          · exact Or.inr ⟨t1, isO_mem_drop hc' g1.isO m1, t2, isO_mem_drop hc' g2.isO m2, b1, b2, g1, g2, hne⟩
        split at h
        · exact ih _ _ hpos' (carry c hle) ns ex h
        · refine optStep_two t ih _ { st' with extras := st'.extras ++ (toks.take (nonO toks)).map Tok.str } hpos' ?_ ns ex h
          rcases carry (nonO toks) (Nat.le_refl _) with ⟨g, hg, r⟩ | r
          · exact Or.inl ⟨g, hg, r⟩
          · exact Or.inr r
    · exact optStep_two t ih _ _ hpos hq ns ex h

theorem tokenize_gopt (t : Tool) : ∀ (pre : List Str) (s : Str) (post : List Str) (toks : List Tok) (b : Action),
    tokenize t (pre ++ s :: post) = some toks → dashdash ∉ pre → s ≠ dashdash → findOpt t s = some b → s.head? = some dash →
    Tok.opt s b s none ∈ toks
  | [], s, post, toks, b, h, _, hs, hf, hd => by
    have hc : classify t s = .opt b s none := by
      unfold classify
      have hne : s.isEmpty = false := by cases s with | nil => simp at hd | cons _ _ => rfl
      simp only [hne, Bool.false_eq_true, if_false, hd, bne_self_eq_false, hf]
    simp only [List.nil_append, tokenize] at h
    rw [if_neg (by simpa using hs), hc] at h
    simp only at h
    cases ht : tokenize t post with
    | none => rw [ht] at h; simp at h
    | some r => rw [ht] at h; simp only [Option.map_some] at h; injection h with h; subst h; simp
  | p :: pre, s, post, toks, b, h, hp, hs, hf, hd => by
    simp only [List.cons_append, tokenize] at h
    have hp1 : p ≠ dashdash := fun e => hp (by simp [e])
    have hp2 : dashdash ∉ pre := fun e => hp (by simp [e])
    rw [if_neg (by simpa using hp1)] at h
    cases ht : tokenize t (pre ++ s :: post) with
    | none => rw [ht] at h; cases hcl : classify t p <;> rw [hcl] at h <;> simp at h
    | some r =>
      have := tokenize_gopt t pre s post r b ht hp2 hs hf hd
      rw [ht] at h
      cases hcl : classify t p <;> rw [hcl] at h <;> simp only [Option.map_some] at h
      · injection h with h; subst h; simp [this]
      · injection h with h; subst h; simp [this]
      · injection h with h; subst h; simp [this]
      · simp at h

theorem initSt_pos (t : Tool) (h : ∀ a ∈ t.actions, a.opts.isEmpty = true → a.inGroup = false) : ∀ a ∈ (initSt t).pos, a.inGroup = false := by
  intro a ha
  simp only [initSt, List.mem_filter] at ha
  exact h a ha.1 ha.2

theorem cliParse_ok_known {t : Tool} {argv : List Str} {ns ex} (h : cliParse t argv = .ok ns ex) : ∃ ns' ex', parseKnown t argv = .ok ns' ex' := by
  unfold cliParse at h
  cases hk : parseKnown t argv with
  | help => rw [hk] at h; simp at h
  | error => rw [hk] at h; simp at h
  | ok ns' ex' => exact ⟨ns', ex', rfl⟩

/-- **two different options of the exclusive group on one command line are never accepted** -/
theorem cliParse_two_actions (t : Tool) (hpos : ∀ a ∈ t.actions, a.opts.isEmpty = true → a.inGroup = false)
    (argv : List Str) (pre1 post1 pre2 post2 : List Str) (s1 s2 : Str) (b1 b2 : Action)
    (h1 : argv = pre1 ++ s1 :: post1) (h2 : argv = pre2 ++ s2 :: post2) (hp1 : dashdash ∉ pre1) (hp2 : dashdash ∉ pre2)
    (hs1 : s1 ≠ dashdash) (hs2 : s2 ≠ dashdash) (hd1 : s1.head? = some dash) (hd2 : s2.head? = some dash)
    (f1 : findOpt t s1 = some b1) (f2 : findOpt t s2 = some b2)
    (g1 : b1.inGroup = true ∧ b1.nargs = 0) (g2 : b2.inGroup = true ∧ b2.nargs = 0) (hne : b1.opts ≠ b2.opts)
    (ns : List (Str × Val)) (ex : List Str) : cliParse t argv ≠ .ok ns ex := by
  intro h
  obtain ⟨ns', ex', hk⟩ := cliParse_ok_known h
  unfold parseKnown at hk
  cases ht : tokenize t argv with
  | none => rw [ht] at hk; simp at hk
  | some toks =>
    rw [ht] at hk
    simp only at hk
    have m1 := tokenize_gopt t pre1 s1 post1 toks b1 (by rw [← h1]; exact ht) hp1 hs1 f1 hd1
    have m2 := tokenize_gopt t pre2 s2 post2 toks b2 (by rw [← h2]; exact ht) hp2 hs2 f2 hd2
    exact loop_two t _ toks (initSt t) (initSt_pos t hpos)
      (Or.inr ⟨_, m1, _, m2, b1, b2, ⟨s1, s1, rfl, g1.1, g1.2⟩, ⟨s2, s2, rfl, g2.1, g2.2⟩, hne⟩) ns' ex' hk

/-! ### no option of the required group on the command line -/

/-- an argument string that cannot reach an option of the group: not an option string of the group, and not a cluster of
    single-dash flags (an explicit argument only on an option that takes a value) -/
def NoGroupTok : Tok → Prop
  | .opt _ a _ ex => a.inGroup = false ∧ (ex.isSome = true → a.nargs ≠ 0)
  | _ => True

theorem clusterGo_value (t : Tool) (a : Action) (os : Str) (e : Str) (acc : List (Action × List Str)) (rest : List Tok) (hn : a.nargs ≠ 0) :
    clusterGo t a os e acc rest = .ok (acc ++ [(a, [e])], rest) := by
  have hb : (a.nargs == 0) = false := by simpa using hn
  cases e with
  | nil => simp only [clusterGo, hb, Bool.false_eq_true, if_false]
  | cons c e => simp only [clusterGo, hb, Bool.false_eq_true, if_false]

theorem consumeOpt_nogroup {t : Tool} {st st' : St} {a : Action} {os : Str} {ex : Option Str} {rest rest' : List Tok}
    (hin : a.inGroup = false) (hex : ex.isSome = true → a.nargs ≠ 0)
    (h : consumeOpt t st a os ex rest = .ok (st', rest')) : st'.group = st.group := by
  unfold consumeOpt at h
  split at h
  · simp at h
  · rename_i acts r1 hm
    cases ht : takeAll st acts with
    | error o => rw [ht] at h; simp at h
    | ok s1 =>
      rw [ht] at h
      simp only at h
      injection h with h
      injection h with h1 h2
      subst h1
      refine (takeAll_ok acts ht).2.2 ?_
      cases ex with
      | none =>
        obtain ⟨_, args, ha⟩ := noExplicit_ok hm
        rw [ha]
        intro p hp
        simp only [List.nil_append, List.mem_cons, List.mem_nil_iff, or_false] at hp
        subst hp
        exact hin
      | some e0 =>
        simp only at hm
        rw [clusterGo_value t a os e0 [] rest (hex rfl)] at hm
        injection hm with hm
        injection hm with hm1 _
        rw [← hm1]
        intro p hp
        simp only [List.nil_append, List.mem_cons, List.mem_nil_iff, or_false] at hp
        subst hp
        exact hin

def RejectsNone (t : Tool) (k : List Tok → St → Out) : Prop :=
  ∀ toks st, st.group = none → (∀ a ∈ st.pos, a.inGroup = false) → (∀ tok ∈ toks, NoGroupTok tok) → ∀ ns ex, k toks st ≠ .ok ns ex

theorem finalPhase_none (t : Tool) (hreq : t.groupRequired = true) : RejectsNone t (finalPhase t) := by
  intro toks st hg hpos _ ns ex h
  unfold finalPhase at h
  cases hc : consumePos st toks with
  | error o => rw [hc] at h; cases o <;> simp [Stop.out] at h
  | ok p =>
    obtain ⟨st', c⟩ := p
    rw [hc] at h
    simp only at h
    obtain ⟨_, _, hgr, _⟩ := consumePos_ok hc
    have : st'.group = none := by rw [hgr hpos, hg]
    unfold finish at h
    split at h
    · simp at h
    · simp only [hreq, this, Option.isNone_none, Bool.and_self, if_true] at h
      simp at h

theorem optStep_none (t : Tool) {k : List Tok → St → Out} (hk : RejectsNone t k) : RejectsNone t (optStep t k) := by
  intro toks st hg hpos htok ns ex h
  unfold optStep at h
  split at h
  · rename_i s rest
    exact hk rest { st with extras := st.extras ++ [s] } hg hpos (fun x hx => htok x (by simp [hx])) ns ex h
  · rename_i s0 a os e0 rest
    cases hc : consumeOpt t st a os e0 rest with
    | error o => rw [hc] at h; cases o <;> simp [Stop.out] at h
    | ok p =>
      obtain ⟨st', rest'⟩ := p
      rw [hc] at h
      simp only at h
      obtain ⟨_, hp', hr⟩ := consumeOpt_ok hc
      have hh : NoGroupTok (.opt s0 a os e0) := htok _ (by simp)
      have hg' : st'.group = none := by rw [consumeOpt_nogroup hh.1 hh.2 hc, hg]
      refine hk rest' st' hg' (by rw [hp']; exact hpos) ?_ ns ex h
      intro x hx
      rcases hr with hr | ⟨s1, hr⟩
      · subst hr; exact htok x (by simp [hx])
      · exact htok x (by rw [hr]; simp [hx])
  · simp at h

theorem loop_none (t : Tool) (hreq : t.groupRequired = true) : ∀ fuel, RejectsNone t (loop t fuel)
  | 0 => by intro toks st _ _ _ ns ex h; simp [loop] at h
  | fuel + 1 => by
    intro toks st hg hpos htok ns ex h
    have ih := loop_none t hreq fuel
    simp only [loop] at h
    split at h
    · exact finalPhase_none t hreq _ _ hg hpos htok ns ex h
    · split at h
      · cases hc : consumePos st toks with
        | error o => rw [hc] at h; cases o <;> simp [Stop.out] at h
        | ok p =>
          obtain ⟨st', c⟩ := p
          rw [hc] at h
          simp only at h
          obtain ⟨_, _, hgr, k, hk⟩ := consumePos_ok hc
          have hpos' : ∀ a ∈ st'.pos, a.inGroup = false := by
            intro a ha; rw [hk] at ha; exact hpos a (List.mem_of_mem_drop ha)
          have hg' : st'.group = none := by rw [hgr hpos, hg]
          split at h
          · exact ih _ _ hg' hpos' (fun x hx => htok x (List.mem_of_mem_drop hx)) ns ex h
          · exact optStep_none t ih _ { st' with extras := st'.extras ++ (toks.take (nonO toks)).map Tok.str } hg' hpos'
              (fun x hx => htok x (List.mem_of_mem_drop hx)) ns ex h
      · exact optStep_none t ih _ _ hg hpos htok ns ex h

/-- the same condition on the argument strings -/
def NoGroupStr (t : Tool) (s : Str) : Prop :=
  match classify t s with
  | .opt a _ ex => a.inGroup = false ∧ (ex.isSome = true → a.nargs ≠ 0)
  | _ => True

theorem tokenize_nogroup (t : Tool) : ∀ (argv : List Str) (toks : List Tok), tokenize t argv = some toks →
    (∀ s ∈ argv, NoGroupStr t s) → ∀ tok ∈ toks, NoGroupTok tok
  | [], toks, h, _ => by
    simp only [tokenize] at h
    injection h with h
    subst h
    simp
  | s :: rest, toks, h, hall => by
    simp only [tokenize] at h
    split at h
    · injection h with h
      subst h
      intro tok hm
      simp only [List.mem_cons, List.mem_map] at hm
      rcases hm with rfl | ⟨x, _, rfl⟩ <;> trivial
    · cases ht : tokenize t rest with
      | none => rw [ht] at h; cases hcl : classify t s <;> rw [hcl] at h <;> simp at h
      | some r =>
        have ih := tokenize_nogroup t rest r ht (fun x hx => hall x (by simp [hx]))
        have hs := hall s (by simp)
        unfold NoGroupStr at hs
        rw [ht] at h
        cases hcl : classify t s <;> rw [hcl] at h <;> simp only [Option.map_some] at h
        · injection h with h; subst h
          intro tok hm
          simp only [List.mem_cons] at hm
          rcases hm with rfl | hm
          · trivial
          · exact ih tok hm
        · rename_i a o e
          injection h with h; subst h
          rw [hcl] at hs
          intro tok hm
          simp only [List.mem_cons] at hm
          rcases hm with rfl | hm
          · exact hs
          · exact ih tok hm
        · injection h with h; subst h
          intro tok hm
          simp only [List.mem_cons] at hm
          rcases hm with rfl | hm
          · trivial
          · exact ih tok hm
        · simp at h

/-- **a command line on which no string reaches an option of the required group is never accepted** -/
theorem cliParse_no_action (t : Tool) (hreq : t.groupRequired = true) (hpos : ∀ a ∈ t.actions, a.opts.isEmpty = true → a.inGroup = false)
    (argv : List Str) (hall : ∀ s ∈ argv, NoGroupStr t s) (ns : List (Str × Val)) (ex : List Str) : cliParse t argv ≠ .ok ns ex := by
  intro h
  obtain ⟨ns', ex', hk⟩ := cliParse_ok_known h
  unfold parseKnown at hk
  cases ht : tokenize t argv with
  | none => rw [ht] at hk; simp at hk
  | some toks =>
    rw [ht] at hk
    simp only at hk
    exact loop_none t hreq _ toks (initSt t) rfl (initSt_pos t hpos) (tokenize_nogroup t argv toks ht hall) ns' ex' hk

end Moto.Argparse
