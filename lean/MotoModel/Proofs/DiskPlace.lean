/-
  The placement rule: a file goes to the first side, from the current one on, that has enough
  free blocks and a free catalog entry.
-/
import MotoModel.Proofs.DiskRuns
namespace Moto.Disk
open Moto

/-- number of free blocks of a table -/
def freeBlocks (bat : List Nat) : Nat := ((List.range bat.length).filter fun i => isFree (bat.getD i 0)).length

theorem chosen_length (bat : List Nat) (k : Nat) : (chosen bat k).length = min k (freeBlocks bat) := by
  unfold chosen freeBlocks
  rw [List.length_take]

/-- the catalog has no entry left -/
def CatalogFull (sd : Side) : Prop := ∀ i, i < 112 → liveData (slotData sd i)

theorem findSlot_none (bat : List Nat) (l : List (Nat × Nat × Bytes)) (h : findSlot bat l = .ok none) :
    ∀ s st data, (s, st, data) ∈ l → liveData data := by
  induction l with
  | nil => intro s st data hm; simp at hm
  | cons x rest ih =>
    obtain ⟨s', st', d'⟩ := x
    simp only [findSlot] at h
    cases he : entryOfBytes d' bat with
    | error e => rw [he] at h; cases h
    | ok en =>
      rw [he] at h
      dsimp only at h
      obtain ⟨e0, e2, _⟩ := entryOfBytes_status d' bat en he
      split at h
      · cases h
      · rename_i hst
        intro s st data hm
        rcases List.mem_cons.mp hm with hx | hx
        · simp only [Prod.mk.injEq] at hx
          obtain ⟨_, _, rfl⟩ := hx
          constructor
          · intro hff; exact hst (Or.inl (e0.mpr hff))
          · intro h0
            by_cases hff : data.getD 0 0 = 0xFF
            · exact hst (Or.inl (e0.mpr hff))
            · exact hst (Or.inr (e2.mpr ⟨h0, hff⟩))
        · exact ih h s st data hx

/-- the side can take a file of `n` bytes -/
def Fits (sd : Side) (bat : List Nat) (n : Nat) : Prop := reqBlocks n ≤ freeBlocks bat ∧ ¬ CatalogFull sd

/-- **when `writeFile` stores**: exactly when the side has the blocks and a free entry -/
theorem writeFile_ok_iff {sd : Side} {bat : List Nat} {own : Nat → List Nat} (inv : SideInv sd bat own)
    (content : Bytes) (name ext : Str) (kind flag : Nat) :
    (∃ sd', writeFile sd content name ext kind flag = .ok sd') ↔ Fits sd bat content.length := by
  rw [writeFile_unfold sd bat content name ext kind flag inv.hbat inv.not_free40.1 inv.not_free40.2]
  unfold Fits
  by_cases hfit : (chosen bat (reqBlocks content.length)).length < reqBlocks content.length
  · rw [if_pos hfit]
    rw [chosen_length] at hfit
    constructor
    · rintro ⟨_, h⟩; cases h
    · rintro ⟨h, _⟩; omega
  · rw [if_neg hfit]
    have hblocks : reqBlocks content.length ≤ freeBlocks bat := by rw [chosen_length] at hfit; omega
    obtain ⟨h40, h41⟩ := inv.not_free40
    obtain ⟨_, _, hnblen, _⟩ := mid_facts sd bat content inv.wf inv.hbat h40 h41 hfit
    have hsmid := mid_slotData sd bat content inv.wf inv.hbat h40 h41 hfit
    have hwalk := slots_walk_ok (sd2 := midSide sd bat content) (bat2 := newBat bat content) inv hsmid hnblen
      (fun i hi hl u hlk => inv.linked_newBat content i hi hl u hlk)
    obtain ⟨o, ho⟩ := findSlot_no_error _ _ hwalk
    rw [ho]
    cases o with
    | none =>
      constructor
      · rintro ⟨_, h⟩; cases h
      · rintro ⟨_, hnf⟩
        exfalso
        apply hnf
        intro i hi
        have hm : (2 + i / 8, 32 * (i % 8), slotData (midSide sd bat content) i) ∈ slots (midSide sd bat content) := by
          rw [slots_eq_map]
          exact List.mem_map.mpr ⟨i, List.mem_range.mpr hi, rfl⟩
        have := findSlot_none _ _ ho _ _ _ hm
        rw [hsmid i hi] at this
        exact this
    | some p =>
      obtain ⟨s, st⟩ := p
      constructor
      · intro _
        refine ⟨hblocks, ?_⟩
        intro hfull
        obtain ⟨data, hmem, hnl⟩ := findSlot_found _ _ _ _ ho
        obtain ⟨i, hi, _, _, hd⟩ := mem_slots _ _ _ _ hmem
        have hl := hfull i hi
        rw [← hsmid i hi, ← hd] at hl
        rcases hnl with h | h
        · exact hl.1 h
        · exact hl.2 h
      · intro _; exact ⟨_, rfl⟩

/-- side `k` of the image can take a file of `n` bytes -/
def ImgFits (img : Image) (k n : Nat) : Prop := ∃ bat, getBat (img.getD k []) = .ok bat ∧ Fits (img.getD k []) bat n

theorem ImgFits_set_other (img : Image) (i k n : Nat) (sd : Side) (h : i ≠ k) : ImgFits (img.set i sd) k n ↔ ImgFits img k n := by
  unfold ImgFits
  rw [getD_set_ne _ _ _ _ _ h]

/-- **the placement rule** for one file: it is stored on the first side, from the current one on,
    that has enough free blocks and a free catalog entry — the cursor stops there; if no side from
    the current one on can take it, nothing is stored anywhere and the cursor ends past the last
    side. -/
theorem injWriteFile_place (name ext : Str) (kind flag : Nat) (data : Bytes) (hname : ∀ c ∈ name, c ≠ 0xFF) :
    ∀ (fuel : Nat) (st : Inj), ImgOk st.img → 4 ≤ st.cur + fuel →
      ∃ st', injWriteFile name ext kind flag data fuel st = .ok st' ∧
        ((∃ k, st.cur ≤ k ∧ k < 4 ∧ ImgFits st.img k data.length
            ∧ (∀ k', st.cur ≤ k' → k' < k → ¬ ImgFits st.img k' data.length) ∧ st'.cur = k
            ∧ ∃ i0 r, i0 < 112 ∧ imgFileAt st.img k i0 = none ∧ imgFileAt st'.img k i0 = some (r, data))
         ∨ ((∀ k', st.cur ≤ k' → k' < 4 → ¬ ImgFits st.img k' data.length) ∧ 4 ≤ st'.cur
            ∧ ∀ k j, k < 4 → j < 112 → imgFileAt st'.img k j = imgFileAt st.img k j)) := by
  intro fuel
  induction fuel with
  | zero =>
    intro st _ hf
    exact ⟨st, rfl, Or.inr ⟨fun k' h1 h2 => by omega, by omega, fun _ _ _ _ => rfl⟩⟩
  | succ fuel ih =>
    intro st h hf
    simp only [injWriteFile]
    by_cases hc : st.cur ≥ 4
    · rw [if_pos hc]
      exact ⟨st, rfl, Or.inr ⟨fun k' h1 h2 => by omega, hc, fun _ _ _ _ => rfl⟩⟩
    · rw [if_neg hc]
      have hcur : st.cur < 4 := by omega
      obtain ⟨bat, own, inv⟩ := h.2 st.cur hcur
      have hiff := writeFile_ok_iff inv data name ext kind flag
      have hfiles := writeFile_files inv data name ext kind flag hname
      rcases writeFile_inv inv data name ext kind flag hname with ⟨sd', i0, hw, _, _, inv', _⟩ | ⟨sd', msg, hw, inv', _⟩
      · rw [hw]
        refine ⟨_, rfl, Or.inl ⟨st.cur, Nat.le_refl _, hcur, ⟨bat, inv.hbat, hiff.mp ⟨sd', hw⟩⟩, fun k' h1 h2 => by omega, rfl, ?_⟩⟩
        rcases hfiles with ⟨sd2, i1, hw2, hi1, hnone, hnew, _⟩ | ⟨sd2, msg2, hw2, _⟩
        · rw [hw] at hw2
          cases hw2
          refine ⟨i1, recordOfBytes (newRecord name ext kind flag ((chosen bat (reqBlocks data.length)).getD 0 0) (lastBytesOf data.length)), hi1, hnone, ?_⟩
          dsimp only
          rw [imgFileAt_set_same _ h.1 _ hcur]
          exact hnew
        · rw [hw] at hw2; cases hw2
      · rw [hw]
        dsimp only
        have hnofit : ¬ ImgFits st.img st.cur data.length := by
          rintro ⟨bat2, hb2, hfit⟩
          rw [inv.hbat] at hb2
          cases hb2
          obtain ⟨sd3, h3⟩ := hiff.mpr hfit
          rw [hw] at h3; cases h3
        have himg : ImgOk (st.img.set st.cur sd') := h.set _ _ ⟨_, _, inv'⟩
        obtain ⟨u, hu⟩ := usageOfSide_ok himg st.cur hcur
        rw [hu]
        dsimp only
        have hsame : ∀ k j, k < 4 → j < 112 → imgFileAt (st.img.set st.cur sd') k j = imgFileAt st.img k j := by
          intro k j hk hj
          rcases hfiles with ⟨sd2, _, hw2, _⟩ | ⟨sd2, msg2, hw2, hall⟩
          · rw [hw] at hw2; cases hw2
          · rw [hw] at hw2
            cases hw2
            by_cases hkk : st.cur = k
            · subst hkk
              rw [imgFileAt_set_same _ h.1 _ hcur]
              exact hall j hj
            · exact imgFileAt_set_other _ _ _ hkk _ _
        by_cases hn : st.cur + 1 ≥ 4
        · rw [if_pos hn]
          refine ⟨_, rfl, Or.inr ⟨?_, hn, hsame⟩⟩
          intro k' h1 h2
          have : k' = st.cur := by omega
          rw [this]; exact hnofit
        · rw [if_neg hn]
          have hmono : ∀ s : Inj, s.img = st.img.set st.cur sd' → s.cur = st.cur + 1 →
              (∃ st', injWriteFile name ext kind flag data fuel s = .ok st' ∧
                ((∃ k, s.cur ≤ k ∧ k < 4 ∧ ImgFits s.img k data.length
                    ∧ (∀ k', s.cur ≤ k' → k' < k → ¬ ImgFits s.img k' data.length) ∧ st'.cur = k
                    ∧ ∃ i0 r, i0 < 112 ∧ imgFileAt s.img k i0 = none ∧ imgFileAt st'.img k i0 = some (r, data))
                 ∨ ((∀ k', s.cur ≤ k' → k' < 4 → ¬ ImgFits s.img k' data.length) ∧ 4 ≤ st'.cur
                    ∧ ∀ k j, k < 4 → j < 112 → imgFileAt st'.img k j = imgFileAt s.img k j))) →
              ∃ st', injWriteFile name ext kind flag data fuel s = .ok st' ∧
                ((∃ k, st.cur ≤ k ∧ k < 4 ∧ ImgFits st.img k data.length
                    ∧ (∀ k', st.cur ≤ k' → k' < k → ¬ ImgFits st.img k' data.length) ∧ st'.cur = k
                    ∧ ∃ i0 r, i0 < 112 ∧ imgFileAt st.img k i0 = none ∧ imgFileAt st'.img k i0 = some (r, data))
                 ∨ ((∀ k', st.cur ≤ k' → k' < 4 → ¬ ImgFits st.img k' data.length) ∧ 4 ≤ st'.cur
                    ∧ ∀ k j, k < 4 → j < 112 → imgFileAt st'.img k j = imgFileAt st.img k j)) := by
            intro s hs hsc ⟨st', hst', hcase⟩
            refine ⟨st', hst', ?_⟩
            rw [hs, hsc] at hcase
            rcases hcase with ⟨k, hk1, hk4, hfit, hfirst, hcurk, i0, r, hi0, hnone, hnew⟩ | ⟨hno, h4, hall⟩
            · left
              have hne : st.cur ≠ k := by omega
              refine ⟨k, by omega, hk4, (ImgFits_set_other _ _ _ _ _ hne).mp hfit, ?_, hcurk, i0, r, hi0, ?_, hnew⟩
              · intro k' h1 h2
                by_cases hk' : k' = st.cur
                · rw [hk']; exact hnofit
                · intro hf'
                  exact hfirst k' (by omega) h2 ((ImgFits_set_other _ _ _ _ _ (fun h => hk' h.symm)).mpr hf')
              · rw [← hsame k i0 hk4 hi0]; exact hnone
            · right
              refine ⟨?_, h4, fun k j hk hj => by rw [hall k j hk hj]; exact hsame k j hk hj⟩
              intro k' h1 h2
              by_cases hk' : k' = st.cur
              · rw [hk']; exact hnofit
              · intro hf'
                exact hno k' (by omega) h2 ((ImgFits_set_other _ _ _ _ _ (fun h => hk' h.symm)).mpr hf')
          exact hmono _ rfl rfl (ih _ himg (by dsimp only; omega))

end Moto.Disk

namespace Moto.Disk
open Moto

/-! ### counting free blocks -/

theorem filter_not_mem_take {α} [DecidableEq α] : ∀ (l : List α) (k : Nat), l.Nodup →
    l.filter (fun x => decide (x ∉ l.take k)) = l.drop k := by
  intro l
  induction l with
  | nil => intro k _; simp
  | cons x xs ih =>
    intro k hnd
    have hx := (List.nodup_cons.mp hnd).1
    have hxs := (List.nodup_cons.mp hnd).2
    cases k with
    | zero => simp
    | succ k =>
      simp only [List.take_succ_cons, List.drop_succ_cons, List.filter_cons, List.mem_cons, true_or, not_true_eq_false,
        decide_false, Bool.false_eq_true, if_false]
      rw [← ih k hxs]
      apply List.filter_congr
      intro y hy
      have : y ≠ x := fun e => hx (e ▸ hy)
      simp [this]

/-- **storing a file takes exactly the blocks it needs from the free ones** -/
theorem freeBlocks_newBat (bat : List Nat) (content : Bytes) (hlen : bat.length = 160) :
    freeBlocks (newBat bat content) = freeBlocks bat - reqBlocks content.length := by
  obtain ⟨_, hu1, hu8, _, _, _, _⟩ := size_law content.length
  unfold freeBlocks
  have hnl : (newBat bat content).length = bat.length := by unfold newBat; exact linkChain_length _ _ _
  rw [hnl]
  generalize hF : (List.range bat.length).filter (fun i => isFree (bat.getD i 0)) = F
  have hch : chosen bat (reqBlocks content.length) = F.take (reqBlocks content.length) := by unfold chosen; rw [hF]
  have hFnd : F.Nodup := by rw [← hF]; exact List.Pairwise.filter _ List.nodup_range
  -- the free indices of the new table are the old ones minus the chosen ones
  have hfilt : (List.range bat.length).filter (fun i => isFree ((newBat bat content).getD i 0))
      = ((List.range bat.length).filter (fun i => isFree (bat.getD i 0))).filter (fun i => decide (i ∉ F.take (reqBlocks content.length))) := by
    rw [List.filter_filter]
    apply List.filter_congr
    intro i hi
    have hi' : i < bat.length := List.mem_range.mp hi
    by_cases hc : i ∈ chosen bat (reqBlocks content.length)
    · -- a chosen block is in use afterwards
      have hlk : Linked (newBat bat content) (chosen bat (reqBlocks content.length)) (lastSectorsOf content.length) := by
        unfold newBat
        exact linkChain_linked _ bat _ (chosen_nodup bat _) (fun b hb => (chosen_free bat _ b hb).1)
      have hused := linked_all_used _ _ hu8 _ hlk (fun x hx => by rw [← hlen]; exact (chosen_free bat _ x hx).1) i hc
      rw [hused.1]
      have hin : i ∈ F.take (reqBlocks content.length) := hch ▸ hc
      have : decide (i ∉ F.take (reqBlocks content.length)) = false := by simp [hin]
      rw [this, Bool.false_and]
    · have hsame : (newBat bat content).getD i 0 = bat.getD i 0 := by unfold newBat; exact linkChain_other _ bat _ i 0 hc
      rw [hsame]
      have hnin : i ∉ F.take (reqBlocks content.length) := fun h => hc (hch ▸ h)
      have : decide (i ∉ F.take (reqBlocks content.length)) = true := by simp [hnin]
      rw [this, Bool.true_and]
  rw [hfilt, hF]
  rw [filter_not_mem_take F _ hFnd, List.length_drop]

end Moto.Disk
