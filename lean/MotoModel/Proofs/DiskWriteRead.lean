/-
  `writeFile` then `readFile`: the content comes back byte for byte.
-/
import MotoModel.Proofs.DiskWrite
import MotoModel.Props.C02
namespace Moto.Disk
open Moto

theorem all_set {α} (l : List α) (p : α → Bool) (i : Nat) (x : α) (h : l.all p = true) (hx : p x = true) : (l.set i x).all p = true := by
  rw [List.all_eq_true] at h ⊢
  intro y hy
  rcases List.mem_or_eq_of_mem_set hy with h1 | h1
  · exact h y h1
  · rw [h1]; exact hx

theorem valid_small (c : Nat) (h : c < 160) : validStatus c = true := by
  unfold validStatus
  have a : Gen.Disk.bsMaxNext = 160 := rfl
  have b : Gen.Disk.bsMaxLast = 201 := rfl
  rw [a, b]; simp; omega

theorem valid_marker (u : Nat) (h1 : 1 ≤ u) (h8 : u ≤ 8) : validStatus (0xC0 + u) = true := by
  unfold validStatus
  have a : Gen.Disk.bsMaxNext = 160 := rfl
  have b : Gen.Disk.bsMaxLast = 201 := rfl
  have c : Gen.Disk.bsMinLast = 193 := rfl
  rw [a, b, c]; simp; omega

theorem linkChain_valid (chain : List Nat) : ∀ (bat : List Nat) (u : Nat), bat.all validStatus = true → (∀ b ∈ chain, b < 160) →
    1 ≤ u → u ≤ 8 → (linkChain bat chain u).all validStatus = true := by
  induction chain with
  | nil => intro bat u h _ _ _; exact h
  | cons b rest ih =>
    intro bat u h hlt h1 h8
    cases rest with
    | nil => simp only [linkChain]; exact all_set _ _ _ _ h (valid_marker u h1 h8)
    | cons c rest' =>
      simp only [linkChain]
      exact ih _ u (all_set _ _ _ _ h (valid_small c (hlt c (by simp)))) (fun x hx => hlt x (by simp [hx])) h1 h8

theorem getBat_valid (sd : Side) (bat : List Nat) (h : getBat sd = .ok bat) : bat.all validStatus = true := by
  unfold getBat at h
  dsimp only at h
  split at h
  · rename_i hv; cases h; exact hv
  · cases h

/-! ### slices of the content -/

def sliceJ (content : Bytes) (j : Nat) : Bytes := slice content (j * 255) (j * 255 + 255)

theorem slice_append {α} (l : List α) (a b c : Nat) (hab : a ≤ b) (hbc : b ≤ c) : slice l a b ++ slice l b c = slice l a c := by
  unfold slice
  have e1 : List.drop b l = List.drop (b - a) (List.drop a l) := by rw [List.drop_drop]; congr 1; omega
  rw [e1]
  have e2 : c - a = (b - a) + (c - b) := by omega
  rw [e2, List.take_add]

theorem slices_concat (content : Bytes) (j0 : Nat) (c : Nat) :
    (List.range c).flatMap (fun s => sliceJ content (j0 + s)) = slice content (j0 * 255) ((j0 + c) * 255) := by
  induction c with
  | zero => simp [slice]
  | succ c ih =>
    rw [List.range_succ, List.flatMap_append, ih]
    simp only [List.flatMap_cons, List.flatMap_nil, List.append_nil, sliceJ]
    have e : (j0 + c) * 255 + 255 = (j0 + (c + 1)) * 255 := by rw [Nat.add_mul, Nat.add_mul, Nat.add_mul]; omega
    rw [e]
    apply slice_append
    · rw [Nat.add_mul]; omega
    · rw [Nat.add_mul, Nat.add_mul, Nat.add_mul]; omega

theorem sliceJ_length_full (content : Bytes) (j : Nat) (h : (j + 1) * 255 ≤ content.length) : (sliceJ content j).length = 255 := by
  unfold sliceJ slice
  rw [Nat.add_mul] at h
  simp; omega

end Moto.Disk

namespace Moto.Disk
open Moto

theorem sliceJ_length (content : Bytes) (j : Nat) : (sliceJ content j).length = min 255 (content.length - j * 255) := by
  unfold sliceJ slice; simp

/-- a data sector written by `writeFile`, cut to the length the reader takes from it, is the slice -/
theorem sector_piece (sd sd3 : Side) (free : List Nat) (content : Bytes) (S lb : Nat) (hw : C11.WFSide sd)
    (hdata : ∀ j < S, sd3.getD (flatOf free j) [] = setPayload (sd.getD (flatOf free j) []) (sliceJ content j))
    (hsize : 255 * (S - 1) + lb = content.length) (hS : 1 ≤ S) (hlb : lb ≤ 255) (j : Nat) (hj : j < S) :
    (sd3.getD (flatOf free j) []).take (if j + 1 = S then lb else 255) = sliceJ content j := by
  have hlen := sliceJ_length content j
  have h255 : (sliceJ content j).length ≤ 255 := by rw [hlen]; omega
  have e1 : (sliceJ content j).take 256 = sliceJ content j := List.take_of_length_le (by omega)
  have hm : (if j + 1 = S then lb else 255) = (sliceJ content j).length := by
    rw [hlen]
    by_cases h : j + 1 = S
    · simp only [h, if_true]
      have : j = S - 1 := by omega
      rw [this, Nat.mul_comm]; omega
    · simp only [h, if_false]
      have : (j + 1) * 255 ≤ 255 * (S - 1) := by
        rw [Nat.mul_comm]; exact Nat.mul_le_mul_left 255 (by omega)
      rw [Nat.add_mul] at this
      omega
  rw [hm, hdata j hj, C11.setPayload_eq, e1]
  exact List.take_left' rfl

theorem getSector_flat (sd : Side) (free : List Nat) (i s : Nat) (hs : s < 8) :
    getSector sd (blockTrack (free.getD i 0)) (blockFirstSector (free.getD i 0) + s) = sd.getD (flatOf free (8 * i + s)) [] := by
  unfold getSector
  have h1 : (8 * i + s) / 8 = i := by omega
  have h2 : (8 * i + s) % 8 = s := by omega
  have := flatOf_idx free (8 * i + s)
  rw [h1, h2] at this
  rw [this]

/-- the pieces read from block `i` of the file: the content between sector `8i` and sector `8i + c` -/
theorem blockPieces_written (sd sd3 : Side) (free : List Nat) (content : Bytes) (S lb : Nat) (hw : C11.WFSide sd)
    (hdata : ∀ j < S, sd3.getD (flatOf free j) [] = setPayload (sd.getD (flatOf free j) []) (sliceJ content j))
    (hsize : 255 * (S - 1) + lb = content.length) (hS : 1 ≤ S) (hlb : lb ≤ 255)
    (i sMax lastSize c : Nat) (hc : c ≤ 8) (hcS : 8 * i + c ≤ S)
    (hpl : ∀ s < c, pieceLen sMax lastSize s = if 8 * i + s + 1 = S then lb else 255) :
    blockPieces sd3 (free.getD i 0) sMax lastSize c = slice content (8 * i * 255) ((8 * i + c) * 255) := by
  rw [← slices_concat]
  unfold blockPieces
  simp only [List.flatMap_def]
  congr 1
  apply List.map_congr_left
  intro s hs
  have hs' : s < c := by simpa using hs
  rw [getSector_flat sd3 free i s (by omega), hpl s hs']
  exact sector_piece sd sd3 free content S lb hw hdata hsize hS hlb (8 * i + s) (by omega)

end Moto.Disk
