/-
  `writeFile` then `readFile`: the content comes back byte for byte.
-/
import MotoModel.Proofs.DiskWrite
import MotoModel.Proofs.DiskReadProps
namespace Moto.Disk
open Moto

theorem all_set {α} (l : List α) (p : α → Bool) (i : Nat) (x : α) (h : l.all p = true) (hx : p x = true) : (l.set i x).all p = true := by
  rw [List.all_eq_true] at h ⊢
  intro y hy
  rcases List.mem_or_eq_of_mem_set hy with h1 | h1
  · exact h y h1
  · rw [h1]; exact hx

theorem valid_small (c : Nat) (h : c < 160) : validStatus c = true := by
  unfold validStatus
  have a : Gen.Disk.bsMaxNext = 160 := rfl
  have b : Gen.Disk.bsMaxLast = 201 := rfl
  rw [a, b]; simp; omega

theorem valid_marker (u : Nat) (h1 : 1 ≤ u) (h8 : u ≤ 8) : validStatus (0xC0 + u) = true := by
  unfold validStatus
  have a : Gen.Disk.bsMaxNext = 160 := rfl
  have b : Gen.Disk.bsMaxLast = 201 := rfl
  have c : Gen.Disk.bsMinLast = 193 := rfl
  rw [a, b, c]; simp; omega

theorem linkChain_valid (chain : List Nat) : ∀ (bat : List Nat) (u : Nat), bat.all validStatus = true → (∀ b ∈ chain, b < 160) →
    1 ≤ u → u ≤ 8 → (linkChain bat chain u).all validStatus = true := by
  induction chain with
  | nil => intro bat u h _ _ _; exact h
  | cons b rest ih =>
    intro bat u h hlt h1 h8
    cases rest with
    | nil => simp only [linkChain]; exact all_set _ _ _ _ h (valid_marker u h1 h8)
    | cons c rest' =>
      simp only [linkChain]
      exact ih _ u (all_set _ _ _ _ h (valid_small c (hlt c (by simp)))) (fun x hx => hlt x (by simp [hx])) h1 h8

theorem getBat_valid (sd : Side) (bat : List Nat) (h : getBat sd = .ok bat) : bat.all validStatus = true := by
  unfold getBat at h
  dsimp only at h
  split at h
  · rename_i hv; cases h; exact hv
  · cases h

/-! ### slices of the content -/

def sliceJ (content : Bytes) (j : Nat) : Bytes := slice content (j * 255) (j * 255 + 255)

theorem slice_append {α} (l : List α) (a b c : Nat) (hab : a ≤ b) (hbc : b ≤ c) : slice l a b ++ slice l b c = slice l a c := by
  unfold slice
  have e1 : List.drop b l = List.drop (b - a) (List.drop a l) := by rw [List.drop_drop]; congr 1; omega
  rw [e1]
  have e2 : c - a = (b - a) + (c - b) := by omega
  rw [e2, List.take_add]

theorem slices_concat (content : Bytes) (j0 : Nat) (c : Nat) :
    (List.range c).flatMap (fun s => sliceJ content (j0 + s)) = slice content (j0 * 255) ((j0 + c) * 255) := by
  induction c with
  | zero => simp [slice]
  | succ c ih =>
    rw [List.range_succ, List.flatMap_append, ih]
    simp only [List.flatMap_cons, List.flatMap_nil, List.append_nil, sliceJ]
    have e : (j0 + c) * 255 + 255 = (j0 + (c + 1)) * 255 := by rw [Nat.add_mul, Nat.add_mul, Nat.add_mul]; omega
    rw [e]
    apply slice_append
    · rw [Nat.add_mul]; omega
    · rw [Nat.add_mul, Nat.add_mul, Nat.add_mul]; omega

theorem sliceJ_length_full (content : Bytes) (j : Nat) (h : (j + 1) * 255 ≤ content.length) : (sliceJ content j).length = 255 := by
  unfold sliceJ slice
  rw [Nat.add_mul] at h
  simp; omega

end Moto.Disk

namespace Moto.Disk
open Moto

theorem sliceJ_length (content : Bytes) (j : Nat) : (sliceJ content j).length = min 255 (content.length - j * 255) := by
  unfold sliceJ slice; simp

/-- a data sector written by `writeFile`, cut to the length the reader takes from it, is the slice -/
theorem sector_piece (sd sd3 : Side) (free : List Nat) (content : Bytes) (S lb : Nat) (hw : C11.WFSide sd)
    (hdata : ∀ j < S, sd3.getD (flatOf free j) [] = setPayload (sd.getD (flatOf free j) []) (sliceJ content j))
    (hsize : 255 * (S - 1) + lb = content.length) (hS : 1 ≤ S) (hlb : lb ≤ 255) (j : Nat) (hj : j < S) :
    (sd3.getD (flatOf free j) []).take (if j + 1 = S then lb else 255) = sliceJ content j := by
  have hlen := sliceJ_length content j
  have h255 : (sliceJ content j).length ≤ 255 := by rw [hlen]; omega
  have e1 : (sliceJ content j).take 256 = sliceJ content j := List.take_of_length_le (by omega)
  have hm : (if j + 1 = S then lb else 255) = (sliceJ content j).length := by
    rw [hlen]
    by_cases h : j + 1 = S
    · simp only [h, if_true]
      have : j = S - 1 := by omega
      rw [this, Nat.mul_comm]; omega
    · simp only [h, if_false]
      have : (j + 1) * 255 ≤ 255 * (S - 1) := by
        rw [Nat.mul_comm]; exact Nat.mul_le_mul_left 255 (by omega)
      rw [Nat.add_mul] at this
      omega
  rw [hm, hdata j hj, C11.setPayload_eq, e1]
  exact List.take_left' rfl

theorem getSector_flat (sd : Side) (free : List Nat) (i s : Nat) (hs : s < 8) :
    getSector sd (blockTrack (free.getD i 0)) (blockFirstSector (free.getD i 0) + s) = sd.getD (flatOf free (8 * i + s)) [] := by
  unfold getSector
  have h1 : (8 * i + s) / 8 = i := by omega
  have h2 : (8 * i + s) % 8 = s := by omega
  have := flatOf_idx free (8 * i + s)
  rw [h1, h2] at this
  rw [this]

/-- the pieces read from block `i` of the file: the content between sector `8i` and sector `8i + c` -/
theorem blockPieces_written (sd sd3 : Side) (free : List Nat) (content : Bytes) (S lb : Nat) (hw : C11.WFSide sd)
    (hdata : ∀ j < S, sd3.getD (flatOf free j) [] = setPayload (sd.getD (flatOf free j) []) (sliceJ content j))
    (hsize : 255 * (S - 1) + lb = content.length) (hS : 1 ≤ S) (hlb : lb ≤ 255)
    (i sMax lastSize c : Nat) (hc : c ≤ 8) (hcS : 8 * i + c ≤ S)
    (hpl : ∀ s < c, pieceLen sMax lastSize s = if 8 * i + s + 1 = S then lb else 255) :
    blockPieces sd3 (free.getD i 0) sMax lastSize c = slice content (8 * i * 255) ((8 * i + c) * 255) := by
  rw [← slices_concat]
  unfold blockPieces
  simp only [List.flatMap_def]
  congr 1
  apply List.map_congr_left
  intro s hs
  have hs' : s < c := by simpa using hs
  rw [getSector_flat sd3 free i s (by omega), hpl s hs']
  exact sector_piece sd sd3 free content S lb hw hdata hsize hS hlb (8 * i + s) (by omega)

end Moto.Disk

namespace Moto.Disk
open Moto

/-- the block loop over the blocks `free[i..]` reads the content from sector `8 i` to the end -/
theorem piecesFrom_written (sd sd3 : Side) (free : List Nat) (content : Bytes) (S lb nb u : Nat) (hw : C11.WFSide sd)
    (hdata : ∀ j < S, sd3.getD (flatOf free j) [] = setPayload (sd.getD (flatOf free j) []) (sliceJ content j))
    (hsize : 255 * (S - 1) + lb = content.length) (hlb : lb ≤ 255)
    (hS : 8 * (nb - 1) + u = S) (hnb : 1 ≤ nb) (hu1 : 1 ≤ u) (hu8 : u ≤ 8) (hlen : free.length = nb) :
    ∀ (k : Nat) (i : Nat), i + k = nb →
      piecesFrom sd3 u lb (nb - 1) (free.drop i) i = slice content (8 * i * 255) (S * 255) := by
  intro k
  induction k with
  | zero =>
    intro i hi
    have : free.drop i = [] := List.drop_of_length_le (by omega)
    rw [this]
    simp only [piecesFrom, slice]
    have : S * 255 - 8 * i * 255 = 0 := by
      have : S ≤ 8 * i := by omega
      have := Nat.mul_le_mul_right 255 this
      omega
    rw [this]; simp
  | succ k ih =>
    intro i hi
    have hil : i < free.length := by omega
    have hd : free.drop i = free.getD i 0 :: free.drop (i + 1) := by
      rw [List.getD_eq_getElem?_getD, List.getElem?_eq_getElem hil]
      simp only [Option.getD_some]
      exact List.drop_eq_getElem_cons hil
    rw [hd]
    simp only [piecesFrom]
    rw [ih (i + 1) (by omega)]
    by_cases hlast : i = nb - 1
    · simp only [hlast, if_true]
      have hbp := blockPieces_written sd sd3 free content S lb hw hdata hsize (by omega) hlb (nb - 1) u lb u hu8 (by omega)
        (by intro s hs; unfold pieceLen; congr 1; apply propext; constructor <;> intro h <;> omega)
      rw [hbp]
      have e : 8 * (nb - 1) + u = S := hS
      rw [e]
      have hz : slice content (8 * (nb - 1 + 1) * 255) (S * 255) = [] := by
        unfold slice
        have : S * 255 - 8 * (nb - 1 + 1) * 255 = 0 := by
          have h1 : S ≤ 8 * (nb - 1 + 1) := by omega
          have := Nat.mul_le_mul_right 255 h1
          omega
        rw [this]; simp
      rw [hz, List.append_nil]
    · simp only [hlast, if_false]
      have hbp := blockPieces_written sd sd3 free content S lb hw hdata hsize (by omega) hlb i 8 255 8 (Nat.le_refl _) (by omega)
        (by intro s hs
            unfold pieceLen
            have h1 : ¬ (8 * i + s + 1 = S) := by omega
            simp only [h1, if_false]
            split <;> rfl)
      rw [hbp]
      apply slice_append
      · exact Nat.mul_le_mul_right 255 (by omega)
      · exact Nat.mul_le_mul_right 255 (by omega)

theorem slice_all {α} (l : List α) (b : Nat) (h : l.length ≤ b) : slice l 0 b = l := by
  unfold slice; simp [List.take_of_length_le h]

/-- **read after write, at the sector level**: if a side holds, in the data sectors of `free`, the
    255-byte slices of `content` (prefix-written over whatever was there), then `readFile` of an
    entry whose chain is `free` returns `content`. -/
theorem readFile_written (sd sd3 : Side) (bat' : List Nat) (free : List Nat) (content : Bytes) (e : Entry)
    (hw : C11.WFSide sd) (hw3 : C11.WFSide sd3)
    (hdata : ∀ j < reqSectors content.length, sd3.getD (flatOf free j) [] = setPayload (sd.getD (flatOf free j) []) (sliceJ content j))
    (hblocks : e.blocks = free) (hlastB : e.lastBytes = lastBytesOf content.length)
    (hlen : free.length = reqBlocks content.length) (hlt : ∀ b ∈ free, b < 160)
    (hsz : sizeInBytes bat' e = content.length)
    (last : Nat) (hlast : free.getLast? = some last) (hst : bat'.getD last 0 = 0xC0 + lastSectorsOf content.length) :
    readFile sd3 bat' e = content := by
  obtain ⟨hb1, hu1, hu8, hlb, hS, hsize, _⟩ := size_law content.length
  unfold readFile
  rw [hblocks, hlast]
  dsimp only
  have hlu : bat'.getD last 0 - Gen.Disk.bsLastBlock = lastSectorsOf content.length := by
    rw [hst]; have : Gen.Disk.bsLastBlock = 192 := rfl; rw [this]; omega
  rw [hlu, hlastB, hsz, hlen]
  have hpieces := piecesFrom_written sd sd3 free content (reqSectors content.length) (lastBytesOf content.length)
    (reqBlocks content.length) (lastSectorsOf content.length) hw hdata
    (by rw [← hS]; exact hsize)
    hlb hS hb1 hu1 hu8 hlen (reqBlocks content.length) 0 (by omega)
  simp only [List.drop_zero, Nat.mul_zero, Nat.zero_mul] at hpieces
  have hfull : piecesFrom sd3 (lastSectorsOf content.length) (lastBytesOf content.length) (reqBlocks content.length - 1) free 0 = content := by
    rw [hpieces]
    apply slice_all
    have h' : 255 * (reqSectors content.length - 1) + lastBytesOf content.length = content.length := by rw [← hS]; exact hsize
    have hS1 : 1 ≤ reqSectors content.length := by omega
    generalize reqSectors content.length = S at h' hS1 ⊢
    generalize lastBytesOf content.length = lb at h' hlb ⊢
    generalize content.length = n at h' ⊢
    omega
  have hfill := go_fill sd3 hw3 (lastSectorsOf content.length) (lastBytesOf content.length) (reqBlocks content.length - 1)
    hu8 (by omega) free 0 (List.replicate content.length 0, 0) [] content.length ⟨by simp, rfl⟩ hlt (by rw [hfull]; exact Nat.le_refl _)
  rw [hfull] at hfill
  obtain ⟨h1, _⟩ := hfill
  rw [h1]; simp

end Moto.Disk

namespace Moto.Disk
open Moto

theorem linked_last (u : Nat) (c : List Nat) : ∀ (b : List Nat), Linked b c u → ∀ l, c.getLast? = some l → b.getD l 0 = 0xC0 + u := by
  induction c with
  | nil => intro b _ l h; simp at h
  | cons x xs ih =>
    intro b hlk l hl'
    cases xs with
    | nil => simp at hl'; subst hl'; exact hlk
    | cons y ys => simp only [Linked] at hlk; exact ih b hlk.2 l (by simpa using hl')

theorem findSlot_mem (bat : List Nat) (l : List (Nat × Nat × Bytes)) (s st : Nat) (h : findSlot bat l = .ok (some (s, st))) :
    ∃ data, (s, st, data) ∈ l := by
  induction l with
  | nil => simp [findSlot] at h
  | cons x rest ih =>
    obtain ⟨s', st', data⟩ := x
    simp only [findSlot] at h
    cases he : entryOfBytes data bat with
    | error e => rw [he] at h; cases h
    | ok en =>
      rw [he] at h
      dsimp only at h
      split at h
      · cases h; exact ⟨data, by simp⟩
      · obtain ⟨d, hd⟩ := ih h
        exact ⟨d, by simp [hd]⟩

theorem slots_sector_range (sd : Side) (s st : Nat) (data : Bytes) (h : (s, st, data) ∈ slots sd) : 2 ≤ s ∧ s ≤ 15 := by
  simp only [slots, catalogSectors, List.mem_flatMap, List.mem_map, List.mem_range'_1] at h
  obtain ⟨a, ha, b, _, hb⟩ := h
  cases hb
  omega

theorem getBat_putSector_other (sd : Side) (s : Nat) (v : Bytes) (hs : s ≠ batSector) :
    getBat (putSector sd batTrack s v) = getBat sd := by
  unfold getBat
  have : getSector (putSector sd batTrack s v) batTrack batSector = getSector sd batTrack batSector := by
    apply putSector_other
    unfold idx; intro h; apply hs; omega
  rw [this]

theorem sizeInBytes_of (bat : List Nat) (e : Entry) (last u : Nat) (h8 : u ≤ 8) (hlast : e.blocks.getLast? = some last)
    (hs : bat.getD last 0 = 0xC0 + u) : sizeInBytes bat e = (8 * (e.blocks.length - 1) + u - 1) * 255 + e.lastBytes := by
  have := C07.size_formula bat e.rec16 e.blocks last u h8 hlast hs
  unfold sizeInBytes at this ⊢
  simp only [Entry.lastBytes] at this ⊢
  exact this

/-- **C02 core: what `writeFile` stores, `readFile` returns.**  On a well-formed side whose table is
    readable and whose track-20 blocks are not free, a successful `writeFile` leaves a well-formed
    side whose table is the old one with the new chain linked, and every entry that names that
    chain and the recorded last-sector count reads back exactly `content` — any content, any size. -/
theorem writeFile_read_back (sd sd3 : Side) (bat : List Nat) (content : Bytes) (name ext : Str) (kind flag : Nat)
    (hw : C11.WFSide sd) (hb : getBat sd = .ok bat)
    (h40 : isFree (bat.getD 40 0) = false) (h41 : isFree (bat.getD 41 0) = false)
    (hres : writeFile sd content name ext kind flag = .ok sd3) :
    C11.WFSide sd3
    ∧ getBat sd3 = .ok (linkChain bat (chosen bat (reqBlocks content.length)) (lastSectorsOf content.length))
    ∧ (chosen bat (reqBlocks content.length)).length = reqBlocks content.length
    ∧ ∀ e : Entry, e.blocks = chosen bat (reqBlocks content.length) → e.lastBytes = lastBytesOf content.length →
        readFile sd3 (linkChain bat (chosen bat (reqBlocks content.length)) (lastSectorsOf content.length)) e = content := by
  obtain ⟨hb1, hu1, hu8, hlb, hS, hsize, _⟩ := size_law content.length
  have hblen := getBat_length sd bat hb
  unfold writeFile at hres
  rw [hb] at hres
  dsimp only at hres
  rw [protect_id bat h40 h41] at hres
  simp only [writeFileWith] at hres
  split at hres
  · cases hres
  · rename_i hfit
    have hfit' : reqBlocks content.length ≤ (chosen bat (reqBlocks content.length)).length := by omega
    generalize hfree : chosen bat (reqBlocks content.length) = free at hres hfit' ⊢
    have hflen : free.length = reqBlocks content.length := by
      have : free.length ≤ reqBlocks content.length := by rw [← hfree]; simp only [chosen]; exact List.length_take_le _ _
      omega
    have hlt : ∀ b ∈ free, b < 160 := fun b hb' => hblen ▸ (chosen_free bat _ b (hfree ▸ hb')).1
    have hnd : free.Nodup := hfree ▸ chosen_nodup bat _
    have hnot4x : ∀ b ∈ free, b ≠ 40 ∧ b ≠ 41 := by
      intro b hb'
      have := (chosen_free bat _ b (hfree ▸ hb')).2
      constructor
      · intro h; subst h; rw [h40] at this; cases this
      · intro h; subst h; rw [h41] at this; cases this
    unfold placeFile at hres
    dsimp only at hres
    generalize hsd1 : writeSectors free content (reqSectors content.length) 0 sd = sd1 at hres
    generalize hbat' : linkChain bat free (lastSectorsOf content.length) = bat' at hres ⊢
    have hw1 : C11.WFSide sd1 := hsd1 ▸ writeSectors_wf _ _ _ _ _ hw
    have hw2 : C11.WFSide (setBat sd1 bat') := by unfold setBat; exact putSector_wf _ _ _ _ hw1
    have hb'len : bat'.length = 160 := by rw [← hbat', linkChain_length]; exact hblen
    have hb'valid : bat'.all validStatus = true := hbat' ▸ linkChain_valid free bat _ (getBat_valid sd bat hb) hlt hu1 hu8
    cases hf : findSlot bat' (slots (setBat sd1 bat')) with
    | error e => rw [hf] at hres; cases hres
    | ok o =>
      rw [hf] at hres
      cases o with
      | none => cases hres
      | some p =>
        obtain ⟨s, st⟩ := p
        dsimp only at hres
        cases hres
        obtain ⟨data, hmem⟩ := findSlot_mem _ _ _ _ hf
        obtain ⟨hs2, hs15⟩ := slots_sector_range _ _ _ _ hmem
        have hw3 : C11.WFSide (putSector (setBat sd1 bat') batTrack s
              (sliceAssign (getSector (setBat sd1 bat') batTrack s) st (st + 32)
                (newRecord name ext kind flag (free.getD 0 0) (lastBytesOf content.length)))) := putSector_wf _ _ _ _ hw2
        have hflatlt : ∀ j, j < reqSectors content.length → flatOf free j < 1280 := by
          intro j hj
          unfold flatOf
          have hj8 : j / 8 < free.length := by omega
          have hm : free.getD (j / 8) 0 ∈ free := by
            rw [List.getD_eq_getElem?_getD, List.getElem?_eq_getElem hj8]; simp
          have := hlt _ hm
          omega
        have hflat4x : ∀ j, j < reqSectors content.length → flatOf free j < 320 ∨ 336 ≤ flatOf free j := by
          intro j hj
          unfold flatOf
          have hj8 : j / 8 < free.length := by omega
          have hm : free.getD (j / 8) 0 ∈ free := by
            rw [List.getD_eq_getElem?_getD, List.getElem?_eq_getElem hj8]; simp
          have := hnot4x _ hm
          omega
        have hspec := (writeSectors_spec free hnd content (reqSectors content.length) 0 sd (by omega)
          (fun j _ h2 => by rw [hw.1]; exact hflatlt j (by omega))).2
        have hdata : ∀ j < reqSectors content.length,
            (putSector (setBat sd1 bat') batTrack s
              (sliceAssign (getSector (setBat sd1 bat') batTrack s) st (st + 32)
                (newRecord name ext kind flag (free.getD 0 0) (lastBytesOf content.length)))).getD (flatOf free j) []
              = setPayload (sd.getD (flatOf free j) []) (sliceJ content j) := by
          intro j hj
          have h4 := hflat4x j hj
          rw [putSector_flat_other _ _ _ _ _ (by unfold idx batTrack; have : Gen.Disk.sectorsPerTrack = 16 := rfl; rw [this]; omega)]
          unfold setBat
          rw [putSector_flat_other _ _ _ _ _ (by unfold idx batTrack batSector; have : Gen.Disk.sectorsPerTrack = 16 := rfl; rw [this]; omega)]
          rw [← hsd1]
          exact hspec j (Nat.zero_le _) (by omega)
        have hgb : getBat (putSector (setBat sd1 bat') batTrack s
              (sliceAssign (getSector (setBat sd1 bat') batTrack s) st (st + 32)
                (newRecord name ext kind flag (free.getD 0 0) (lastBytesOf content.length)))) = .ok bat' := by
          rw [getBat_putSector_other _ _ _ (by unfold batSector; omega)]
          exact getBat_setBat sd1 bat' hw1 hb'len hb'valid
        refine ⟨hw3, hgb, hflen, ?_⟩
        intro e hblocks hlastB
        have hne : free ≠ [] := by intro h; rw [h] at hflen; simp at hflen; omega
        obtain ⟨last, hlast⟩ : ∃ last, free.getLast? = some last := by
          cases h : free.getLast? with
          | none => simp [List.getLast?_eq_none_iff] at h; exact absurd h hne
          | some l => exact ⟨l, rfl⟩
        have hl := linkChain_linked free bat (lastSectorsOf content.length) hnd (fun b hb' => hblen ▸ hlt b hb')
        rw [hbat'] at hl
        have hst := linked_last _ free bat' hl last hlast
        have hsz : sizeInBytes bat' e = content.length := by
          rw [sizeInBytes_of bat' e last _ hu8 (hblocks ▸ hlast) hst, hblocks, hflen, hlastB, Nat.mul_comm]
          exact hsize
        exact readFile_written sd _ bat' free content e hw hw3 hdata hblocks hlastB hflen hlt hsz last hlast hst

end Moto.Disk
