/-
  The kind and flag bytes of the catalog entry written for a stored file.
-/
import MotoModel.Proofs.DiskRuns
namespace Moto.Disk
open Moto

theorem recordOfBytes_11 (data : Bytes) : (recordOfBytes data).getD 11 0 = typeOfFileOfByte (data.getD 11 0) := by
  unfold recordOfBytes
  dsimp only
  rw [getD_set_ne _ 15 11 _ _ (by omega), getD_set_ne _ 14 11 _ _ (by omega), getD_set_ne _ 13 11 _ _ (by omega),
    getD_set_ne _ 12 11 _ _ (by omega)]
  apply getD_set_eq
  simp only [List.length_append, List.length_map, List.length_take, List.length_drop]
  simp only [sliceAssign, slice, List.length_append, List.length_take, List.length_drop, List.length_replicate]
  omega

theorem recordOfBytes_12 (data : Bytes) : (recordOfBytes data).getD 12 0 = typeOfDataByteOfByte (data.getD 12 0) := by
  unfold recordOfBytes
  dsimp only
  rw [getD_set_ne _ 15 12 _ _ (by omega), getD_set_ne _ 14 12 _ _ (by omega), getD_set_ne _ 13 12 _ _ (by omega)]
  apply getD_set_eq
  simp only [List.length_set, List.length_append, List.length_map, List.length_take, List.length_drop]
  simp only [sliceAssign, slice, List.length_append, List.length_take, List.length_drop, List.length_replicate]
  omega

theorem newRecord_11_12 (name ext : Str) (kind flag first lb : Nat) :
    (newRecord name ext kind flag first lb).getD 11 0 = kind ∧ (newRecord name ext kind flag first lb).getD 12 0 = flag := by
  unfold newRecord
  dsimp only
  have hl : ((bytesFromStr (upper name) 8 ++ bytesFromStr (upper ext) 3).map (fun c => if c < 0x20 then Gen.Disk.invalidChar else c)).length = 11 := by
    simp [bytesFromStr_length]
  generalize (bytesFromStr (upper name) 8 ++ bytesFromStr (upper ext) 3).map (fun c => if c < 0x20 then Gen.Disk.invalidChar else c) = d at hl
  constructor
  · rw [List.append_assoc, List.getD_eq_getElem?_getD, List.getElem?_append_right (by omega), hl]
    rfl
  · rw [List.append_assoc, List.getD_eq_getElem?_getD, List.getElem?_append_right (by omega), hl]
    rfl

/-- **the kind and flag bytes of a stored file** are the ones the extension table gives: bytes 11
    and 12 of the sixteen entry bytes the image holds for a file stored from a source with kind
    `kind` ∈ {0 BASIC, 1 data, 2 module, 3 text} and flag `flag` ∈ {0 binary, 255 ASCII} -/
theorem stored_kind_flag (r : Bytes) (name ext : Str) (kind flag size : Nat) (h : IsRecordOf r name ext kind flag size)
    (hk : kind ≤ 3) (hf : flag = 0 ∨ flag = 255) : r.getD 11 0 = kind ∧ r.getD 12 0 = flag := by
  obtain ⟨first, hr⟩ := h
  obtain ⟨h11, h12⟩ := newRecord_11_12 name ext kind flag first (lastBytesOf size)
  have e11 := recordOfBytes_11 (newRecord name ext kind flag first (lastBytesOf size))
  have e12 := recordOfBytes_12 (newRecord name ext kind flag first (lastBytesOf size))
  rw [h11] at e11
  rw [h12] at e12
  rw [hr, e11, e12]
  constructor
  · unfold typeOfFileOfByte
    have hv : Gen.Disk.typeOfFileValues = [0, 1, 2, 3] := rfl
    rw [hv]
    have : ([0, 1, 2, 3] : List Nat).contains kind = true := by
      have : kind = 0 ∨ kind = 1 ∨ kind = 2 ∨ kind = 3 := by omega
      rcases this with h | h | h | h <;> subst h <;> rfl
    rw [if_pos this]
  · unfold typeOfDataByteOfByte
    rcases hf with h | h
    · subst h; rfl
    · subst h; rfl

/-- the table gives only such kinds and flags -/
theorem dispatch_range (a b c : Str) : (dispatch a b c).1 ≤ 3 ∧ ((dispatch a b c).2.1 = 0 ∨ (dispatch a b c).2.1 = 255) := by
  have hrows : ∀ r ∈ Gen.Disk.processors, r.2.1 ≤ 3 ∧ (r.2.2.1 = 0 ∨ r.2.2.1 = 255) := by decide
  have hdef : Gen.Disk.defaultProcessor.1 ≤ 3 ∧ (Gen.Disk.defaultProcessor.2.1 = 0 ∨ Gen.Disk.defaultProcessor.2.1 = 255) := by decide
  unfold dispatch
  dsimp only
  cases h1 : Gen.Disk.processors.find? (fun r => r.1 == a ++ [46] ++ b) with
  | some r =>
    obtain ⟨n, k, f, forced⟩ := r
    exact hrows _ (List.mem_of_find?_eq_some h1)
  | none =>
    cases h2 : Gen.Disk.processors.find? (fun r => r.1 == c) with
    | some r =>
      obtain ⟨n, k, f, forced⟩ := r
      exact hrows _ (List.mem_of_find?_eq_some h2)
    | none => exact hdef

end Moto.Disk
