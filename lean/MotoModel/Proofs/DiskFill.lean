/-
  The read loop of `readFile`: filling a zero buffer piece after piece is concatenation.
-/
import MotoModel.Proofs.DiskSector
import MotoModel.Proofs.TapeWrite
namespace Moto.Disk
open Moto

/-- `res` holds `done` followed by `k` zero bytes still to be filled; `idx` is the fill cursor -/
def Filled (r : Bytes × Nat) (done : Bytes) (k : Nat) : Prop := r.1 = done ++ List.replicate k 0 ∧ r.2 = done.length

theorem fill_step (r : Bytes × Nat) (done : Bytes) (k : Nat) (p : Bytes) (h : Filled r done k) (hp : p.length ≤ k) :
    Filled (sliceAssign r.1 r.2 (r.2 + p.length) p, r.2 + p.length) (done ++ p) (k - p.length) := by
  obtain ⟨h1, h2⟩ := h
  constructor
  · simp only; rw [h1, h2, Tape.sliceAssign_tail]
  · simp [h2]

theorem blockPieces_succ (sd : Side) (b sMax lastSize cnt : Nat) :
    blockPieces sd b sMax lastSize (cnt + 1)
      = blockPieces sd b sMax lastSize cnt ++ (getSector sd (blockTrack b) (blockFirstSector b + cnt)).take (pieceLen sMax lastSize cnt) := by
  simp [blockPieces, List.range_succ]

/-- the sector loop of one block appends its pieces, provided each piece has its nominal length -/
theorem readSectors_fill (sd : Side) (b sMax lastSize : Nat) (cnt : Nat) :
    ∀ (r : Bytes × Nat) (done : Bytes) (k : Nat), Filled r done k →
      (∀ s < cnt, ((getSector sd (blockTrack b) (blockFirstSector b + s)).take (pieceLen sMax lastSize s)).length = pieceLen sMax lastSize s) →
      (blockPieces sd b sMax lastSize cnt).length ≤ k →
      Filled (readSectors sd b sMax lastSize cnt r) (done ++ blockPieces sd b sMax lastSize cnt) (k - (blockPieces sd b sMax lastSize cnt).length) := by
  induction cnt with
  | zero => intro r done k h _ _; simpa [readSectors, blockPieces] using h
  | succ c ih =>
    intro r done k h hlen hk
    rw [blockPieces_succ] at hk ⊢
    simp only [List.length_append] at hk
    have ih' := ih r done k h (fun s hs => hlen s (by omega)) (by omega)
    simp only [readSectors]
    generalize readSectors sd b sMax lastSize c r = r1 at ih' ⊢
    obtain ⟨res, index⟩ := r1
    have hl := hlen c (by omega)
    have step := fill_step (res, index) _ _ ((getSector sd (blockTrack b) (blockFirstSector b + c)).take (pieceLen sMax lastSize c)) ih' (by omega)
    simp only [hl] at step
    rw [List.append_assoc] at step
    rw [List.length_append, hl]
    have : k - (blockPieces sd b sMax lastSize c).length - pieceLen sMax lastSize c
        = k - ((blockPieces sd b sMax lastSize c).length + pieceLen sMax lastSize c) := by omega
    rw [← this]
    exact step

end Moto.Disk

namespace Moto.Disk
open Moto

theorem sector_length (sd : Side) (hw : C11.WFSide sd) (b s : Nat) (hb : b < 160) (hs : s < 8) :
    (getSector sd (blockTrack b) (blockFirstSector b + s)).length = 256 := by
  have hidx : idx (blockTrack b) (blockFirstSector b + s) < sd.length := by
    rw [hw.1]
    unfold idx blockTrack blockFirstSector
    have : Gen.Disk.sectorsPerTrack = 16 := rfl
    rw [this]; omega
  have hm : getSector sd (blockTrack b) (blockFirstSector b + s) ∈ sd := by
    unfold getSector
    rw [List.getD_eq_getElem?_getD, List.getElem?_eq_getElem hidx]; simp
  exact hw.2 _ hm

theorem piece_length (sd : Side) (hw : C11.WFSide sd) (b s sMax lastSize : Nat) (hb : b < 160) (hs : s < 8) (hl : lastSize ≤ 256) :
    ((getSector sd (blockTrack b) (blockFirstSector b + s)).take (pieceLen sMax lastSize s)).length = pieceLen sMax lastSize s := by
  rw [List.length_take, sector_length sd hw b s hb hs]
  unfold pieceLen; split <;> omega

/-- the block loop appends the pieces of every block -/
theorem go_fill (sd : Side) (hw : C11.WFSide sd) (lu lb lastI : Nat) (hlu : lu ≤ 8) (hlb : lb ≤ 256) (blocks : List Nat) :
    ∀ (i : Nat) (r : Bytes × Nat) (done : Bytes) (k : Nat), Filled r done k → (∀ b ∈ blocks, b < 160) →
      (piecesFrom sd lu lb lastI blocks i).length ≤ k →
      Filled (readFile.go sd lu lb lastI blocks i r) (done ++ piecesFrom sd lu lb lastI blocks i)
        (k - (piecesFrom sd lu lb lastI blocks i).length) := by
  induction blocks with
  | nil => intro i r done k h _ _; simpa [readFile.go, piecesFrom] using h
  | cons b bs ih =>
    intro i r done k h hlt hk
    have hb := hlt b (by simp)
    simp only [readFile.go, piecesFrom] at hk ⊢
    by_cases hi : i = lastI
    · simp only [hi, if_true] at hk ⊢
      simp only [List.length_append] at hk
      have h1 := readSectors_fill sd b lu lb lu r done k h
        (fun s hs => piece_length sd hw b s lu lb hb (by omega) hlb) (by omega)
      have h2 := ih (lastI + 1) _ _ _ h1 (fun x hx => hlt x (by simp [hx])) (by omega)
      rw [List.append_assoc] at h2
      rw [List.length_append]
      have : k - (blockPieces sd b lu lb lu).length - (piecesFrom sd lu lb lastI bs (lastI + 1)).length
          = k - ((blockPieces sd b lu lb lu).length + (piecesFrom sd lu lb lastI bs (lastI + 1)).length) := by omega
      rw [← this]; exact h2
    · simp only [hi, if_false] at hk ⊢
      simp only [List.length_append] at hk
      have h1 := readSectors_fill sd b 8 255 8 r done k h
        (fun s hs => piece_length sd hw b s 8 255 hb hs (by omega)) (by omega)
      have h2 := ih (i + 1) _ _ _ h1 (fun x hx => hlt x (by simp [hx])) (by omega)
      rw [List.append_assoc] at h2
      rw [List.length_append]
      have : k - (blockPieces sd b 8 255 8).length - (piecesFrom sd lu lb lastI bs (i + 1)).length
          = k - ((blockPieces sd b 8 255 8).length + (piecesFrom sd lu lb lastI bs (i + 1)).length) := by omega
      rw [← this]; exact h2

theorem wfSide_iff (sd : Side) (h : wfSide sd = true) : C11.WFSide sd := by
  unfold wfSide at h
  simp only [Bool.and_eq_true, beq_iff_eq, List.all_eq_true] at h
  exact ⟨h.1, fun s hs => h.2 s hs⟩

/-- **the efficient reader is the reader**: `readFileImpl`, which the extractor of the model calls,
    equals the Python-mirroring `readFile` on every input -/
theorem readFileImpl_eq (sd : Side) (bat : List Nat) (e : Entry) : readFileImpl sd bat e = readFile sd bat e := by
  unfold readFileImpl
  cases hl : e.blocks.getLast? with
  | none => simp [readFile, hl]
  | some last =>
    dsimp only
    split
    · rename_i hc
      simp only [Bool.and_eq_true, decide_eq_true_eq, List.all_eq_true] at hc
      obtain ⟨⟨⟨⟨hwf, hlt⟩, hlu⟩, hlb⟩, hsz⟩ := hc
      have hw := wfSide_iff sd hwf
      unfold readFile
      rw [hl]
      dsimp only
      have hfill := go_fill sd hw _ _ (e.blocks.length - 1) hlu hlb e.blocks 0
        (List.replicate (sizeInBytes bat e) 0, 0) [] (sizeInBytes bat e) ⟨by simp, rfl⟩ hlt hsz
      obtain ⟨h1, _⟩ := hfill
      rw [h1]; simp
    · rfl

end Moto.Disk
