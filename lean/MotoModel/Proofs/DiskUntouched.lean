/-
  No sector of a block that is in use or reserved is modified by a create/add batch.
-/
import MotoModel.Proofs.DiskByte0
namespace Moto.Disk
open Moto

/-- block `b` is not free in the side's table and its sector `s` holds `v` -/
def KeptSector (b s : Nat) (v : Bytes) (sd : Side) : Prop :=
  (∃ bat, getBat sd = .ok bat ∧ isFree (bat.getD b 0) = false) ∧ sd.getD (8 * b + s) [] = v

theorem kept_sector_preserved (b s : Nat) (h40 : b ≠ 40) (h41 : b ≠ 41) (hs : s < 8) (v : Bytes) :
    SidePreserved (KeptSector b s v) := by
  intro sd bat own inv hP content name ext kind flag hname
  obtain ⟨⟨bat0, hb0, hnf⟩, hv⟩ := hP
  rw [inv.hbat] at hb0
  cases hb0
  have hnotch : b ∉ chosen bat (reqBlocks content.length) := by
    intro hm
    have := (chosen_free bat _ b hm).2
    rw [hnf] at this; cases this
  -- the table after the call
  have htable : ∃ bat', getBat (writeFile sd content name ext kind flag).side = .ok bat' ∧ isFree (bat'.getD b 0) = false := by
    rcases writeFile_inv inv content name ext kind flag hname with ⟨sd', i0, hw, _, _, inv', _⟩ | ⟨sd', msg, hw, inv', _⟩
    · rw [hw]
      refine ⟨_, inv'.hbat, ?_⟩
      unfold newBat
      rw [linkChain_other _ _ _ _ _ hnotch]; exact hnf
    · rw [hw]
      exact ⟨_, inv'.hbat, hnf⟩
  refine ⟨htable, ?_⟩
  -- the sector after the call
  rw [writeFile_unfold sd bat content name ext kind flag inv.hbat inv.not_free40.1 inv.not_free40.2]
  by_cases hfit : (chosen bat (reqBlocks content.length)).length < reqBlocks content.length
  · rw [if_pos hfit]; exact hv
  · rw [if_neg hfit]
    obtain ⟨hf40, hf41⟩ := inv.not_free40
    obtain ⟨hwmid, hbmid, hnblen, hframe⟩ := mid_facts sd bat content inv.wf inv.hbat hf40 hf41 hfit
    have hmid : (midSide sd bat content).getD (8 * b + s) [] = v := by
      rw [hframe (8 * b + s) (by intro b' hb' hr; have : b' = b := by omega
                                 subst this; exact hnotch hb') (by omega)]
      exact hv
    cases hf : findSlot (newBat bat content) (slots (midSide sd bat content)) with
    | error e => exact hmid
    | ok o =>
      cases o with
      | none =>
        show (fullSide sd bat content).getD (8 * b + s) [] = v
        unfold fullSide setBat
        rw [putSector_flat_other _ _ _ _ _ (by unfold idx batTrack batSector; have : Gen.Disk.sectorsPerTrack = 16 := rfl; rw [this]; omega)]
        exact hmid
      | some p =>
        obtain ⟨s', st⟩ := p
        show (doneSide sd bat content name ext kind flag s' st).getD (8 * b + s) [] = v
        obtain ⟨data, hmem⟩ := findSlot_mem _ _ _ _ hf
        obtain ⟨hs2, hs15⟩ := slots_sector_range _ _ _ _ hmem
        unfold doneSide
        rw [putSector_flat_other _ _ _ _ _ (by unfold idx batTrack; have : Gen.Disk.sectorsPerTrack = 16 := rfl; rw [this]; omega)]
        exact hmid

/-- **no sector of a block in use or reserved is modified** by a whole create/add batch, on any
    side: the blocks the table of the image marked as not free before the batch (track 20's own two
    blocks apart, which hold the table and the catalog) hold the same bytes after it -/
theorem batch_keeps_used_blocks (w : Tape.World) (verbose : Bool) (img : Image) (srcs : List Str)
    (himg : ImgOk img) (hs : ∀ src ∈ srcs, CleanSrc src) :
    ∃ st, performCore w verbose img srcs = .ok st ∧ ImgOk st.img
      ∧ ∀ k, k < 4 → ∀ bat, getBat (img.getD k []) = .ok bat → ∀ b, b ≠ 40 → b ≠ 41 → isFree (bat.getD b 0) = false →
          ∀ s, s < 8 → (st.img.getD k []).getD (8 * b + s) [] = (img.getD k []).getD (8 * b + s) []
            ∧ ∃ bat', getBat (st.img.getD k []) = .ok bat' ∧ isFree (bat'.getD b 0) = false := by
  obtain ⟨st, hst, hok⟩ := performCore_ok w verbose img srcs himg hs
  refine ⟨st, hst, hok, ?_⟩
  intro k hk bat hbat b h40 h41 hnf s hs8
  -- the predicate of side k: this sector kept; of the other sides: nothing
  let P : Nat → Side → Prop := fun j sd => j = k → KeptSector b s ((img.getD k []).getD (8 * b + s) []) sd
  have hP : ∀ j, SidePreserved (P j) := by
    intro j sd bat1 own inv hp content name ext kind flag hname hjk
    exact kept_sector_preserved b s h40 h41 hs8 _ sd bat1 own inv (hp hjk) content name ext kind flag hname
  have h0 : ImgAllI P img := by
    intro j _ hjk
    subst hjk
    exact ⟨⟨bat, hbat, hnf⟩, rfl⟩
  obtain ⟨st2, hst2, _, hp2⟩ := performCore_presI hP w verbose img srcs himg h0 hs
  rw [hst] at hst2
  cases hst2
  have := hp2 k hk rfl
  exact ⟨this.2, this.1⟩

end Moto.Disk
