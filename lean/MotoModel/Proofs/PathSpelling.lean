/-
  How a source argument is split does not depend on the directory part of its spelling.
-/
import MotoModel.Model.DiskCli
namespace Moto
open Moto

/-! ### `rfindFrom` -/

theorem rfind_go_append (c start : Nat) (l1 : Str) : ∀ (l2 : Str) (i : Nat) (best : Option Nat),
    rfindFrom.go c start (l1 ++ l2) i best = rfindFrom.go c start l2 (i + l1.length) (rfindFrom.go c start l1 i best) := by
  induction l1 with
  | nil => intro l2 i best; simp [rfindFrom.go]
  | cons x xs ih =>
    intro l2 i best
    simp only [List.cons_append, rfindFrom.go, List.length_cons]
    rw [ih]
    congr 1
    omega

/-- nothing found when the character is absent -/
theorem rfind_go_absent (c start : Nat) (l : Str) (h : c ∉ l) : ∀ (i : Nat) (best : Option Nat), rfindFrom.go c start l i best = best := by
  induction l with
  | nil => intro i best; rfl
  | cons x xs ih =>
    intro i best
    simp only [rfindFrom.go]
    have hx : (x == c) = false := by
      have : x ≠ c := fun e => h (by simp [e])
      simpa using this
    rw [hx, Bool.false_and, ih (fun hm => h (by simp [hm]))]
    rfl

/-- nothing found before the start index -/
theorem rfind_go_before (c start : Nat) (l : Str) : ∀ (i : Nat) (best : Option Nat), i + l.length ≤ start →
    rfindFrom.go c start l i best = best := by
  induction l with
  | nil => intro i best _; rfl
  | cons x xs ih =>
    intro i best h
    simp only [rfindFrom.go]
    have : decide (start ≤ i) = false := by simp at h ⊢; omega
    rw [this, Bool.and_false]
    simp only [Bool.false_eq_true, if_false]
    exact ih (i + 1) best (by simp at h ⊢; omega)

/-- shifting the indices and the start by `k` shifts the answer by `k` -/
theorem rfind_go_shift (c s k : Nat) (l : Str) : ∀ (i : Nat) (best : Option Nat),
    rfindFrom.go c (k + s) l (k + i) (best.map (k + ·)) = (rfindFrom.go c s l i best).map (k + ·) := by
  induction l with
  | nil => intro i best; rfl
  | cons x xs ih =>
    intro i best
    simp only [rfindFrom.go]
    have e : decide (k + s ≤ k + i) = decide (s ≤ i) := by simp
    rw [e]
    have := ih (i + 1) (if (x == c && decide (s ≤ i)) = true then some i else best)
    rw [← this]
    congr 1
    split <;> rfl

/-- index of the last occurrence, by structural recursion -/
def lastIdx (c : Nat) : Str → Option Nat
  | [] => none
  | x :: xs => match lastIdx c xs with
    | some j => some (j + 1)
    | none => if x == c then some 0 else none

theorem rfind_go_lastIdx (c : Nat) (l : Str) : ∀ (i : Nat) (best : Option Nat),
    rfindFrom.go c 0 l i best = match lastIdx c l with | some j => some (i + j) | none => best := by
  induction l with
  | nil => intro i best; rfl
  | cons x xs ih =>
    intro i best
    simp only [rfindFrom.go, lastIdx, Nat.zero_le, decide_true, Bool.and_true]
    rw [ih]
    cases hl : lastIdx c xs with
    | some j => simp only; congr 1; omega
    | none =>
      simp only
      by_cases hx : (x == c) = true
      · simp [hx]
      · simp [hx]

theorem lastIdx_split (c : Nat) (l : Str) :
    (lastIdx c l = none ∧ c ∉ l) ∨ (∃ j, lastIdx c l = some j ∧ ∃ pre post, l = pre ++ c :: post ∧ pre.length = j ∧ c ∉ post) := by
  induction l with
  | nil => left; exact ⟨rfl, by simp⟩
  | cons x xs ih =>
    simp only [lastIdx]
    rcases ih with ⟨h1, h2⟩ | ⟨j, h1, pre, post, h2, h3, h4⟩
    · rw [h1]
      by_cases hx : (x == c) = true
      · right
        have : x = c := by simpa using hx
        subst this
        exact ⟨0, by simp, [], xs, rfl, rfl, h2⟩
      · left
        refine ⟨by simp [hx], ?_⟩
        have : x ≠ c := by simpa using hx
        simp only [List.mem_cons, not_or]
        exact ⟨fun e => this e.symm, h2⟩
    · right
      rw [h1]
      exact ⟨j + 1, rfl, x :: pre, post, by rw [h2]; rfl, by simp [h3], h4⟩

/-- the last occurrence: what `rfindFrom c s 0` returns splits `s` around it -/
theorem rfind_split (c : Nat) (s : Str) :
    (rfindFrom c s 0 = none ∧ c ∉ s) ∨ (∃ i, rfindFrom c s 0 = some i ∧ ∃ pre post, s = pre ++ c :: post ∧ pre.length = i ∧ c ∉ post) := by
  unfold rfindFrom
  rw [rfind_go_lastIdx]
  rcases lastIdx_split c s with ⟨h1, h2⟩ | ⟨j, h1, rest⟩
  · left; rw [h1]; exact ⟨rfl, h2⟩
  · right; rw [h1]; exact ⟨j, by simp, rest⟩

/-! ### directory part and base name -/

/-- a directory prefix: empty, or ending with '/' -/
def DirPrefix (pre : Str) : Prop := pre = [] ∨ ∃ d, pre = d ++ [47]

theorem afterLast_prefix (pre base : Str) (hp : DirPrefix pre) (hb : 47 ∉ base) : afterLast 47 (pre ++ base) = pre.length := by
  unfold afterLast rfindFrom
  rcases hp with rfl | ⟨d, rfl⟩
  · simp only [List.nil_append, List.length_nil]
    rw [rfind_go_absent 47 0 base hb]
  · rw [List.append_assoc, rfind_go_append]
    simp only [List.singleton_append, rfindFrom.go, Nat.zero_add, Nat.zero_le, decide_true, Bool.and_true, BEq.rfl, if_true]
    rw [rfind_go_absent 47 0 base hb]
    simp

theorem basename_prefix (pre base : Str) (hp : DirPrefix pre) (hb : 47 ∉ base) : basename (pre ++ base) = base := by
  unfold basename
  rw [afterLast_prefix pre base hp hb, List.drop_left]

theorem upperC_47 (c : Nat) : upperC c = 47 ↔ c = 47 := by
  unfold upperC; split <;> omega

theorem upper_no_slash (s : Str) (h : 47 ∉ s) : 47 ∉ upper s := by
  unfold upper
  intro hm
  obtain ⟨c, hc, he⟩ := List.mem_map.mp hm
  exact h ((upperC_47 c).mp he ▸ hc)

theorem upper_dirPrefix (pre : Str) (hp : DirPrefix pre) : DirPrefix (upper pre) := by
  rcases hp with rfl | ⟨d, rfl⟩
  · left; rfl
  · right; exact ⟨upper d, by simp [upper, upperC]⟩

theorem upper_append (a b : Str) : upper (a ++ b) = upper a ++ upper b := by simp [upper]

/-- the base name of the upper-cased path is the upper-cased base name -/
theorem basename_upper_prefix (pre base : Str) (hp : DirPrefix pre) (hb : 47 ∉ base) : basename (upper (pre ++ base)) = upper base := by
  rw [upper_append]
  exact basename_prefix _ _ (upper_dirPrefix pre hp) (upper_no_slash base hb)

/-- position of the extension dot: that of the base name, shifted by the directory part -/
theorem dotPos_prefix (pre base : Str) (hp : DirPrefix pre) (hb : 47 ∉ base) :
    rfindFrom 46 (pre ++ base) (afterLast 47 (pre ++ base)) = (rfindFrom 46 base (afterLast 47 base)).map (pre.length + ·) := by
  rw [afterLast_prefix pre base hp hb]
  have h0 : afterLast 47 base = 0 := by
    have := afterLast_prefix [] base (Or.inl rfl) hb
    simpa using this
  rw [h0]
  unfold rfindFrom
  rw [rfind_go_append, rfind_go_before 46 pre.length pre 0 none (by omega)]
  have := rfind_go_shift 46 0 pre.length base 0 none
  simpa using this

/-- every path is a directory prefix followed by a base name without '/' -/
theorem path_split (src : Str) : ∃ pre base, src = pre ++ base ∧ DirPrefix pre ∧ 47 ∉ base := by
  rcases rfind_split 47 src with ⟨_, h⟩ | ⟨i, _, pre, post, h1, _, h3⟩
  · exact ⟨[], src, rfl, Or.inl rfl, h⟩
  · exact ⟨pre ++ [47], post, by rw [h1]; simp, Or.inr ⟨pre, rfl⟩, h3⟩

/-! ### the `,A` option test -/

def hasA (src : Str) : Bool := upper (src.drop (src.length - 2)) = Tape.str ",A"

theorem hasA_prefix (pre base : Str) (hp : DirPrefix pre) : hasA (pre ++ base) = hasA base := by
  unfold hasA
  by_cases h2 : 2 ≤ base.length
  · have : (pre ++ base).drop ((pre ++ base).length - 2) = base.drop (base.length - 2) := by
      rw [List.length_append, List.drop_append]
      have e1 : pre.length + base.length - 2 - pre.length = base.length - 2 := by omega
      rw [e1, List.drop_of_length_le (by omega)]
      rfl
    rw [this]
  · -- fewer than two characters in the base name: neither spelling ends with ",A"
    have hb : decide (upper (base.drop (base.length - 2)) = Tape.str ",A") = false := by
      apply decide_eq_false
      intro h
      have := congrArg List.length h
      simp [upper, Tape.str] at this
      omega
    rw [hb]
    apply decide_eq_false
    intro h
    rcases hp with rfl | ⟨d, rfl⟩
    · simp only [List.nil_append] at h
      have := congrArg List.length h
      simp [upper, Tape.str] at this
      omega
    · -- the last two characters contain the '/'
      have hl : base.length = 0 ∨ base.length = 1 := by omega
      rcases hl with hl | hl
      · have hb0 : base = [] := List.eq_nil_of_length_eq_zero hl
        subst hb0
        simp only [List.append_nil, List.length_append, List.length_singleton] at h
        have : (d ++ [47]).drop (d.length + 1 - 2) = (d.drop (d.length - 1)) ++ [47] := by
          rw [List.drop_append]
          have : d.length + 1 - 2 - d.length = 0 := by omega
          rw [this]
          have : d.length + 1 - 2 = d.length - 1 := by omega
          rw [this]; rfl
        rw [this, upper_append] at h
        have hlast := congrArg List.getLast? h
        simp [upper, upperC, Tape.str] at hlast
      · obtain ⟨b, rfl⟩ : ∃ b, base = [b] := by
          match base, hl with
          | [b], _ => exact ⟨b, rfl⟩
        simp only [List.length_append, List.length_singleton] at h
        have : (d ++ [47] ++ [b]).drop (d.length + 1 + 1 - 2) = [47, b] := by
          rw [List.append_assoc, List.drop_append]
          have : d.length + 1 + 1 - 2 - d.length = 0 := by omega
          rw [this]
          have : d.length + 1 + 1 - 2 = d.length := by omega
          rw [this, List.drop_length]; rfl
        rw [this] at h
        have hfirst := congrArg List.head? h
        simp [upper, upperC, Tape.str] at hfirst

theorem basename_upper_nodir (x : Str) (hx : 47 ∉ x) : basename (upper x) = upper x := by
  simpa using basename_upper_prefix [] x (Or.inl rfl) hx

theorem hasA_prefix_iff (pre base : Str) (hp : DirPrefix pre) :
    (upper ((pre ++ base).drop ((pre ++ base).length - 2)) = Tape.str ",A") ↔ (upper (base.drop (base.length - 2)) = Tape.str ",A") := by
  have := hasA_prefix pre base hp
  unfold hasA at this
  exact decide_eq_decide.mp this

/-- with the `,A` option the base name has at least two characters -/
theorem hasA_len (base : Str) (h : upper (base.drop (base.length - 2)) = Tape.str ",A") : 2 ≤ base.length := by
  have := congrArg List.length h
  simp [upper, Tape.str] at this
  omega

/-! ### the disk archivers' reading of a source argument -/

open Moto.Disk in
/-- **the catalog name, the extensions and the option of a source do not depend on its directory
    part; the path opened is the path given** (minus the option) -/
theorem splitSource_prefix (pre base : Str) (hp : DirPrefix pre) (hb : 47 ∉ base) :
    (splitSource (pre ++ base)).1 = (splitSource base).1
    ∧ (splitSource (pre ++ base)).2.1 = (splitSource base).2.1
    ∧ (splitSource (pre ++ base)).2.2.1 = (splitSource base).2.2.1
    ∧ (splitSource (pre ++ base)).2.2.2 = pre ++ (splitSource base).2.2.2 := by
  unfold splitSource
  dsimp only
  rw [dotPos_prefix pre base hp hb]
  have hiff := hasA_prefix_iff pre base hp
  have hclean : (if upper ((pre ++ base).drop ((pre ++ base).length - 2)) = Tape.str ",A" then (pre ++ base).take ((pre ++ base).length - 2) else pre ++ base)
      = pre ++ (if upper (base.drop (base.length - 2)) = Tape.str ",A" then base.take (base.length - 2) else base) := by
    by_cases hA : upper (base.drop (base.length - 2)) = Tape.str ",A"
    · rw [if_pos hA, if_pos (hiff.mpr hA)]
      have h2 := hasA_len base hA
      rw [List.length_append, List.take_append]
      have e1 : pre.length + base.length - 2 - pre.length = base.length - 2 := by omega
      rw [e1, List.take_of_length_le (by omega)]
    · rw [if_neg hA, if_neg (fun h => hA (hiff.mp h))]
  rw [hclean]
  generalize (if upper (base.drop (base.length - 2)) = Tape.str ",A" then base.take (base.length - 2) else base) = cb
  cases hd : rfindFrom 46 base (afterLast 47 base) with
  | none =>
    simp only [Option.map_none]
    refine ⟨?_, ?_, ?_, ?_⟩
    · rw [basename_upper_prefix pre base hp hb, basename_upper_nodir base hb]
    all_goals first | rfl | trivial
  | some dp =>
    simp only [Option.map_some]
    have hdp : dp < base.length ∨ True := Or.inr trivial
    refine ⟨?_, ?_, ?_, ?_⟩
    rotate_left 3
    · first | rfl | trivial
    · have ht : (pre ++ base).take (pre.length + dp) = pre ++ base.take dp := by
        rw [List.take_append]
        have : pre.length + dp - pre.length = dp := by omega
        rw [this, List.take_of_length_le (by omega)]
      rw [ht]
      have hbt : 47 ∉ base.take dp := fun h => hb (List.mem_of_mem_take h)
      rw [basename_upper_prefix pre _ hp hbt, basename_upper_nodir _ hbt]
    · have : (pre ++ cb).drop (pre.length + dp + 1) = cb.drop (dp + 1) := by
        rw [List.drop_append]
        have : pre.length + dp + 1 - pre.length = dp + 1 := by omega
        rw [this, List.drop_of_length_le (by omega)]; rfl
      rw [this]
    · have : (pre ++ base).drop (pre.length + dp + 1) = base.drop (dp + 1) := by
        rw [List.drop_append]
        have : pre.length + dp + 1 - pre.length = dp + 1 := by omega
        rw [this, List.drop_of_length_le (by omega)]; rfl
      rw [this]

/-- the end-of-side test looks at the base name only -/
theorem eos_prefix (pre base : Str) (hp : DirPrefix pre) (hb : 47 ∉ base) :
    basename (upper (pre ++ base)) = basename (upper base) := by
  rw [basename_upper_prefix pre base hp hb, basename_upper_nodir base hb]

/-! ### the tape archiver's reading of a source argument -/

open Moto.Tape in
/-- **the tape descriptor (name, extension, kind, mode) of a source does not depend on its directory
    part; the path opened is the path given** (minus the option) -/
theorem classifyRaw_prefix (pre base : Str) (hp : DirPrefix pre) (hb : 47 ∉ base) :
    (classifyRaw (pre ++ base)).1 = (classifyRaw base).1 ∧ (classifyRaw (pre ++ base)).2 = pre ++ (classifyRaw base).2 := by
  unfold classifyRaw
  dsimp only
  rw [dotPos_prefix pre base hp hb]
  cases hd : rfindFrom 46 base (afterLast 47 base) with
  | none =>
    simp only [Option.map_none]
    rw [basename_upper_prefix pre base hp hb, basename_upper_nodir base hb]
    refine ⟨?_, ?_⟩ <;> first | rfl | trivial
  | some dp =>
    simp only [Option.map_some]
    have ht : (pre ++ base).take (pre.length + dp) = pre ++ base.take dp := by
      rw [List.take_append]
      have : pre.length + dp - pre.length = dp := by omega
      rw [this, List.take_of_length_le (by omega)]
    have hbt : 47 ∉ base.take dp := fun h => hb (List.mem_of_mem_take h)
    have hdrop : (pre ++ base).drop (pre.length + dp + 1) = base.drop (dp + 1) := by
      rw [List.drop_append]
      have : pre.length + dp + 1 - pre.length = dp + 1 := by omega
      rw [this, List.drop_of_length_le (by omega)]; rfl
    rw [ht, hdrop, basename_upper_prefix pre _ hp hbt, basename_upper_nodir _ hbt]
    split
    · rename_i hA
      refine ⟨rfl, ?_⟩
      have hlen : 5 ≤ base.length := by
        have := congrArg List.length hA
        simp [upper, Tape.str] at this
        omega
      have htake : (pre ++ base).take ((pre ++ base).length - 2) = pre ++ base.take (base.length - 2) := by
        rw [List.length_append, List.take_append]
        have e1 : pre.length + base.length - 2 - pre.length = base.length - 2 := by omega
        rw [e1]
        have e2 : pre.take (pre.length + base.length - 2) = pre := List.take_of_length_le (by omega)
        rw [e2]
      rw [htake]
    · split
      · exact ⟨rfl, rfl⟩
      · split
        · exact ⟨rfl, rfl⟩
        · exact ⟨rfl, rfl⟩

open Moto.Tape in
theorem classify_prefix (pre base : Str) (hp : DirPrefix pre) (hb : 47 ∉ base) :
    (classify (pre ++ base)).1 = (classify base).1 ∧ (classify (pre ++ base)).2 = pre ++ (classify base).2 := by
  obtain ⟨h1, h2⟩ := classifyRaw_prefix pre base hp hb
  unfold classify
  dsimp only
  rw [h1, h2]
  exact ⟨rfl, rfl⟩

end Moto
