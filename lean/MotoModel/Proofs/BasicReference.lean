/-
  The tokenizer agrees with the reference encoder of the property on every delimited line.
-/
import MotoModel.Proofs.BasicDelimited
import MotoModel.Spec.BasicRef
namespace Moto.Basic
open Moto Moto.Spec

/-! ### the tool's table and rules are those of the reference -/

theorem tokens_eq : Gen.Tokens.tokens = BasicRef.mo5Tokens := by decide +kernel

theorem tokenOf_eq (s : Str) : tokenOf s = BasicRef.codeOf s := by
  unfold tokenOf BasicRef.codeOf
  rw [tokens_eq]

theorem isToken_eq (s : Str) : isToken s = (BasicRef.codeOf s).isSome := by
  unfold isToken
  rw [tokenOf_eq]

theorem code_bound : ∀ e ∈ BasicRef.mo5Tokens, e.2 ≤ 0xFFFF := by decide +kernel

theorem codeOf_bound (s : Str) (v : Nat) (h : BasicRef.codeOf s = some v) : v ≤ 0xFFFF := by
  unfold BasicRef.codeOf at h
  cases hf : BasicRef.mo5Tokens.find? (fun e => e.1 == s) with
  | none => simp [hf] at h
  | some e =>
    simp [hf] at h
    rw [← h]
    exact code_bound e (List.mem_of_find?_eq_some hf)

theorem requiresColon_eq (s : Str) : requiresColon s = decide (s = BasicRef.elseKw) := by
  unfold requiresColon
  have : Gen.Tokens.requireColon = [BasicRef.elseKw] := by decide
  rw [this]
  simp

theorem tokenBytes_eq (s : Str) (h : isToken s = true) : tokenBytes s = BasicRef.keywordBytes s := by
  rw [isToken_eq] at h
  unfold tokenBytes BasicRef.keywordBytes
  rw [tokenOf_eq, requiresColon_eq]
  cases hc : BasicRef.codeOf s with
  | none => rw [hc] at h; cases h
  | some v =>
    have hb := codeOf_bound s v hc
    simp only [Option.getD_some, decide_eq_true_eq]
    congr 1
    unfold bytesFromUint
    by_cases hv : v < 256
    · simp [hv, Nat.mod_eq_of_lt hv]
    · simp only [hv, if_false]
      have : v / 256 % 256 = v / 256 := Nat.mod_eq_of_lt (by omega)
      rw [this]

theorem fw_eq (W : Str) : fw W = BasicRef.flushWord W := by
  unfold fw BasicRef.flushWord
  by_cases h : isToken W = true
  · rw [if_pos h, tokenBytes_eq W h]
    rw [isToken_eq] at h
    rw [if_pos h]
  · have hf : isToken W = false := by simpa using h
    rw [hf, if_neg (by simp)]
    rw [isToken_eq] at hf
    rw [if_neg (by simp [hf])]

theorem isSpecial_eq (c : Nat) : isSpecial c = BasicRef.isPunct c := by
  unfold isSpecial BasicRef.isPunct
  have : Gen.Tokens.specialChars = [46, 44, 40, 41, 58, 59, 32] := by decide
  rw [this]
  simp only [List.contains_eq_mem, List.mem_cons, List.mem_nil_iff, or_false]
  by_cases h1 : c = 46 <;> by_cases h2 : c = 44 <;> by_cases h3 : c = 40 <;> by_cases h4 : c = 41 <;> by_cases h5 : c = 58 <;> by_cases h7 : c = 59 <;> by_cases h6 : c = 32 <;>
    simp [h1, h2, h3, h4, h5, h6, h7]

theorem isOperator_eq (c : Nat) : BasicRef.isOperator c = isToken [c] := by
  unfold BasicRef.isOperator
  rw [isToken_eq]

theorem isSep_eq (c : Nat) : BasicRef.isSep c = isSepM c := by
  unfold BasicRef.isSep isSepM
  rw [isSpecial_eq, isOperator_eq]

/-! ### words of the domain -/

/-- the condition the property puts on a word: exactly a keyword, or no keyword inside -/
def goodS (W : Str) : Bool := (BasicRef.codeOf W).isSome || !BasicRef.containsKeyword W

theorem startsWith_append (p x : Str) : startsWith p (p ++ x) = true := by
  induction p with
  | nil => rfl
  | cons a as ih => simp [startsWith, ih]

theorem wordChar_of_nonsep (ch : Nat) (h : BasicRef.isSep ch = false) : WordChar ch := by
  rw [isSep_eq] at h
  simp only [isSepM, Bool.or_eq_false_iff, beq_eq_false_iff_ne] at h
  exact ⟨h.2, h.1.1, upper_not_token ch h.1.2⟩

theorem upper_upper (w : Str) : upper (upper w) = upper w := by
  simp [upper, upperC_idem]

/-- a word of the domain, made of characters that are no separators, is a keyword or has no keyword
    among its prefixes -/
theorem goodM_of_goodS (w : Str) (hw : ∀ ch ∈ w, BasicRef.isSep ch = false) (hg : goodS (upper w) = true) : GoodM (upper w) := by
  by_cases ht : isToken (upper w) = true
  · exact Or.inr ht
  · have htf : isToken (upper w) = false := by simpa using ht
    refine Or.inl ⟨htf, ?_⟩
    intro n h0 hn
    cases hp : isToken ((upper w).take n) with
    | false => rfl
    | true =>
      exfalso
      obtain ⟨e, he, hek⟩ := isToken_mem' _ hp
      have hlen : e.1.length = n := by rw [hek]; simp; omega
      by_cases h1 : n = 1
      · -- a one-character token would be an operator
        subst h1
        cases hww : w with
        | nil => rw [hww] at hn; simp [upper] at hn
        | cons a as =>
          rw [hww] at hp
          simp only [upper_cons, List.take_succ_cons, List.take_zero] at hp
          have := (wordChar_of_nonsep a (hw a (by rw [hww]; simp))).2.2
          rw [this] at hp; cases hp
      · -- a longer one would be a keyword inside the word
        unfold goodS at hg
        rw [isToken_eq] at htf
        simp only [htf, Bool.false_or, Bool.not_eq_true'] at hg
        unfold BasicRef.containsKeyword at hg
        rw [List.any_eq_false] at hg
        have he' : e ∈ BasicRef.mo5Tokens := by rw [← tokens_eq]; exact he
        have := hg e he'
        simp only [Bool.and_eq_true, decide_eq_true_eq, not_and, Bool.not_eq_true] at this
        have h2 := this (by omega)
        rw [List.any_eq_false] at h2
        have h3 := h2 0 (by simp; omega)
        simp only [List.drop_zero, Bool.not_eq_true] at h3
        have : startsWith e.1 (upper w) = true := by
          have hsplit : upper w = (upper w).take n ++ (upper w).drop n := (List.take_append_drop n _).symm
          rw [hsplit, ← hek]
          exact startsWith_append _ _
        rw [this] at h3; cases h3

theorem upper_nil : upper [] = [] := rfl

/-! ### the simulation -/

theorem flushWord_nil : BasicRef.flushWord [] = [] := by decide +kernel

theorem wordEnd_fold (w : Str) (hw : ∀ ch ∈ w, BasicRef.isSep ch = false) (hg : goodS (upper w) = true) (c : Ctx) (hs : Start c) :
    ∃ c', w.foldl parseChar (c, false) = (c', false) ∧ WordEnd c c' (upper w) := by
  have hwc : ∀ ch ∈ w, WordChar ch := fun ch hc => wordChar_of_nonsep ch (hw ch hc)
  rw [fold_upper w c hwc]
  apply word_run (upper w) _ (upper_upper w) (goodM_of_goodS w hw hg) c hs
  intro ch hc
  simp only [upper, List.mem_map] at hc
  obtain ⟨a, ha, rfl⟩ := hc
  exact wordChar_upper a (hwc a ha)

/-- both claims at once, by induction on what is left of the line: outside a literal (a word `w`
    is being read from the start state `c`), and inside a literal -/
theorem simulation : ∀ (body : Str),
    (∀ (w : Str) (c : Ctx), (∀ ch ∈ w, BasicRef.isSep ch = false) → Start c →
        (BasicRef.wordsAux false (upper w) body).all goodS = true →
        (finish (body.foldl parseChar (w.foldl parseChar (c, false)))).done
          = c.done ++ c.cand ++ BasicRef.encodeRefAux false (upper w) body)
    ∧ (∀ (d : Bytes) (S B : Str), (BasicRef.wordsAux true [] body).all goodS = true →
        (finish (body.foldl parseChar (⟨d, [], S, B⟩, true))).done = d ++ B ++ BasicRef.encodeRefAux true [] body) := by
  intro body
  induction body with
  | nil =>
    constructor
    · intro w c hw hs hg
      simp only [BasicRef.wordsAux, List.all_cons, List.all_nil, Bool.and_true] at hg
      obtain ⟨c', hf, he⟩ := wordEnd_fold w hw hg c hs
      simp only [List.foldl_nil, hf, BasicRef.encodeRefAux]
      rw [end_after_word c c' _ he, fw_eq]
    · intro d S B _
      simp only [List.foldl_nil, BasicRef.encodeRefAux, flushWord_nil, List.append_nil]
      simp [finish, commit]
  | cons ch r ih =>
    obtain ⟨ih1, ih2⟩ := ih
    constructor
    · intro w c hw hs hg
      by_cases hsep : BasicRef.isSep ch = true
      · -- the word ends here
        simp only [BasicRef.wordsAux, hsep, if_true, List.all_cons, Bool.and_eq_true] at hg
        obtain ⟨hgw, hgr⟩ := hg
        obtain ⟨c', hf, he⟩ := wordEnd_fold w hw hgw c hs
        simp only [List.foldl_cons, hf]
        by_cases hq : ch = 34
        · subst hq
          rw [quote_after_word c c' _ he]
          have := ih2 (c.done ++ c.cand ++ fw (upper w) ++ [34]) [] [] (by simpa using hgr)
          rw [this]
          simp [BasicRef.encodeRefAux, fw_eq, List.append_assoc]
        · have hq' : (ch == 34) = false := by simpa using hq
          rw [hq'] at hgr
          by_cases hop : isToken [ch] = true
          · obtain ⟨c'', hp, hs'', heff⟩ := operator_after_word c c' _ hs he ch hop
            rw [hp]
            have := ih1 [] c'' (by simp) hs'' (by simpa [upper] using hgr)
            simp only [List.foldl_nil, upper_nil] at this
            rw [this, heff]
            have hopS : BasicRef.isOperator ch = true := by rw [isOperator_eq]; exact hop
            simp [BasicRef.encodeRefAux, hq, hopS, fw_eq, tokenBytes_eq [ch] hop, List.append_assoc]
          · have hopf : isToken [ch] = false := by simpa using hop
            have hsp : isSpecial ch = true := by
              rw [isSep_eq] at hsep
              simp only [isSepM, hopf, Bool.or_false, Bool.or_eq_true, beq_iff_eq] at hsep
              rcases hsep with h | h
              · exact h
              · exact absurd h hq
            rw [special_after_word c c' _ hs he ch hsp hq hopf]
            have := ih1 [] ⟨c.done ++ c.cand ++ fw (upper w) ++ [ch], [], [], []⟩ (by simp) ⟨rfl, Or.inl ⟨rfl, rfl⟩⟩ (by simpa [upper] using hgr)
            simp only [List.foldl_nil, upper_nil] at this
            rw [this]
            have hopS : BasicRef.isOperator ch = false := by rw [isOperator_eq]; exact hopf
            have hpS : BasicRef.isPunct ch = true := by rw [← isSpecial_eq]; exact hsp
            simp [BasicRef.encodeRefAux, hq, hopS, hpS, fw_eq, List.append_assoc]
      · -- the word goes on
        have hsepf : BasicRef.isSep ch = false := by simpa using hsep
        have hq : ch ≠ 34 := by
          intro e; subst e; simp [BasicRef.isSep] at hsepf
        have hopS : BasicRef.isOperator ch = false := by
          simp only [BasicRef.isSep, Bool.or_eq_false_iff] at hsepf; exact hsepf.1.2
        have hpS : BasicRef.isPunct ch = false := by
          simp only [BasicRef.isSep, Bool.or_eq_false_iff] at hsepf; exact hsepf.1.1
        simp only [BasicRef.wordsAux, hsepf, Bool.false_eq_true, if_false] at hg
        have := ih1 (w ++ [ch]) c (by
          intro x hx
          rcases List.mem_append.mp hx with h | h
          · exact hw x h
          · simp at h; rw [h]; exact hsepf) hs (by simpa [upper_append, upper] using hg)
        simp only [List.foldl_append, List.foldl_cons, List.foldl_nil] at this
        simp only [List.foldl_cons]
        rw [this]
        simp [BasicRef.encodeRefAux, hq, hopS, hpS, upper_append, upper]
    · intro d S B hg
      simp only [List.foldl_cons]
      by_cases hq : ch = 34
      · subst hq
        have hstep : parseChar (⟨d, [], S, B⟩, true) 34 = (⟨d ++ B ++ [34], [], [], []⟩, false) := by
          unfold parseChar
          simp only [if_true, Bool.not_true]
          have h1 : isToken ([] ++ [34]) = false := quote_not_token
          rw [appendAsToken_plain _ [34] (by simpa [commit] using h1) (by simpa [commit] using empty_not_token) quote_not_token]
          simp [commit, List.append_assoc]
        rw [hstep]
        have := ih1 [] ⟨d ++ B ++ [34], [], [], []⟩ (by simp) ⟨rfl, Or.inl ⟨rfl, rfl⟩⟩ (by simpa [BasicRef.wordsAux, upper] using hg)
        simp only [List.foldl_nil, upper_nil] at this
        rw [this]
        simp [BasicRef.encodeRefAux, List.append_assoc]
      · have hstep : parseChar (⟨d, [], S, B⟩, true) ch = (⟨d, [], S ++ [ch], B ++ [ch]⟩, true) := by
          unfold parseChar
          dsimp only
          rw [if_neg hq]
          simp [appendAsLiteral]
        rw [hstep]
        have hne : (ch != 34) = true := by simpa using hq
        have := ih2 d (S ++ [ch]) (B ++ [ch]) (by simpa [BasicRef.wordsAux, hne] using hg)
        rw [this]
        simp [BasicRef.encodeRefAux, hne, List.append_assoc]

/-- **every delimited line is encoded like the reference encoder** -/
theorem encodeBody_eq_encodeRef (body : Str) (h : BasicRef.delimited body = true) : encodeBody body = BasicRef.encodeRef body := by
  unfold encodeBody BasicRef.encodeRef
  have := (simulation body).1 [] {} (by simp) ⟨rfl, Or.inl ⟨rfl, rfl⟩⟩ (by
    unfold BasicRef.delimited at h
    simpa [upper, goodS] using h)
  simpa [upper] using this

end Moto.Basic
