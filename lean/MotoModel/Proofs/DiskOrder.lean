/-
  The catalog entry taken for a new file is the first one that is not live: on a fresh side the
  files of a batch occupy the slots 0, 1, 2, … in the order given.
-/
import MotoModel.Proofs.DiskSmall
import MotoModel.Proofs.DiskExtract
namespace Moto.Disk
open Moto Moto.Tape

/-- the slot found is the first whose data is not live -/
theorem findSlot_first (bat : List Nat) (f : Nat → Nat × Nat × Bytes) : ∀ (n k : Nat) (s st : Nat),
    findSlot bat ((List.range' k n).map f) = .ok (some (s, st)) →
    ∃ i, k ≤ i ∧ i < k + n ∧ (s, st) = ((f i).1, (f i).2.1) ∧ ¬ liveData (f i).2.2 ∧ ∀ j, k ≤ j → j < i → liveData (f j).2.2 := by
  intro n
  induction n with
  | zero => intro k s st h; simp [findSlot] at h
  | succ n ih =>
    intro k s st h
    rw [List.range'_succ, List.map_cons] at h
    generalize hf : f k = fk at h
    obtain ⟨s', st', data⟩ := fk
    simp only [findSlot] at h
    cases he : entryOfBytes data bat with
    | error e => rw [he] at h; cases h
    | ok en =>
      rw [he] at h
      dsimp only at h
      obtain ⟨e0, e2, e1⟩ := entryOfBytes_status data bat en he
      split at h
      · rename_i hst
        cases h
        refine ⟨k, Nat.le_refl _, by omega, by rw [hf], ?_, fun j h1 h2 => by omega⟩
        rw [hf]
        intro ⟨l1, l2⟩
        rcases hst with h0 | h2
        · exact l1 (e0.mp h0)
        · exact l2 (e2.mp h2).1
      · rename_i hst
        obtain ⟨i, hki, hin, hp, hnl, hpre⟩ := ih (k + 1) s st h
        refine ⟨i, by omega, by omega, hp, hnl, ?_⟩
        intro j h1 h2
        by_cases hjk : j = k
        · subst hjk
          rw [hf]
          have : en.status = 1 := by
            have hs := en.status
            -- the status is 0, 1 or 2
            unfold entryOfBytes at he
            dsimp only at he
            split at he
            · cases he; exact absurd (Or.inl rfl) hst
            · split at he
              · cases he; exact absurd (Or.inr rfl) hst
              · split at he
                · cases he
                · cases he; rfl
          exact e1.mp this
        · exact hpre j (by omega) h2

/-- **the slot a stored file takes is the first one that is not live** -/
theorem writeFile_first_slot {sd : Side} {bat : List Nat} {own : Nat → List Nat} (inv : SideInv sd bat own)
    (content : Bytes) (name ext : Str) (kind flag : Nat) (sd' : Side)
    (hw : writeFile sd content name ext kind flag = .ok sd') (i0 : Nat) (hi0 : i0 < 112)
    (hnl : ¬ liveData (slotData sd i0)) (hl : liveData (slotData sd' i0)) : ∀ j, j < i0 → liveData (slotData sd j) := by
  rw [writeFile_unfold sd bat content name ext kind flag inv.hbat inv.not_free40.1 inv.not_free40.2] at hw
  by_cases hfit : (chosen bat (reqBlocks content.length)).length < reqBlocks content.length
  · rw [if_pos hfit] at hw; cases hw
  · rw [if_neg hfit] at hw
    obtain ⟨h40, h41⟩ := inv.not_free40
    obtain ⟨hwmid, hbmid, hnblen, _⟩ := mid_facts sd bat content inv.wf inv.hbat h40 h41 hfit
    have hsmid := mid_slotData sd bat content inv.wf inv.hbat h40 h41 hfit
    cases hf : findSlot (newBat bat content) (slots (midSide sd bat content)) with
    | error e => rw [hf] at hw; cases hw
    | ok o =>
      rw [hf] at hw
      cases o with
      | none => cases hw
      | some p =>
        obtain ⟨s, st⟩ := p
        dsimp only at hw
        cases hw
        rw [slots_eq_map, List.range_eq_range'] at hf
        obtain ⟨i1, _, hi1, hp, hnl1, hpre⟩ := findSlot_first _ _ 112 0 s st hf
        simp only [Nat.zero_add] at hi1
        simp only [Prod.mk.injEq] at hp
        obtain ⟨hs, hst⟩ := hp
        subst hs hst
        have hrl : (newRecord name ext kind flag ((chosen bat (reqBlocks content.length)).getD 0 0) (lastBytesOf content.length)).length = 32 :=
          newRecord_length _ _ _ _ _ _
        obtain ⟨_, _, hs0, hsj⟩ := putSlot_facts (midSide sd bat content) hwmid i1 hi1 _ hrl
        have hii : i0 = i1 := by
          apply Classical.byContradiction
          intro hne
          have : slotData (doneSide sd bat content name ext kind flag (2 + i1 / 8) (32 * (i1 % 8))) i0 = slotData sd i0 := by
            unfold doneSide
            rw [hsj i0 hi0 hne, hsmid i0 hi0]
          rw [this] at hl
          exact hnl hl
        subst hii
        intro j hj
        have := hpre j (Nat.zero_le _) hj
        rw [← hsmid j (by omega)]
        exact this


/-- the first `k` catalog entries are live, the others are not -/
def Seq (k : Nat) (sd : Side) : Prop :=
  (∀ j, j < k → liveData (slotData sd j)) ∧ (∀ j, k ≤ j → j < 112 → ¬ liveData (slotData sd j))

theorem fileAt_none_iff {sd : Side} {bat : List Nat} {own : Nat → List Nat} (inv : SideInv sd bat own) (j : Nat) (hj : j < 112) :
    fileAt sd j = none ↔ ¬ liveData (slotData sd j) := by
  rw [fileAt_inv inv j hj]
  unfold entryAt
  by_cases hl : liveB (slotData sd j) = true
  · rw [if_pos hl]; simp [(liveB_iff _).mp hl]
  · rw [if_neg hl]
    simp only [Option.map_none, true_iff]
    exact fun h => hl ((liveB_iff _).mpr h)

/-- on a side whose first `k` entries are the live ones, a file that fits is stored in entry `k` -/
theorem store_at (name ext : Str) (kind flag : Nat) (data : Bytes) (hname : ∀ c ∈ name, c ≠ 0xFF)
    (st : Inj) (hcur : st.cur = 0) (B S k : Nat) (hroom : Room st.img (reqBlocks data.length + B) (1 + S))
    (hseq : Seq k (st.img.getD 0 [])) :
    ∃ st', injWriteFile name ext kind flag data 4 st = .ok st' ∧ st'.cur = 0 ∧ Room st'.img B S
      ∧ Seq (k + 1) (st'.img.getD 0 []) ∧ k < 112
      ∧ (∃ r, imgFileAt st'.img 0 k = some (r, data) ∧ IsRecordOf r name ext kind flag data.length)
      ∧ (∀ j, j < 112 → j ≠ k → imgFileAt st'.img 0 j = imgFileAt st.img 0 j)
      ∧ (∀ i, 1 ≤ i → st'.img.getD i [] = st.img.getD i []) := by
  obtain ⟨st', hst', hc', hroom', _, _, hsides⟩ := store_on_side0 name ext kind flag data hname st hcur B S hroom
  obtain ⟨h, bat, own, inv, hblocks, hslots⟩ := hroom
  have hfits : Fits (st.img.getD 0 []) bat data.length := ⟨by omega, not_full_of_count _ (by omega)⟩
  obtain ⟨sd0, hok0⟩ := (writeFile_ok_iff inv data name ext kind flag).mpr hfits
  rcases writeFile_inv inv data name ext kind flag hname with ⟨sd', i0, hw, hi0, hnl, inv', hs0, hsj, hflen⟩ | ⟨sd', msg, hw, _, _⟩
  · have hstep : injWriteFile name ext kind flag data 4 st
        = .ok { st with img := st.img.set st.cur sd', l := onEndOfFile (onBeginOfFile st.l (evOf name ext kind flag data)) (evOf name ext kind flag data) } := by
      show injWriteFile name ext kind flag data (3 + 1) st = _
      simp only [injWriteFile]
      rw [if_neg (by omega), hcur, hw]
      rfl
    rw [hstep] at hst'
    cases hst'
    have hside : (st.img.set st.cur sd').getD 0 [] = sd' := by rw [hcur]; exact getD_set_eq _ _ _ _ (by rw [h.1]; omega)
    have hl0 : liveData (slotData sd' i0) := by rw [hs0]; exact newRecord_live _ _ _ _ _ _ hname
    -- the entry taken is entry k
    have hpre := writeFile_first_slot inv data name ext kind flag sd' hw i0 hi0 hnl hl0
    have hik : i0 = k := by
      apply Classical.byContradiction
      intro hne
      rcases Nat.lt_or_gt_of_ne hne with hlt | hgt
      · exact hnl (hseq.1 i0 hlt)
      · exact hseq.2 k (Nat.le_refl _) (by omega) (hpre k hgt)
    subst hik
    refine ⟨_, hstep, hc', hroom', ?_, hi0, ?_, ?_, hsides⟩
    · dsimp only
      rw [hside]
      constructor
      · intro j hj
        by_cases hji : j = i0
        · subst hji; exact hl0
        · rw [hsj j (by omega) hji]; exact hseq.1 j (by omega)
      · intro j h1 h2
        rw [hsj j h2 (by omega)]
        exact hseq.2 j (by omega) h2
    · -- the file in entry k
      rcases writeFile_files inv data name ext kind flag hname with ⟨sd2, i1, hw2, hi1, hnone, hnew, hother⟩ | ⟨sd2, m2, hw2, _⟩
      · rw [hw] at hw2
        cases hw2
        have hi : i1 = i0 := by
          apply Classical.byContradiction
          intro hne
          have h1 := (fileAt_none_iff inv i1 hi1).mp hnone
          have h2 : liveData (slotData sd' i1) := by
            apply Classical.byContradiction
            intro hn
            have := (fileAt_none_iff inv' i1 hi1).mpr hn
            rw [hnew] at this; cases this
          rw [hsj i1 hi1 hne] at h2
          exact h1 h2
        subst hi
        dsimp only
        refine ⟨recordOfBytes (newRecord name ext kind flag ((chosen bat (reqBlocks data.length)).getD 0 0) (lastBytesOf data.length)), ?_,
          ⟨(chosen bat (reqBlocks data.length)).getD 0 0, rfl⟩⟩
        unfold imgFileAt
        rw [hside]; exact hnew
      · rw [hw] at hw2; cases hw2
    · intro j hj hne
      rcases writeFile_files inv data name ext kind flag hname with ⟨sd2, i1, hw2, hi1, hnone, hnew, hother⟩ | ⟨sd2, m2, hw2, _⟩
      · rw [hw] at hw2
        cases hw2
        have hi : i1 = i0 := by
          apply Classical.byContradiction
          intro hne'
          have h1 := (fileAt_none_iff inv i1 hi1).mp hnone
          have h2 : liveData (slotData sd' i1) := by
            apply Classical.byContradiction
            intro hn
            have := (fileAt_none_iff inv' i1 hi1).mpr hn
            rw [hnew] at this; cases this
          rw [hsj i1 hi1 hne'] at h2
          exact h1 h2
        subst hi
        dsimp only
        unfold imgFileAt
        rw [hside]
        exact hother j hj hne
      · rw [hw] at hw2; cases hw2
  · rw [hok0] at hw; cases hw


/-- the entry written for the source argument `src` holding `n` bytes -/
def RecOf (src : Str) (r : Bytes) (n : Nat) : Prop :=
  IsRecordOf r (splitSource src).1 (dispatch (splitSource src).1 (splitSource src).2.1 (splitSource src).2.2.1).2.2
    (dispatch (splitSource src).1 (splitSource src).2.1 (splitSource src).2.2.1).1
    (dispatch (splitSource src).1 (splitSource src).2.1 (splitSource src).2.2.1).2.1 n

/-- a batch that fits on side 0, read from a side whose first `k` entries are the live ones: the
    files land in the entries `k, k+1, …` in the order given -/
theorem injLoop_side0_order (w : Tape.World) : ∀ (items : List (Str × Bytes)) (st : Inj) (B S k : Nat), st.cur = 0 →
    (∀ p ∈ items, Storable w p.1 p.2) → Room st.img (batchBlocks items + B) (items.length + S) → Seq k (st.img.getD 0 []) → k ≤ 112 →
    ∃ st', injLoop w (items.map (·.1)) st = .ok st' ∧ st'.cur = 0 ∧ Room st'.img B S
      ∧ Seq (k + items.length) (st'.img.getD 0 []) ∧ k + items.length ≤ 112
      ∧ (∀ i, (hi : i < items.length) → ∃ r, imgFileAt st'.img 0 (k + i) = some (r, (items[i]).2) ∧ RecOf (items[i]).1 r (items[i]).2.length)
      ∧ (∀ j, j < 112 → (j < k ∨ k + items.length ≤ j) → imgFileAt st'.img 0 j = imgFileAt st.img 0 j)
      ∧ (∀ i, 1 ≤ i → st'.img.getD i [] = st.img.getD i []) := by
  intro items
  induction items with
  | nil =>
    intro st B S k hcur _ hroom hseq hk
    exact ⟨st, rfl, hcur, by simpa [batchBlocks] using hroom, by simpa using hseq, by simpa using hk, fun i hi => by simp at hi, fun _ _ _ => rfl, fun _ _ => rfl⟩
  | cons p rest ih =>
    intro st B S k hcur hall hroom hseq hk
    obtain ⟨src, data⟩ := p
    obtain ⟨hne, hw, h8, h3, hclean, hascii⟩ := hall (src, data) (by simp)
    dsimp only at hne hw h8 h3 hclean hascii
    have hname := splitSource_name_clean src hclean
    simp only [List.map_cons, injLoop]
    rw [if_neg hne]
    have hroom1 : Room st.img (reqBlocks data.length + (batchBlocks rest + B)) (1 + (rest.length + S)) := by
      obtain ⟨h, bat, own, inv, hb, hs⟩ := hroom
      refine ⟨h, bat, own, inv, ?_, ?_⟩
      · simp only [batchBlocks, List.map_cons, List.sum_cons] at hb ⊢; omega
      · simp only [List.length_cons] at hs; omega
    obtain ⟨s1, hs1, hc1, hr1, hseq1, hk112, ⟨r0, hf0, hrec0⟩, hother1, hsides1⟩ := store_at (splitSource src).1
      (dispatch (splitSource src).1 (splitSource src).2.1 (splitSource src).2.2.1).2.2
      (dispatch (splitSource src).1 (splitSource src).2.1 (splitSource src).2.2.1).1
      (dispatch (splitSource src).1 (splitSource src).2.1 (splitSource src).2.2.1).2.1 data hname st hcur _ _ k hroom1 hseq
    have hfile : injFile w src st = .ok (s1, true) := by
      unfold injFile
      dsimp only
      rw [hw]
      dsimp only
      rw [if_neg (Nat.not_lt.mpr h8), if_neg (Nat.not_lt.mpr h3), if_neg (by rw [hascii]; simp), hs1]
    rw [hfile]
    dsimp only
    rw [if_neg (by simp [hc1])]
    obtain ⟨st', h1, h2, h3', h4, h5, h6, h7, h8'⟩ := ih s1 B S (k + 1) hc1 (fun q hq => hall q (by simp [hq])) hr1 hseq1 (by omega)
    refine ⟨st', h1, h2, h3', ?_, ?_, ?_, ?_, ?_⟩
    · have : k + (rest.length + 1) = k + 1 + rest.length := by omega
      simp only [List.length_cons]; rw [this]; exact h4
    · simp only [List.length_cons]; omega
    · intro i hi
      cases i with
      | zero =>
        simp only [List.getElem_cons_zero, Nat.add_zero]
        rw [h7 k hk112 (Or.inl (by omega))]
        exact ⟨r0, hf0, hrec0⟩
      | succ i =>
        simp only [List.getElem_cons_succ]
        have hi' : i < rest.length := by simpa using hi
        obtain ⟨r, hr1', hr2⟩ := h6 i hi'
        have : k + (i + 1) = k + 1 + i := by omega
        rw [this]
        exact ⟨r, hr1', hr2⟩
    · intro j hj hcase
      simp only [List.length_cons] at hcase
      rw [h7 j hj (by omega), hother1 j hj (by omega)]
    · intro i hi; rw [h8' i hi, hsides1 i hi]


/-- the name under which a stored source is extracted: `NAME.EXT` read back from the entry bytes
    the tool writes for it -/
def diskName (src : Str) : Str :=
  fileNameOf ⟨1, recordOfBytes (newRecord (splitSource src).1
    (dispatch (splitSource src).1 (splitSource src).2.1 (splitSource src).2.2.1).2.2 0 0 0 0), []⟩

theorem fileNameOf_congr (r1 r2 : Bytes) (h : r1.take 11 = r2.take 11) : fileNameOf ⟨1, r1, []⟩ = fileNameOf ⟨1, r2, []⟩ := by
  have e8 : slice r2 0 8 = slice r1 0 8 := by rw [← slice_of_take r2 0 8 11 (by omega), ← h, slice_of_take _ _ _ _ (by omega)]
  have e3 : slice r2 8 11 = slice r1 8 11 := by rw [← slice_of_take r2 8 11 11 (by omega), ← h, slice_of_take _ _ _ _ (by omega)]
  unfold fileNameOf
  dsimp only
  rw [e8, e3]

theorem fileName_of_rec (src : Str) (r : Bytes) (n : Nat) (h : RecOf src r n) : fileNameOf ⟨1, r, []⟩ = diskName src := by
  obtain ⟨first, hr⟩ := h
  rw [hr]
  unfold diskName
  exact fileNameOf_congr _ _ (record_take11 _ _ _ _ _ _)

theorem filterMap_prefix {β} (f : Nat → Option β) (g : Nat → β) (n m : Nat) (hnm : n ≤ m)
    (h1 : ∀ i, i < n → f i = some (g i)) (h2 : ∀ i, n ≤ i → i < m → f i = none) :
    (List.range m).filterMap f = (List.range n).map g := by
  have hsplit : List.range m = List.range n ++ (List.range (m - n)).map (fun x => n + x) := by
    have : m = n + (m - n) := by omega
    rw [this, List.range_add]
    simp
  rw [hsplit, List.filterMap_append]
  have e1 : (List.range n).filterMap f = (List.range n).map g := by
    rw [← List.filterMap_eq_map]
    apply filterMap_congr'
    intro i hi
    exact h1 i (List.mem_range.mp hi)
  have e2 : ((List.range (m - n)).map (fun x => n + x)).filterMap f = [] := by
    rw [List.filterMap_eq_nil_iff]
    intro x hx
    obtain ⟨y, hy, rfl⟩ := List.mem_map.mp hx
    exact h2 _ (by omega) (by have := List.mem_range.mp hy; omega)
  rw [e1, e2, List.append_nil]


theorem fresh_getD (k : Nat) (hk : k < 4) : ((List.replicate 4 blankSide).map initFileSystem).getD k [] = freshSide := by
  rw [List.getD_eq_getElem?_getD, List.getElem?_map, List.getElem?_replicate, if_pos hk]
  simp only [Option.map_some, Option.getD_some, freshSide]

theorem fresh_seq : Seq 0 freshSide := by
  refine ⟨fun j hj => by omega, ?_⟩
  intro j _ hj hl
  exact hl.1 (fresh_slots_unused j hj)

theorem sideFiles_fresh (dir : Str) : sideFiles freshSide dir = [] := by
  unfold sideFiles
  rw [List.filterMap_eq_nil_iff]
  intro j hj
  have hj' := List.mem_range.mp hj
  have : fileAt freshSide j = none := (fileAt_none_iff fresh_inv j hj').mpr (fun hl => hl.1 (fresh_slots_unused j hj'))
  rw [this]; rfl

/-- the files of an image whose side 0 holds `items` in its first entries (nothing after) and whose
    other sides are fresh -/
theorem sidesFiles_side0 (target : Str) (img : Image) (items : List (Str × Bytes)) (h4 : img.length = 4) (hS : items.length ≤ 112)
    (hfiles : ∀ i, (hi : i < items.length) → ∃ r, imgFileAt img 0 i = some (r, (items[i]).2) ∧ RecOf (items[i]).1 r (items[i]).2.length)
    (hrest : ∀ j, j < 112 → (j < 0 ∨ items.length ≤ j) → imgFileAt img 0 j = none)
    (hsides : ∀ i, 1 ≤ i → img.getD i [] = ((List.replicate 4 blankSide).map initFileSystem).getD i []) :
    sidesFiles target img 0
      = items.map (fun p => (pathJoin (pathJoin target (str "side" ++ digits 0)) (diskName p.1), p.2)) := by
  obtain ⟨a, b, c, d, himg⟩ : ∃ a b c d, img = [a, b, c, d] := by
    match hm : img, h4 with
    | [a, b, c, d], _ => exact ⟨a, b, c, d, rfl⟩
  have hb : b = freshSide := by
    have := hsides 1 (by omega)
    rw [himg] at this
    rw [fresh_getD 1 (by omega)] at this
    exact this
  have hc : c = freshSide := by
    have := hsides 2 (by omega)
    rw [himg] at this
    rw [fresh_getD 2 (by omega)] at this
    exact this
  have hd : d = freshSide := by
    have := hsides 3 (by omega)
    rw [himg] at this
    rw [fresh_getD 3 (by omega)] at this
    exact this
  have ha : img.getD 0 [] = a := by rw [himg]; rfl
  rw [himg, hb, hc, hd]
  simp only [sidesFiles, sideFiles_fresh, List.append_nil]
  -- side 0: the entries 0 … n-1 hold the sources in order, the others nothing
  unfold sideFiles
  rw [filterMap_prefix _ (fun i => (pathJoin (pathJoin target (str "side" ++ digits 0)) (diskName (items.getD i ([], [])).1), (items.getD i ([], [])).2))
    items.length 112 hS]
  · apply List.ext_getElem
    · simp
    · intro i h1 h2
      simp only [List.getElem_map, List.getElem_range]
      have hi : i < items.length := by simpa using h1
      rw [List.getD_eq_getElem?_getD, List.getElem?_eq_getElem hi]
      rfl
  · intro i hi
    obtain ⟨r, hr1, hr2⟩ := hfiles i hi
    unfold imgFileAt at hr1
    rw [ha] at hr1
    rw [hr1]
    simp only [Option.map_some]
    rw [fileName_of_rec _ r _ hr2, List.getD_eq_getElem?_getD, List.getElem?_eq_getElem hi]
    rfl
  · intro i h1 h2
    have := hrest i h2 (Or.inr h1)
    unfold imgFileAt at this
    rw [ha] at this
    rw [this]; rfl


/-- **a batch that fits on the first side is extracted in the order given**: the image `--create`
    writes holds source `i` in catalog entry `i` of side 0, nothing else anywhere, and `--extract`
    writes exactly `side0/NAME.EXT` for each source, in the order of the command line, with its data -/
theorem small_batch_in_order (fl : Flavour) (w : Tape.World) (verbose : Bool) (archive : Str) (items : List (Str × Bytes))
    (hall : ∀ p ∈ items, Storable w p.1 p.2) (hord : ∀ p ∈ items, OrdinarySrc p.1)
    (hB : batchBlocks items ≤ 157) (hS : items.length ≤ 112) (verbose2 : Bool) (into : Option Str)
    (hk : ∀ p ∈ items, samePath (pathJoin (pathJoin (Tape.targetDirOf archive into) (str "side" ++ digits 0)) (diskName p.1)) archive = false) :
    ∃ img, ImgOk img
      ∧ (create fl w verbose archive (items.map (·.1))).writes = [(archive, save fl img)]
      ∧ (∀ i, (hi : i < items.length) → ∃ r, imgFileAt img 0 i = some (r, (items[i]).2) ∧ RecOf (items[i]).1 r (items[i]).2.length)
      ∧ (extract fl verbose2 archive into (save fl img)).status = .ret 0
      ∧ (extract fl verbose2 archive into (save fl img)).writes
          = items.map (fun p => (pathJoin (pathJoin (Tape.targetDirOf archive into) (str "side" ++ digits 0)) (diskName p.1), p.2)) := by
  have hclean : ∀ s ∈ items.map (·.1), CleanSrc s := fun s hs => by
    obtain ⟨p, hp, rfl⟩ := List.mem_map.mp hs; exact (hall p hp).2.2.2.2.1
  have hords : ∀ s ∈ items.map (·.1), OrdinarySrc s := fun s hs => by
    obtain ⟨p, hp, rfl⟩ := List.mem_map.mp hs; exact hord p hp
  obtain ⟨st, hst, hok, _, hof⟩ := performCore_files w verbose _ (items.map (·.1)) fresh_img_ok hclean
  obtain ⟨s1, hl, _, _, hseq, _, hfiles, hrest, hsides⟩ := injLoop_side0_order w items
    { img := (List.replicate 4 blankSide).map initFileSystem, cur := 0, l := mute } 0 0 0 rfl hall
    (by simpa using fresh_room (batchBlocks items) items.length hB hS) (by show Seq 0 _; rw [fresh_getD 0 (by omega)]; exact fresh_seq) (by omega)
  have himgeq : st.img = s1.img := performCore_img w verbose _ _ st s1 fresh_img_ok hclean hst hl
  have hnice : ∀ k, k < 4 → NiceSide (st.img.getD k []) := by
    apply nice_after hof _ hords
    intro k hk j f hj hf
    have := fresh_no_file k j hk hj
    unfold imgFileAt at this
    rw [this] at hf; cases hf
  simp only [Nat.zero_add] at hfiles hseq hrest
  have hsf := sidesFiles_side0 (Tape.targetDirOf archive into) st.img items hok.1 hS
    (fun i hi => by rw [himgeq]; exact hfiles i hi)
    (fun j hj hjj => by have := hrest j hj hjj; rw [← himgeq, fresh_no_file 0 j (by omega) hj] at this; exact this)
    (fun i hi => by have := hsides i hi; rw [← himgeq] at this; exact this)
  obtain ⟨hx1, hx2⟩ := extract_consistent fl verbose2 archive into st.img hok hnice
    (by rw [hsf]; intro p hp; obtain ⟨q, hq, hpq⟩ := List.mem_map.mp hp; rw [← hpq]; dsimp only; exact hk q hq)
  refine ⟨st.img, hok, ?_, ?_, hx1, ?_⟩
  · unfold create performOn; rw [if_neg (by simp), hst]
  · intro i hi; rw [himgeq]; exact hfiles i hi
  · rw [hx2]; exact hsf

/-! ### a catalog filled by the tool has no hole: each stored file goes right after the earlier ones -/

/-- **a stored file is appended to the catalog**: on a side whose live entries are exactly the first `n`,
    a successful `writeFile` puts the new entry in slot `n` and the live entries are then the first `n + 1`;
    a refused one leaves the first `n` -/
theorem writeFile_appends {sd : Side} {bat : List Nat} {own : Nat → List Nat} (inv : SideInv sd bat own) (n : Nat) (hn : n ≤ 112) (hseq : Seq n sd)
    (content : Bytes) (name ext : Str) (kind flag : Nat) (hname : ∀ c ∈ name, c ≠ 0xFF) :
    (∃ sd', writeFile sd content name ext kind flag = .ok sd' ∧ n < 112 ∧ Seq (n + 1) sd'
        ∧ slotData sd' n = newRecord name ext kind flag ((chosen bat (reqBlocks content.length)).getD 0 0) (lastBytesOf content.length))
    ∨ (∃ sd' msg, writeFile sd content name ext kind flag = .raised (.valueError msg) sd' ∧ Seq n sd') := by
  rcases writeFile_inv inv content name ext kind flag hname with ⟨sd', i0, hw, hi0, hnl, _, hs0, hsj, _⟩ | ⟨sd', msg, hw, _, hs⟩
  · left
    have hlive : liveData (slotData sd' i0) := by rw [hs0]; exact newRecord_live _ _ _ _ _ _ hname
    have hpre := writeFile_first_slot inv content name ext kind flag sd' hw i0 hi0 hnl hlive
    have hge : n ≤ i0 := by
      apply Classical.byContradiction
      intro h
      exact hnl (hseq.1 i0 (by omega))
    have hle : i0 ≤ n := by
      apply Classical.byContradiction
      intro h
      exact hseq.2 n (Nat.le_refl _) (by omega) (hpre n (by omega))
    have hin : i0 = n := by omega
    subst hin
    refine ⟨sd', hw, hi0, ⟨?_, ?_⟩, hs0⟩
    · intro j hj
      by_cases hji : j = i0
      · rw [hji]; exact hlive
      · rw [hsj j (by omega) hji]; exact hseq.1 j (by omega)
    · intro j hj hj112
      rw [hsj j hj112 (by omega)]
      exact hseq.2 j (by omega) hj112
  · right
    refine ⟨sd', msg, hw, ⟨?_, ?_⟩⟩
    · intro j hj
      have : j < 112 := by omega
      rw [hs j this]; exact hseq.1 j hj
    · intro j hj hj112
      rw [hs j hj112]; exact hseq.2 j hj hj112

/-- the live entries of the side are exactly its first `n`, for some `n ≤ 112` -/
def Prefix (sd : Side) : Prop := ∃ n, n ≤ 112 ∧ Seq n sd

theorem prefix_preserved : SidePreserved Prefix := by
  intro sd bat own inv hP content name ext kind flag hname
  obtain ⟨n, hn, hseq⟩ := hP
  rcases writeFile_appends inv n hn hseq content name ext kind flag hname with ⟨sd', hw, hn', hs, _⟩ | ⟨sd', msg, hw, hs⟩
  · rw [hw]; exact ⟨n + 1, by omega, hs⟩
  · rw [hw]; exact ⟨n, hn, hs⟩

/-- **the catalogs of a created image have no hole**: whatever the batch, on every side of the image
    `--create` writes the live entries are exactly the first `n` of the catalog — each stored file was
    appended after the files stored before it on that side, so catalog order (the order of `--list` and
    `--extract`) is the order in which the files were stored -/
theorem create_prefix (w : Tape.World) (verbose : Bool) (srcs : List Str) (hs : ∀ src ∈ srcs, CleanSrc src) :
    ∃ st, performCore w verbose ((List.replicate 4 blankSide).map initFileSystem) srcs = .ok st ∧ ImgOk st.img
      ∧ ∀ k, k < 4 → Prefix (st.img.getD k []) := by
  have h0 : ImgAllI (fun _ => Prefix) ((List.replicate 4 blankSide).map initFileSystem) := by
    intro k hk
    show Prefix _
    rw [fresh_getD k hk]
    exact ⟨0, by omega, fresh_seq⟩
  obtain ⟨st, hst, hok, hp⟩ := performCore_presI (P := fun _ => Prefix) (fun _ => prefix_preserved) w verbose _ srcs fresh_img_ok h0 hs
  exact ⟨st, hst, hok, hp⟩

/-- … and `--add` keeps it so: a batch on an image whose catalogs have no hole yields catalogs without hole -/
theorem batch_prefix (w : Tape.World) (verbose : Bool) (img : Image) (srcs : List Str) (himg : ImgOk img)
    (hp : ∀ k, k < 4 → Prefix (img.getD k [])) (hs : ∀ src ∈ srcs, CleanSrc src) :
    ∃ st, performCore w verbose img srcs = .ok st ∧ ImgOk st.img ∧ ∀ k, k < 4 → Prefix (st.img.getD k []) :=
  performCore_presI (P := fun _ => Prefix) (fun _ => prefix_preserved) w verbose img srcs himg hp hs

end Moto.Disk
