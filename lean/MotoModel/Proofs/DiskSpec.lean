/-
  The independent decoder `Spec.Dos` (written from the layout description) reads, on every
  consistent side, exactly what the tools' own reader reads; and it accepts every consistent side.
-/
import MotoModel.Proofs.DiskExtract
import MotoModel.Spec.Dos
namespace Moto.Disk
open Moto

theorem spec_sector (sd : Side) (t s : Nat) : Spec.Dos.sector sd t s = getSector sd t s := rfl

theorem spec_blockSector (sd : Side) (b s : Nat) :
    Spec.Dos.blockSector sd b s = getSector sd (blockTrack b) (blockFirstSector b + s) := by
  unfold Spec.Dos.blockSector Spec.Dos.sector getSector idx blockTrack blockFirstSector
  have : Gen.Disk.sectorsPerTrack = 16 := rfl
  rw [this, Nat.mul_comm 8 (b % 2)]

/-- the layout's table is the table the tools decode -/
theorem spec_table (sd : Side) (bat : List Nat) (hw : C11.WFSide sd) (hb : getBat sd = .ok bat) : Spec.Dos.table sd = bat := by
  unfold Spec.Dos.table
  rw [spec_sector]
  have hs := getBat_sector sd bat hw hb
  have hlen := getBat_length sd bat hb
  have h20 : getSector sd 20 1 = getSector sd batTrack batSector := rfl
  rw [h20]
  have h1 : ((getSector sd batTrack batSector).take 1).length = 1 := by
    have hidx : idx batTrack batSector < sd.length := by rw [hw.1]; decide
    have hm : getSector sd batTrack batSector ∈ sd := by
      unfold getSector
      rw [List.getD_eq_getElem?_getD, List.getElem?_eq_getElem hidx]; simp
    have := hw.2 _ hm
    simp; omega
  generalize getSector sd batTrack batSector = sec at hs h1
  rw [← hs, List.append_assoc, List.drop_left' h1, List.take_left' hlen]

theorem pairs_14_8 : ((List.range 14).flatMap fun k => (List.range 8).map fun j => (k, j))
    = (List.range 112).map (fun i => (i / 8, i % 8)) := by decide +kernel

/-- the layout's 112 entries are the 112 slots the tools scan, in the same order -/
theorem spec_entries (sd : Side) : Spec.Dos.entries sd = (List.range 112).map (slotData sd) := by
  have e : Spec.Dos.entries sd = ((List.range 14).flatMap fun k => (List.range 8).map fun j => (k, j)).map
      (fun p => ((Spec.Dos.sector sd 20 (2 + p.1)).drop (32 * p.2)).take 32) := by
    simp [Spec.Dos.entries, List.map_flatMap, List.map_map, Function.comp_def]
  rw [e, pairs_14_8, List.map_map]
  apply List.map_congr_left
  intro i _
  simp only [Function.comp, spec_sector, slotData, slice]
  have : 32 * (i % 8) + 32 - 32 * (i % 8) = 32 := by omega
  rw [this]
  rfl

theorem spec_live (d : Bytes) : Spec.Dos.live d = liveB d := by
  unfold Spec.Dos.live liveB
  rw [Bool.and_comm]

/-- the layout's chain follower finds a linked chain -/
theorem chainFrom_linked (tab : List Nat) (htab : tab.length = 160) (u : Nat) (h1 : 1 ≤ u) (h8 : u ≤ 8) (rest : List Nat) :
    ∀ (b : Nat) (seen : List Nat) (fuel : Nat), Linked tab (b :: rest) u → (∀ x ∈ b :: rest, x < 160) →
    (b :: rest).Nodup → (∀ x ∈ b :: rest, x ∉ seen) → rest.length < fuel →
    Spec.Dos.chainFrom tab fuel b seen = some (seen ++ b :: rest) := by
  induction rest with
  | nil =>
    intro b seen fuel hl hlt _ hseen hf
    cases fuel with
    | zero => omega
    | succ f =>
      simp only [Linked] at hl
      have hb := hlt b (by simp)
      have hns : seen.contains b = false := by simpa using hseen b (by simp)
      simp only [Spec.Dos.chainFrom]
      rw [if_neg (by simp only [hns, Bool.or_false, decide_eq_true_eq]; omega)]
      have hg : tab.getD b 0xFF = 0xC0 + u := by
        have hne : tab.getD b 0 ≠ 0 := by rw [hl]; omega
        rw [List.getD_eq_getElem?_getD] at hl hne ⊢
        cases hq : tab[b]? with
        | none => rw [hq] at hne; simp at hne
        | some v => rw [hq] at hl; simpa using hl
      rw [hg]
      rw [if_neg (by simp; omega), if_pos (by simp; omega)]
  | cons c rest' ih =>
    intro b seen fuel hl hlt hnd hseen hf
    cases fuel with
    | zero => simp at hf
    | succ f =>
      simp only [Linked] at hl
      have hb := hlt b (by simp)
      have hc := hlt c (by simp)
      have hns : seen.contains b = false := by simpa using hseen b (by simp)
      simp only [Spec.Dos.chainFrom]
      rw [if_neg (by simp only [hns, Bool.or_false, decide_eq_true_eq]; omega)]
      have hg : tab.getD b 0xFF = c := by
        have hlen : b < tab.length := by omega
        rw [List.getD_eq_getElem?_getD, List.getElem?_eq_getElem hlen] at hl ⊢; simpa using hl.1
      rw [hg]
      have hcs := small_not_special c hc
      rw [if_neg (by simp; omega), if_neg (by simp; omega), if_pos hc]
      have hnd' := (List.nodup_cons.mp hnd).2
      have hbn := (List.nodup_cons.mp hnd).1
      rw [ih c (seen ++ [b]) f hl.2 (fun x hx => hlt x (by simp [hx])) hnd'
        (by
          intro x hx
          simp only [List.mem_append, List.mem_singleton, not_or]
          exact ⟨hseen x (by simp [hx]), fun h => hbn (h ▸ hx)⟩)
        (by simp at hf; omega)]
      simp

/-! ### content -/

theorem flatMap_congr' {α β} (l : List α) (f g : α → List β) (h : ∀ x ∈ l, f x = g x) : l.flatMap f = l.flatMap g := by
  induction l with
  | nil => rfl
  | cons x xs ih => simp only [List.flatMap_cons, h x (by simp), ih (fun y hy => h y (by simp [hy]))]

theorem blockPieces_full (sd : Side) (b : Nat) :
    blockPieces sd b 8 255 8 = (List.range 8).flatMap fun s => (Spec.Dos.blockSector sd b s).take 255 := by
  unfold blockPieces
  apply flatMap_congr'
  intro s _
  rw [spec_blockSector]
  unfold pieceLen
  split <;> rfl

theorem blockPieces_last (sd : Side) (b u lb : Nat) (h1 : 1 ≤ u) :
    blockPieces sd b u lb u = ((List.range (u - 1)).flatMap fun s => (Spec.Dos.blockSector sd b s).take 255)
      ++ (Spec.Dos.blockSector sd b (u - 1)).take lb := by
  obtain ⟨v, rfl⟩ : ∃ v, u = v + 1 := ⟨u - 1, by omega⟩
  rw [blockPieces_succ]
  simp only [Nat.add_sub_cancel]
  congr 1
  · unfold blockPieces
    apply flatMap_congr'
    intro s hs
    have hs' : s < v := List.mem_range.mp hs
    rw [spec_blockSector]
    unfold pieceLen
    rw [if_neg (by omega)]
  · rw [spec_blockSector]
    unfold pieceLen
    rw [if_pos rfl]

theorem contentOf_cons (sd : Side) (b c : Nat) (rest : List Nat) (u lb : Nat) :
    Spec.Dos.contentOf sd (b :: c :: rest) u lb
      = ((List.range 8).flatMap fun s => (Spec.Dos.blockSector sd b s).take 255) ++ Spec.Dos.contentOf sd (c :: rest) u lb := by
  unfold Spec.Dos.contentOf
  have hl : (b :: c :: rest).getLast? = (c :: rest).getLast? := by simp [List.getLast?_cons_cons]
  rw [hl]
  cases hq : (c :: rest).getLast? with
  | none => simp at hq
  | some l =>
    simp only [List.dropLast_cons_cons, List.flatMap_cons, List.append_assoc]

/-- the bytes the tools' reader collects are the bytes the layout assigns to the chain -/
theorem piecesFrom_contentOf (sd : Side) (u lb : Nat) (h1 : 1 ≤ u) : ∀ (ch : List Nat) (i : Nat), ch ≠ [] →
    piecesFrom sd u lb (i + ch.length - 1) ch i = Spec.Dos.contentOf sd ch u lb := by
  intro ch
  induction ch with
  | nil => intro i h; exact absurd rfl h
  | cons b rest ih =>
    intro i _
    cases rest with
    | nil =>
      simp only [piecesFrom, List.length_cons, List.length_nil]
      rw [if_pos (by omega), blockPieces_last sd b u lb h1]
      simp [Spec.Dos.contentOf]
    | cons c rest' =>
      rw [contentOf_cons]
      simp only [piecesFrom]
      rw [if_neg (by simp), blockPieces_full]
      have := ih (i + 1) (by simp)
      simp only [List.length_cons] at this ⊢
      have e : i + 1 + (rest'.length + 1) - 1 = i + (rest'.length + 1 + 1) - 1 := by omega
      rw [e] at this
      simp only [piecesFrom] at this
      rw [this]

theorem blockPieces_full_length (sd : Side) (hw : C11.WFSide sd) (b : Nat) (hb : b < 160) : (blockPieces sd b 8 255 8).length = 2040 := by
  unfold blockPieces
  rw [C11.flatMap_length_const _ _ 255]
  · simp
  · intro s hs
    have hs8 : s < 8 := List.mem_range.mp hs
    rw [piece_length sd hw b s 8 255 hb hs8 (by omega)]
    unfold pieceLen; split <;> rfl

theorem blockPieces_last_length (sd : Side) (hw : C11.WFSide sd) (b u lb : Nat) (hb : b < 160) (h1 : 1 ≤ u) (h8 : u ≤ 8) (hlb : lb ≤ 256) :
    (blockPieces sd b u lb u).length = 255 * (u - 1) + lb := by
  obtain ⟨v, rfl⟩ : ∃ v, u = v + 1 := ⟨u - 1, by omega⟩
  rw [blockPieces_succ, List.length_append]
  simp only [Nat.add_sub_cancel]
  have e1 : (blockPieces sd b (v + 1) lb v).length = v * 255 := by
    unfold blockPieces
    have := C11.flatMap_length_const (List.range v)
      (fun s => (getSector sd (blockTrack b) (blockFirstSector b + s)).take (pieceLen (v + 1) lb s)) 255 (by
        intro s hs
        have hs' : s < v := List.mem_range.mp hs
        rw [piece_length sd hw b s (v + 1) lb hb (by omega) hlb]
        unfold pieceLen; rw [if_neg (by omega)])
    rw [this]; simp
  rw [e1, piece_length sd hw b v (v + 1) lb hb (by omega) hlb]
  unfold pieceLen
  rw [if_pos rfl]
  omega

theorem piecesFrom_length (sd : Side) (hw : C11.WFSide sd) (u lb : Nat) (h1 : 1 ≤ u) (h8 : u ≤ 8) (hlb : lb ≤ 256) :
    ∀ (ch : List Nat) (i : Nat), ch ≠ [] → (∀ b ∈ ch, b < 160) →
    (piecesFrom sd u lb (i + ch.length - 1) ch i).length = 2040 * (ch.length - 1) + 255 * (u - 1) + lb := by
  intro ch
  induction ch with
  | nil => intro i h; exact absurd rfl h
  | cons b rest ih =>
    intro i _ hlt
    have hb := hlt b (by simp)
    cases rest with
    | nil =>
      simp only [piecesFrom, List.length_cons, List.length_nil]
      rw [if_pos (by omega), List.append_nil, blockPieces_last_length sd hw b u lb hb h1 h8 hlb]
      omega
    | cons c rest' =>
      simp only [piecesFrom]
      rw [if_neg (by simp)]
      have := ih (i + 1) (by simp) (fun x hx => hlt x (by simp [hx]))
      simp only [List.length_cons] at this ⊢
      have e : i + 1 + (rest'.length + 1) - 1 = i + (rest'.length + 1 + 1) - 1 := by omega
      rw [e] at this
      simp only [piecesFrom] at this
      rw [List.length_append, blockPieces_full_length sd hw b hb, this]
      omega

/-- **the tools' reader and the layout agree on content**: for a chain inside the table whose last
    block carries `C0 + u` and an entry with at most 255 bytes in the last sector, `readFile` returns
    the bytes the layout description assigns to the chain. -/
theorem readFile_contentOf (sd : Side) (hw : C11.WFSide sd) (bat : List Nat) (e : Entry) (u : Nat) (h1 : 1 ≤ u) (h8 : u ≤ 8)
    (hne : e.blocks ≠ []) (hlt : ∀ b ∈ e.blocks, b < 160)
    (hlast : ∀ last, e.blocks.getLast? = some last → bat.getD last 0 = 0xC0 + u) (hlb : e.lastBytes ≤ 255) :
    readFile sd bat e = Spec.Dos.contentOf sd e.blocks u e.lastBytes := by
  unfold readFile
  cases hl : e.blocks.getLast? with
  | none => rw [List.getLast?_eq_none_iff] at hl; exact absurd hl hne
  | some last =>
    dsimp only
    have hst := hlast last hl
    have hu : bat.getD last 0 - Gen.Disk.bsLastBlock = u := by
      rw [hst]; have : Gen.Disk.bsLastBlock = 192 := rfl; rw [this]; omega
    rw [hu]
    have hsize := sizeInBytes_of bat e last u h8 hl hst
    have hpl := piecesFrom_length sd hw u e.lastBytes h1 h8 (by omega) e.blocks 0 hne hlt
    have hpc := piecesFrom_contentOf sd u e.lastBytes h1 e.blocks 0 hne
    rw [Nat.zero_add] at hpl hpc
    have hn1 : 1 ≤ e.blocks.length := by
      cases hb : e.blocks with
      | nil => exact absurd hb hne
      | cons _ _ => simp
    have heq : (piecesFrom sd u e.lastBytes (e.blocks.length - 1) e.blocks 0).length = sizeInBytes bat e := by
      rw [hpl, hsize]
      generalize e.blocks.length = n at hn1
      generalize e.lastBytes = lb
      obtain ⟨m, rfl⟩ : ∃ m, n = m + 1 := ⟨n - 1, by omega⟩
      obtain ⟨v, rfl⟩ : ∃ v, u = v + 1 := ⟨u - 1, by omega⟩
      simp only [Nat.add_sub_cancel]
      have : (8 * m + (v + 1) - 1) * 255 = 2040 * m + 255 * v := by
        have : 8 * m + (v + 1) - 1 = 8 * m + v := by omega
        rw [this, Nat.add_mul]; omega
      rw [this]
    have hfill := go_fill sd hw u e.lastBytes (e.blocks.length - 1) h8 (by omega) e.blocks 0
      (List.replicate (sizeInBytes bat e) 0, 0) [] (sizeInBytes bat e) ⟨by simp, rfl⟩ hlt (by rw [heq]; exact Nat.le_refl _)
    obtain ⟨hf1, _⟩ := hfill
    rw [hf1, heq, Nat.sub_self, ← hpc]
    simp

/-- … and the size announced for the entry is the length of what is read -/
theorem readFile_length (sd : Side) (hw : C11.WFSide sd) (bat : List Nat) (e : Entry) (u : Nat) (h1 : 1 ≤ u) (h8 : u ≤ 8)
    (hne : e.blocks ≠ []) (hlt : ∀ b ∈ e.blocks, b < 160)
    (hlast : ∀ last, e.blocks.getLast? = some last → bat.getD last 0 = 0xC0 + u) (hlb : e.lastBytes ≤ 255) :
    (readFile sd bat e).length = sizeInBytes bat e := by
  unfold readFile
  cases hl : e.blocks.getLast? with
  | none => rw [List.getLast?_eq_none_iff] at hl; exact absurd hl hne
  | some last =>
    dsimp only
    have hst := hlast last hl
    have hu : bat.getD last 0 - Gen.Disk.bsLastBlock = u := by
      rw [hst]; have : Gen.Disk.bsLastBlock = 192 := rfl; rw [this]; omega
    rw [hu]
    have hsize := sizeInBytes_of bat e last u h8 hl hst
    have hpl := piecesFrom_length sd hw u e.lastBytes h1 h8 (by omega) e.blocks 0 hne hlt
    have hpc := piecesFrom_contentOf sd u e.lastBytes h1 e.blocks 0 hne
    rw [Nat.zero_add] at hpl hpc
    have hn1 : 1 ≤ e.blocks.length := by
      cases hb : e.blocks with
      | nil => exact absurd hb hne
      | cons _ _ => simp
    have heq : (piecesFrom sd u e.lastBytes (e.blocks.length - 1) e.blocks 0).length = sizeInBytes bat e := by
      rw [hpl, hsize]
      generalize e.blocks.length = n at hn1
      generalize e.lastBytes = lb
      obtain ⟨m, rfl⟩ : ∃ m, n = m + 1 := ⟨n - 1, by omega⟩
      obtain ⟨v, rfl⟩ : ∃ v, u = v + 1 := ⟨u - 1, by omega⟩
      simp only [Nat.add_sub_cancel]
      have : (8 * m + (v + 1) - 1) * 255 = 2040 * m + 255 * v := by
        have : 8 * m + (v + 1) - 1 = 8 * m + v := by omega
        rw [this, Nat.add_mul]; omega
      rw [this]
    have hfill := go_fill sd hw u e.lastBytes (e.blocks.length - 1) h8 (by omega) e.blocks 0
      (List.replicate (sizeInBytes bat e) 0, 0) [] (sizeInBytes bat e) ⟨by simp, rfl⟩ hlt (by rw [heq]; exact Nat.le_refl _)
    obtain ⟨hf1, _⟩ := hfill
    rw [hf1, heq, Nat.sub_self]
    simp [heq]

/-- … and it is the concatenation of the pieces the block loop collects -/
theorem readFile_pieces (sd : Side) (hw : C11.WFSide sd) (bat : List Nat) (e : Entry) (u : Nat) (h1 : 1 ≤ u) (h8 : u ≤ 8)
    (hne : e.blocks ≠ []) (hlt : ∀ b ∈ e.blocks, b < 160)
    (hlast : ∀ last, e.blocks.getLast? = some last → bat.getD last 0 = 0xC0 + u) (hlb : e.lastBytes ≤ 255) :
    readFile sd bat e = piecesFrom sd u e.lastBytes (e.blocks.length - 1) e.blocks 0 := by
  unfold readFile
  cases hl : e.blocks.getLast? with
  | none => rw [List.getLast?_eq_none_iff] at hl; exact absurd hl hne
  | some last =>
    dsimp only
    have hst := hlast last hl
    have hu : bat.getD last 0 - Gen.Disk.bsLastBlock = u := by
      rw [hst]; have : Gen.Disk.bsLastBlock = 192 := rfl; rw [this]; omega
    rw [hu]
    have hsize := sizeInBytes_of bat e last u h8 hl hst
    have hpl := piecesFrom_length sd hw u e.lastBytes h1 h8 (by omega) e.blocks 0 hne hlt
    have hpc := piecesFrom_contentOf sd u e.lastBytes h1 e.blocks 0 hne
    rw [Nat.zero_add] at hpl hpc
    have hn1 : 1 ≤ e.blocks.length := by
      cases hb : e.blocks with
      | nil => exact absurd hb hne
      | cons _ _ => simp
    have heq : (piecesFrom sd u e.lastBytes (e.blocks.length - 1) e.blocks 0).length = sizeInBytes bat e := by
      rw [hpl, hsize]
      generalize e.blocks.length = n at hn1
      generalize e.lastBytes = lb
      obtain ⟨m, rfl⟩ : ∃ m, n = m + 1 := ⟨n - 1, by omega⟩
      obtain ⟨v, rfl⟩ : ∃ v, u = v + 1 := ⟨u - 1, by omega⟩
      simp only [Nat.add_sub_cancel]
      have : (8 * m + (v + 1) - 1) * 255 = 2040 * m + 255 * v := by
        have : 8 * m + (v + 1) - 1 = 8 * m + v := by omega
        rw [this, Nat.add_mul]; omega
      rw [this]
    have hfill := go_fill sd hw u e.lastBytes (e.blocks.length - 1) h8 (by omega) e.blocks 0
      (List.replicate (sizeInBytes bat e) 0, 0) [] (sizeInBytes bat e) ⟨by simp, rfl⟩ hlt (by rw [heq]; exact Nat.le_refl _)
    obtain ⟨hf1, _⟩ := hfill
    rw [hf1, heq, Nat.sub_self]
    simp

/-! ### the independent reader on a consistent side -/

/-- what the layout's reader reports for slot `i` of a consistent side -/
def specFileAt (sd : Side) (bat : List Nat) (own : Nat → List Nat) (i : Nat) : Option Spec.Dos.DFile :=
  if liveB (slotData sd i) then
    some ⟨i, (slotData sd i).take 8, ((slotData sd i).drop 8).take 3, (slotData sd i).getD 11 0, (slotData sd i).getD 12 0, own i,
          bat.getD ((own i).getLast?.getD 0) 0 - 0xC0, (slotData sd i).getD 14 0 * 256 + (slotData sd i).getD 15 0, fileOf sd bat own i⟩
  else none

theorem chain_facts {sd : Side} {bat : List Nat} {own : Nat → List Nat} (inv : SideInv sd bat own) (i : Nat) (hi : i < 112)
    (hl : liveData (slotData sd i)) :
    Spec.Dos.chainFrom bat 160 ((slotData sd i).getD 13 0) [] = some (own i)
    ∧ ∃ u, 1 ≤ u ∧ u ≤ 8 ∧ own i ≠ [] ∧ (∀ b ∈ own i, b < 160)
        ∧ (∀ last, (own i).getLast? = some last → bat.getD last 0 = 0xC0 + u) := by
  obtain ⟨rest, u, hown, h1, h8, hlk, hnd, hlt⟩ := inv.chain i hi hl
  have hlen := getBat_length sd bat inv.hbat
  constructor
  · rw [hown] at hlk hnd hlt
    have hsub : ((slotData sd i).getD 13 0 :: rest) ⊆ List.range 160 := by intro x hx; simp; exact hlt x hx
    have hle := hnd.length_le_of_subset hsub
    simp only [List.length_cons, List.length_range] at hle
    rw [chainFrom_linked bat hlen u h1 h8 rest _ [] 160 hlk hlt hnd (by simp) (by omega), hown]
    simp
  · exact ⟨u, h1, h8, by rw [hown]; simp, hlt, fun last hlast => linked_last u (own i) bat hlk last hlast⟩

theorem spec_files_go {sd : Side} {bat : List Nat} {own : Nat → List Nat} (inv : SideInv sd bat own) :
    ∀ (n i : Nat) (acc : List Spec.Dos.DFile), i + n = 112 →
      Spec.Dos.files.go sd bat ((List.range' i n).map (slotData sd)) i acc
        = some (acc.reverse ++ (List.range' i n).filterMap (specFileAt sd bat own)) := by
  intro n
  induction n with
  | zero => intro i acc _; simp [Spec.Dos.files.go]
  | succ n ih =>
    intro i acc hin
    have hi : i < 112 := by omega
    simp only [List.range'_succ, List.map_cons, Spec.Dos.files.go, List.filterMap_cons]
    rw [spec_live]
    by_cases hl : liveB (slotData sd i) = true
    · have hlive := (liveB_iff _).mp hl
      obtain ⟨hch, u, h1, h8, hne, hlt, hlast⟩ := chain_facts inv i hi hlive
      rw [if_pos hl, hch]
      dsimp only
      rw [ih (i + 1) _ (by omega)]
      have hsf : specFileAt sd bat own i = some ⟨i, (slotData sd i).take 8, ((slotData sd i).drop 8).take 3, (slotData sd i).getD 11 0,
          (slotData sd i).getD 12 0, own i, bat.getD ((own i).getLast?.getD 0) 0 - 0xC0,
          (slotData sd i).getD 14 0 * 256 + (slotData sd i).getD 15 0, fileOf sd bat own i⟩ := by
        unfold specFileAt; rw [if_pos hl]
      rw [hsf]
      -- the content computed by the layout's reader is the content the tools read
      have hcontent : Spec.Dos.contentOf sd (own i) (bat.getD ((own i).getLast?.getD 0) 0 - 0xC0)
          ((slotData sd i).getD 14 0 * 256 + (slotData sd i).getD 15 0) = fileOf sd bat own i := by
        unfold fileOf
        have hlb := inv.lastb i hi hlive
        have hrl := recordOfBytes_lastBytes (slotData sd i) hlb
        obtain ⟨last, hq⟩ : ∃ last, (own i).getLast? = some last := by
          cases hq : (own i).getLast? with
          | none => rw [List.getLast?_eq_none_iff] at hq; exact absurd hq hne
          | some l => exact ⟨l, rfl⟩
        have hu : bat.getD ((own i).getLast?.getD 0) 0 - 0xC0 = u := by rw [hq]; simp only [Option.getD_some]; rw [hlast last hq]; omega
        rw [hu]
        have := readFile_contentOf sd inv.wf bat ⟨1, recordOfBytes (slotData sd i), own i⟩ u h1 h8 hne hlt hlast
          (by unfold Entry.lastBytes; dsimp only; rw [hrl]; exact hlb)
        rw [this]
        unfold Entry.lastBytes
        dsimp only
        rw [hrl]
      rw [hcontent]
      simp
    · rw [if_neg hl, ih (i + 1) _ (by omega)]
      have hsf : specFileAt sd bat own i = none := by unfold specFileAt; rw [if_neg hl]
      rw [hsf]

/-- **the independent reader on a consistent side**: it succeeds, lists the live entries in
    catalog order with the raw name, extension, kind and flag bytes, the chain the tools follow,
    and *the content the tools read* -/
theorem spec_files_inv {sd : Side} {bat : List Nat} {own : Nat → List Nat} (inv : SideInv sd bat own) :
    Spec.Dos.files sd = some ((List.range 112).filterMap (specFileAt sd bat own)) := by
  unfold Spec.Dos.files
  dsimp only
  rw [spec_table sd bat inv.wf inv.hbat, spec_entries, List.range_eq_range']
  rw [spec_files_go inv 112 0 [] (by omega)]
  simp

/-! ### the independent checker accepts every consistent side -/

theorem linked_value (bat : List Nat) (u : Nat) : ∀ (ch : List Nat), Linked bat ch u → (∀ x ∈ ch, x < 160) →
    ∀ b ∈ ch, bat.getD b 0 < 160 ∨ bat.getD b 0 = 0xC0 + u := by
  intro ch
  induction ch with
  | nil => intro _ _ b hb; simp at hb
  | cons c rest ih =>
    intro hl hlt b hb
    cases rest with
    | nil =>
      simp only [Linked] at hl
      simp at hb; subst hb
      exact Or.inr hl
    | cons d rest' =>
      simp only [Linked] at hl
      rcases List.mem_cons.mp hb with h | h
      · subst h; left; rw [hl.1]; exact hlt d (by simp)
      · exact ih hl.2 (fun x hx => hlt x (by simp [hx])) b h

theorem inv_okStatus {sd : Side} {bat : List Nat} {own : Nat → List Nat} (inv : SideInv sd bat own) (b : Nat) (hb : b < 160) :
    Spec.Dos.okStatus (bat.getD b 0) = true := by
  have c1 : Gen.Disk.bsFree = 0xFF := rfl
  have c2 : Gen.Disk.bsReserved = 0xFE := rfl
  by_cases hf : isFree (bat.getD b 0) = true
  · unfold isFree at hf
    rw [c1] at hf
    have : bat.getD b 0 = 0xFF := beq_iff_eq.mp hf
    rw [this]; decide
  · by_cases hr : isReserved (bat.getD b 0) = true
    · unfold isReserved at hr
      rw [c2] at hr
      have : bat.getD b 0 = 0xFE := beq_iff_eq.mp hr
      rw [this]; decide
    · obtain ⟨i, hi, hl, hm⟩ := (inv.used b hb).mp ⟨Bool.eq_false_iff.mpr hf, Bool.eq_false_iff.mpr hr⟩
      obtain ⟨_, u, _, h1, h8, hlk, _, hlt⟩ := inv.chain i hi hl
      have hv := linked_value bat u (own i) hlk hlt b hm
      generalize bat.getD b 0 = s at hv
      unfold Spec.Dos.okStatus
      rcases hv with h | h
      · simp [h]
      · have : 0xC1 ≤ s ∧ s ≤ 0xC8 := by omega
        simp [this.1, this.2]

/-- chains of the live slots, in catalog order -/
def liveChains (sd : Side) (own : Nat → List Nat) (l : List Nat) : List (List Nat) :=
  l.filterMap fun i => if liveB (slotData sd i) then some (own i) else none

theorem mem_liveChains (sd : Side) (own : Nat → List Nat) (l : List Nat) (c : List Nat) :
    c ∈ liveChains sd own l ↔ ∃ i ∈ l, liveB (slotData sd i) = true ∧ own i = c := by
  unfold liveChains
  rw [List.mem_filterMap]
  constructor
  · rintro ⟨i, hi, h⟩
    by_cases hl : liveB (slotData sd i) = true
    · rw [if_pos hl] at h; cases h; exact ⟨i, hi, hl, rfl⟩
    · rw [if_neg hl] at h; cases h
  · rintro ⟨i, hi, hl, rfl⟩
    exact ⟨i, hi, by rw [if_pos hl]⟩

theorem pairwiseDisjoint_liveChains {sd : Side} {bat : List Nat} {own : Nat → List Nat} (inv : SideInv sd bat own) :
    ∀ (l : List Nat), l.Nodup → (∀ i ∈ l, i < 112) → Spec.Dos.pairwiseDisjoint (liveChains sd own l) = true := by
  intro l
  induction l with
  | nil => intro _ _; rfl
  | cons i rest ih =>
    intro hnd hlt
    have hi := hlt i (by simp)
    have hrest := ih (List.nodup_cons.mp hnd).2 (fun j hj => hlt j (by simp [hj]))
    unfold liveChains
    simp only [List.filterMap_cons]
    by_cases hl : liveB (slotData sd i) = true
    · rw [if_pos hl]
      dsimp only
      simp only [Spec.Dos.pairwiseDisjoint, Bool.and_eq_true, List.all_eq_true]
      refine ⟨?_, hrest⟩
      intro d hd b hb
      obtain ⟨j, hj, hlj, rfl⟩ := (mem_liveChains sd own rest d).mp hd
      have hij : i ≠ j := fun h => (List.nodup_cons.mp hnd).1 (h ▸ hj)
      have := inv.disj i j hi (hlt j (by simp [hj])) hij ((liveB_iff _).mp hl) ((liveB_iff _).mp hlj) b hb
      simpa using this
    · rw [if_neg hl]
      exact hrest

theorem spec_chains {sd : Side} {bat : List Nat} {own : Nat → List Nat} :
    ((List.range 112).filterMap (specFileAt sd bat own)).map (·.chain) = liveChains sd own (List.range 112) := by
  unfold liveChains
  rw [List.map_filterMap]
  apply filterMap_congr'
  intro i _
  unfold specFileAt
  by_cases hl : liveB (slotData sd i) = true
  · rw [if_pos hl, if_pos hl]; rfl
  · rw [if_neg hl, if_neg hl]; rfl

/-- **the independent checker accepts every consistent side** (`strict` aside: byte 0 of the table
    sector is not part of the invariant) -/
theorem fsck_of_inv {sd : Side} {bat : List Nat} {own : Nat → List Nat} (inv : SideInv sd bat own) :
    Spec.Dos.fsck false sd = true := by
  have hlen := getBat_length sd bat inv.hbat
  unfold Spec.Dos.fsck
  dsimp only
  rw [spec_table sd bat inv.wf inv.hbat, spec_files_inv inv]
  dsimp only
  rw [spec_chains]
  simp only [Bool.and_eq_true, Bool.not_false, Bool.true_or, and_true]
  refine ⟨⟨⟨⟨⟨⟨?_, ?_⟩, ?_⟩, ?_⟩, ?_⟩, ?_⟩, ⟨⟨?_, ?_⟩, ?_⟩⟩
  · simp [inv.wf.1]
  · rw [List.all_eq_true]; intro s hs; simp [inv.wf.2 s hs]
  · simp [hlen]
  · rw [List.all_eq_true]
    intro s hs
    obtain ⟨b, hb, rfl⟩ := List.getElem_of_mem hs
    have := inv_okStatus inv b (by omega)
    rw [List.getD_eq_getElem?_getD, List.getElem?_eq_getElem hb] at this
    simpa using this
  · rw [inv.res40]; rfl
  · rw [inv.res41]; rfl
  · exact pairwiseDisjoint_liveChains inv (List.range 112) List.nodup_range (fun i hi => List.mem_range.mp hi)
  · rw [List.all_eq_true]
    intro f hf
    obtain ⟨i, hi, hfi⟩ := List.mem_filterMap.mp hf
    have hi' := List.mem_range.mp hi
    unfold specFileAt at hfi
    by_cases hl : liveB (slotData sd i) = true
    · rw [if_pos hl] at hfi
      cases hfi
      have hlive := (liveB_iff _).mp hl
      obtain ⟨rest, _, hown, _⟩ := inv.chain i hi' hlive
      simp only [Bool.and_eq_true, decide_eq_true_eq]
      exact ⟨inv.lastb i hi' hlive, by rw [hown]; rfl⟩
    · rw [if_neg hl] at hfi; cases hfi
  · rw [List.all_eq_true]
    intro b hb
    have hb' := List.mem_range.mp hb
    have hu := inv.used b hb'
    have hany : (liveChains sd own (List.range 112)).any (·.contains b) = true ↔ ∃ i, i < 112 ∧ liveData (slotData sd i) ∧ b ∈ own i := by
      rw [List.any_eq_true]
      constructor
      · rintro ⟨c, hc, hbc⟩
        obtain ⟨i, hi, hl, rfl⟩ := (mem_liveChains sd own _ c).mp hc
        exact ⟨i, List.mem_range.mp hi, (liveB_iff _).mp hl, by simpa using hbc⟩
      · rintro ⟨i, hi, hl, hm⟩
        exact ⟨own i, (mem_liveChains sd own _ _).mpr ⟨i, List.mem_range.mpr hi, (liveB_iff _).mpr hl, rfl⟩, by simpa using hm⟩
    have hused : ((bat.getD b 0 != 0xFF) && (bat.getD b 0 != 0xFE)) = true ↔ (isFree (bat.getD b 0) = false ∧ isReserved (bat.getD b 0) = false) := by
      unfold isFree isReserved
      have c1 : Gen.Disk.bsFree = 0xFF := rfl
      have c2 : Gen.Disk.bsReserved = 0xFE := rfl
      rw [c1, c2]
      simp
    rw [beq_iff_eq]
    apply Bool.eq_iff_iff.mpr
    rw [hused, hu, hany]

end Moto.Disk
