/-
  The files a create/add report announces stored, section by section and in order, are the sources placed on
  the sides, which are — in the same order — the files the sides gained.
-/
import MotoModel.Proofs.DiskBatchOrder
import MotoModel.Proofs.DiskSections
namespace Moto.Disk
open Moto Moto.Tape

/-- the event announcing the file of the source argument `src` -/
def evSrc (w : Tape.World) (src : Str) : FileEv :=
  evOf (splitSource src).1 (dispatch (splitSource src).1 (splitSource src).2.1 (splitSource src).2.2.1).2.2
    (dispatch (splitSource src).1 (splitSource src).2.1 (splitSource src).2.2.1).1
    (dispatch (splitSource src).1 (splitSource src).2.1 (splitSource src).2.2.1).2.1 ((w (splitSource src).2.2.2).getD [])

theorem sideList_same_of_files (a b : Image) (h : ∀ k j, k < 4 → j < 112 → imgFileAt b k j = imgFileAt a k j) (k : Nat) (hk : k < 4) :
    sideList (b.getD k []) = sideList (a.getD k []) :=
  sideList_congr _ _ (fun j hj => h k j hk hj)

/-- one source argument (not a marker): what the report announces for it and what the sides gain -/
theorem injFile_ordered_ev (w : Tape.World) (src : Str) (hsrc : CleanSrc src) (st : Inj) (h : ImgOk st.img) (hp : AllPrefix st.img) (hc : st.cur < 4) :
    ∃ st' b, injFile w src st = .ok (st', b) ∧ ImgOk st'.img ∧ AllPrefix st'.img
      ∧ ((∃ k f, b = true ∧ st.cur ≤ k ∧ k < 4 ∧ st'.cur = k ∧ FileOf w src f
            ∧ sideList (st'.img.getD k []) = sideList (st.img.getD k []) ++ [f]
            ∧ (∀ k', k' < 4 → k' ≠ k → sideList (st'.img.getD k' []) = sideList (st.img.getD k' []))
            ∧ storedOn st.cur (srcEvents w src st.img st.cur) = [(k, evSrc w src)])
         ∨ ((b = false → st'.cur = st.cur) ∧ (b = true → 4 ≤ st'.cur)
            ∧ (∀ k, k < 4 → sideList (st'.img.getD k []) = sideList (st.img.getD k []))
            ∧ storedOn st.cur (srcEvents w src st.img st.cur) = []))
      ∧ (st'.cur < 4 → sideAfter st.cur (srcEvents w src st.img st.cur) = st'.cur) := by
  obtain ⟨st', b, hf, hok, hp', hcase⟩ := injFile_ordered w src hsrc st h hp
  obtain ⟨s2, b2, hf2, _, _, _, hside, _⟩ := injFile_sections w src hsrc st h hc
  rw [hf] at hf2
  cases hf2
  refine ⟨st', b, hf, hok, hp', ?_, hside⟩
  -- the announcements of this source
  have hname := splitSource_name_clean src hsrc
  have hev : (∃ k, storedOn st.cur (srcEvents w src st.img st.cur) = [(k, evSrc w src)] ∧ st'.cur = k ∧ k < 4)
      ∨ (storedOn st.cur (srcEvents w src st.img st.cur) = [] ∧ ∀ k j, k < 4 → j < 112 → imgFileAt st'.img k j = imgFileAt st.img k j) := by
    unfold injFile at hf
    unfold srcEvents evSrc
    dsimp only at hf ⊢
    cases hw : w (splitSource src).2.2.2 with
    | none => rw [hw] at hf; dsimp only at hf; cases hf; exact Or.inr ⟨rfl, fun _ _ _ _ => rfl⟩
    | some data =>
      rw [hw] at hf
      dsimp only at hf ⊢
      split at hf
      · rename_i h8; rw [if_pos h8]; cases hf; exact Or.inr ⟨rfl, fun _ _ _ _ => rfl⟩
      · rename_i h8
        rw [if_neg h8]
        split at hf
        · rename_i h3; rw [if_pos h3]; cases hf; exact Or.inr ⟨rfl, fun _ _ _ _ => rfl⟩
        · rename_i h3
          rw [if_neg h3]
          split at hf
          · rename_i ha; rw [if_pos ha]; cases hf; exact Or.inr ⟨rfl, fun _ _ _ _ => rfl⟩
          · rename_i ha
            rw [if_neg ha]
            obtain ⟨s3, hs3, hcase3⟩ := announced_where_stored (splitSource src).1
              (dispatch (splitSource src).1 (splitSource src).2.1 (splitSource src).2.2.1).2.2
              (dispatch (splitSource src).1 (splitSource src).2.1 (splitSource src).2.2.1).1
              (dispatch (splitSource src).1 (splitSource src).2.1 (splitSource src).2.2.1).2.1 data hname st h hc
            rw [hs3] at hf
            cases hf
            rcases hcase3 with ⟨k, i0, r, hk4, _, hstored, _, _, hcur, _⟩ | ⟨hstored, hall⟩
            · exact Or.inl ⟨k, by rw [hstored]; rfl, hcur, hk4⟩
            · exact Or.inr ⟨hstored, hall⟩
  rcases hcase with ⟨k, f, hb, hck, hk4, hcur, hfo, hgain, hoth⟩ | ⟨hbf, hbt, hsame⟩
  · left
    rcases hev with ⟨k2, hst2, hcur2, _⟩ | ⟨_, hall⟩
    · have : k2 = k := by rw [← hcur2, hcur]
      subst this
      exact ⟨k2, f, hb, hck, hk4, hcur, hfo, hgain, hoth, hst2⟩
    · exfalso
      have := sideList_same_of_files st.img st'.img hall k hk4
      rw [hgain] at this
      have := congrArg List.length this
      simp at this
  · right
    rcases hev with ⟨k2, hst2, hcur2, hk2⟩ | ⟨hst2, _⟩
    · exfalso
      cases b with
      | false =>
        -- nothing was written (b = false) yet an announcement: impossible, the announcement sets b
        have hb0 := hbf rfl
        unfold injFile at hf
        dsimp only at hf
        cases hw : w (splitSource src).2.2.2 with
        | none =>
          unfold srcEvents at hst2; rw [hw] at hst2; simp [storedOn] at hst2
        | some data =>
          unfold srcEvents at hst2
          rw [hw] at hf hst2
          dsimp only at hf hst2
          split at hf
          · rename_i h8; rw [if_pos h8] at hst2; simp [storedOn] at hst2
          · rename_i h8
            rw [if_neg h8] at hst2
            split at hf
            · rename_i h3; rw [if_pos h3] at hst2; simp [storedOn] at hst2
            · rename_i h3
              rw [if_neg h3] at hst2
              split at hf
              · rename_i ha; rw [if_pos ha] at hst2; simp [storedOn] at hst2
              · cases hi : injWriteFile (splitSource src).1 (dispatch (splitSource src).1 (splitSource src).2.1 (splitSource src).2.2.1).2.2
                    (dispatch (splitSource src).1 (splitSource src).2.1 (splitSource src).2.2.1).1
                    (dispatch (splitSource src).1 (splitSource src).2.1 (splitSource src).2.2.1).2.1 data 4 st with
                | error e => rw [hi] at hf; cases hf
                | ok s4 => rw [hi] at hf; cases hf
      | true =>
        have := hbt rfl
        omega
    · exact ⟨hbf, hbt, hsame, hst2⟩

/-- **the loop over the source arguments**: the announcements of the report, with the side of the section
    each appears in, are the placed sources in order -/
theorem injLoop_ordered_ev (w : Tape.World) : ∀ (srcs : List Str) (st : Inj), (∀ src ∈ srcs, CleanSrc src) → ImgOk st.img → AllPrefix st.img →
    st.cur < 4 →
    ∃ (st' : Inj) (placed : List (Nat × Str)), injLoop w srcs st = .ok st' ∧ ImgOk st'.img ∧ AllPrefix st'.img
      ∧ (placed.map (·.2)).Sublist srcs ∧ (placed.map (·.1)).Pairwise (· ≤ ·) ∧ (∀ p ∈ placed, st.cur ≤ p.1 ∧ p.1 < 4)
      ∧ (∀ k, k < 4 → NewOn w (sideList (st.img.getD k [])) (sideList (st'.img.getD k [])) ((placed.filter (fun p => p.1 == k)).map (·.2)))
      ∧ storedOn st.cur (loopEvents w srcs st.img st.cur) = placed.map (fun p => (p.1, evSrc w p.2)) := by
  intro srcs
  induction srcs with
  | nil =>
    intro st _ h hp _
    exact ⟨st, [], rfl, h, hp, by simp, by simp, by simp, fun k _ => NewOn.refl w _, by simp [loopEvents, storedOn]⟩
  | cons src rest ih =>
    intro st hs h hp hc
    have hrest : ∀ s ∈ rest, CleanSrc s := fun s hm => hs s (by simp [hm])
    simp only [injLoop, loopEvents]
    split
    · obtain ⟨u, hu⟩ := usageOfSide_any h st.cur
      rw [hu]
      dsimp only
      split
      · exact ⟨_, [], rfl, h, hp, by simp, by simp, by simp, fun k _ => NewOn.refl w _, by simp [storedOn]⟩
      · rename_i h4
        obtain ⟨st', placed, h1, h2, h3, h4', h5, h6, h7, h8⟩ := ih { st with cur := st.cur + 1, l := onBeginOfSide (onEndOfSide st.l u) (st.cur + 1) }
          hrest h hp (by dsimp only; omega)
        refine ⟨st', placed, h1, h2, h3, List.Sublist.cons _ h4', h5, ?_, h7, ?_⟩
        · intro p hp'
          have := h6 p hp'
          dsimp only at this
          exact ⟨by omega, this.2⟩
        · simp only [storedOn]; exact h8
    · obtain ⟨s1, b, hf, hok1, hp1, hcase, hside⟩ := injFile_ordered_ev w src (hs src (by simp)) st h hp hc
      rw [hf, injFile_next w src st s1 b hf]
      dsimp only
      rcases hcase with ⟨k, f, hb, hck, hk4, hcur, hfo, hgain, hoth, hev⟩ | ⟨hbf, hbt, hsame, hev⟩
      · subst hb
        have hq : (true && decide (s1.cur ≥ 4)) = false := by simp; omega
        rw [if_neg (by rw [hq]; simp), if_neg (by rw [hq]; simp)]
        have hc1 : s1.cur < 4 := by omega
        obtain ⟨st', placed, h1, h2, h3, h4, h5, h6, h7, h8⟩ := ih s1 hrest hok1 hp1 hc1
        refine ⟨st', (k, src) :: placed, h1, h2, h3, ?_, ?_, ?_, ?_, ?_⟩
        · simp only [List.map_cons]; exact List.Sublist.cons₂ _ h4
        · simp only [List.map_cons, List.pairwise_cons]
          refine ⟨?_, h5⟩
          intro a ha
          obtain ⟨p, hp', rfl⟩ := List.mem_map.mp ha
          have := (h6 p hp').1
          omega
        · intro p hp'
          rcases List.mem_cons.mp hp' with rfl | hp''
          · exact ⟨hck, hk4⟩
          · have := h6 p hp''
            exact ⟨by omega, this.2⟩
        · intro k' hk'
          obtain ⟨fs, hfs, hall⟩ := h7 k' hk'
          by_cases hkk : k' = k
          · subst hkk
            refine ⟨f :: fs, ?_, ?_⟩
            · rw [hfs, hgain]; simp
            · simp only [List.filter_cons, beq_self_eq_true, if_true, List.map_cons]
              exact ⟨hfo, hall⟩
          · refine ⟨fs, ?_, ?_⟩
            · rw [hfs, hoth k' hk' hkk]
            · have : ((k, src) :: placed).filter (fun p => p.1 == k') = placed.filter (fun p => p.1 == k') := by
                rw [List.filter_cons, if_neg]
                simp; omega
              rw [this]; exact hall
        · rw [storedOn_append, hside hc1, hev, h8]
          rfl
      · have hweak : ∀ (st' : Inj) (placed : List (Nat × Str)), ImgOk st'.img → AllPrefix st'.img →
            (placed.map (·.2)).Sublist rest → (placed.map (·.1)).Pairwise (· ≤ ·) → (∀ p ∈ placed, s1.cur ≤ p.1 ∧ p.1 < 4) → st.cur ≤ s1.cur →
            (∀ k, k < 4 → NewOn w (sideList (s1.img.getD k [])) (sideList (st'.img.getD k [])) ((placed.filter (fun p => p.1 == k)).map (·.2))) →
            ImgOk st'.img ∧ AllPrefix st'.img
              ∧ (placed.map (·.2)).Sublist (src :: rest) ∧ (placed.map (·.1)).Pairwise (· ≤ ·) ∧ (∀ p ∈ placed, st.cur ≤ p.1 ∧ p.1 < 4)
              ∧ ∀ k, k < 4 → NewOn w (sideList (st.img.getD k [])) (sideList (st'.img.getD k [])) ((placed.filter (fun p => p.1 == k)).map (·.2)) := by
          intro st' placed a1 a2 a3 a4 a5 a6 a7
          refine ⟨a1, a2, List.Sublist.cons _ a3, a4, fun p hp' => ⟨by have := (a5 p hp').1; omega, (a5 p hp').2⟩, ?_⟩
          intro k hk
          rw [← hsame k hk]; exact a7 k hk
        cases b with
        | false =>
          have hc0 := hbf rfl
          rw [if_neg (by simp), if_neg (by simp)]
          have hc1 : s1.cur < 4 := by omega
          obtain ⟨st', placed, h1, h2, h3, h4, h5, h6, h7, h8⟩ := ih s1 hrest hok1 hp1 hc1
          obtain ⟨g1, g2, g3, g4, g5, g6⟩ := hweak st' placed h2 h3 h4 h5 h6 (by omega) h7
          refine ⟨st', placed, h1, g1, g2, g3, g4, g5, g6, ?_⟩
          rw [storedOn_append, hside hc1, hev, h8]
          rfl
        | true =>
          have hc4 := hbt rfl
          have hq : (true && decide (s1.cur ≥ 4)) = true := by simp; omega
          rw [if_pos (by rw [hq]), if_pos (by rw [hq])]
          refine ⟨s1, [], rfl, hok1, hp1, by simp, by simp, by simp, fun k hk => by rw [hsame k hk]; exact NewOn.refl w _, ?_⟩
          rw [List.append_nil, hev]
          rfl

/-- **the whole batch**: the announcements of the create/add report — each with the side of the section it
    appears in, in the order of the report — are the placed sources in command-line order; and on every side
    the files afterwards are the files before followed by the files of the sources placed there, in that order -/
theorem performCore_ordered_ev (w : Tape.World) (verbose : Bool) (img : Image) (srcs : List Str)
    (himg : ImgOk img) (hp : AllPrefix img) (hs : ∀ src ∈ srcs, CleanSrc src) :
    ∃ (st : Inj) (placed : List (Nat × Str)), performCore w verbose img srcs = .ok st ∧ ImgOk st.img ∧ AllPrefix st.img
      ∧ (placed.map (·.2)).Sublist srcs ∧ (placed.map (·.1)).Pairwise (· ≤ ·) ∧ (∀ p ∈ placed, p.1 < 4)
      ∧ (∀ k, k < 4 → NewOn w (sideList (img.getD k [])) (sideList (st.img.getD k [])) ((placed.filter (fun p => p.1 == k)).map (·.2)))
      ∧ storedOn 0 (batchEvents w srcs img) = placed.map (fun p => (p.1, evSrc w p.2)) := by
  obtain ⟨st1, placed, h1, hok1, hp1, h4, h5, h6, h7, h8⟩ := injLoop_ordered_ev w srcs
    { img := img, cur := 0, l := onBeginOfSide { processing := 2, verbose := verbose } 0 } hs himg hp (by show 0 < 4; omega)
  have hev : storedOn 0 (batchEvents w srcs img) = placed.map (fun p => (p.1, evSrc w p.2)) := by
    unfold batchEvents
    rw [storedOn_append]
    dsimp only at h8
    rw [h8]
    cases loopNext w srcs img with
    | none => simp [storedOn]
    | some q =>
      obtain ⟨i1, c1⟩ := q
      dsimp only
      split
      · cases usageOfSide i1 c1 with
        | error e => simp [storedOn]
        | ok u => simp [storedOn, tailEvents_storedOn]
      · simp [storedOn]
  unfold performCore
  dsimp only
  rw [h1]
  dsimp only
  split
  · obtain ⟨u, hu⟩ := usageOfSide_any hok1 st1.cur
    rw [hu]
    dsimp only
    obtain ⟨st2, h2, himg2⟩ := injTail_ok 4 { st1 with l := onEndOfSide st1.l u } hok1
    rw [h2]
    refine ⟨st2, placed, rfl, ?_, ?_, h4, h5, fun p hp' => (h6 p hp').2, ?_, hev⟩ <;> rw [himg2]
    · exact hok1
    · exact hp1
    · exact h7
  · exact ⟨st1, placed, rfl, hok1, hp1, h4, h5, fun p hp' => (h6 p hp').2, h7, hev⟩

end Moto.Disk
