/-
  The pure functions translated from the source on every run (Gen/Fn.lean) are the functions of the
  hand-written model, for every argument.  A change of one of these functions in the repository
  changes the generated definition, and the corresponding theorem is re-checked against it.
  The proofs are deliberately schematic (unfold both sides, let `grind` decide the linear
  arithmetic and the case splits) so that a behaviour-preserving rewrite of the source still checks.
-/
import MotoModel.Gen.Fn
namespace Moto.GenFn
open Moto

theorem consts : Gen.Disk.bsMaxNext = 160 ∧ Gen.Disk.bsMinLast = 193 ∧ Gen.Disk.bsMaxLast = 201 ∧ Gen.Disk.bsReserved = 254
    ∧ Gen.Disk.bsFree = 255 ∧ Gen.Disk.bsLastBlock = 192 := ⟨rfl, rfl, rfl, rfl, rfl, rfl⟩

theorem isValidStatus_eq (s : Nat) : Gen.Fn.isValidStatus s = Disk.validStatus s := by
  unfold Gen.Fn.isValidStatus Disk.validStatus
  obtain ⟨c1, c2, c3, c4, c5, c6⟩ := consts
  first | rfl | grind

theorem isFree_eq (s : Nat) : Gen.Fn.isFree s = Disk.isFree s := by
  unfold Gen.Fn.isFree Disk.isFree
  obtain ⟨c1, c2, c3, c4, c5, c6⟩ := consts
  first | rfl | grind

theorem isReserved_eq (s : Nat) : Gen.Fn.isReserved s = Disk.isReserved s := by
  unfold Gen.Fn.isReserved Disk.isReserved
  obtain ⟨c1, c2, c3, c4, c5, c6⟩ := consts
  first | rfl | grind

theorem isLast_eq (s : Nat) : Gen.Fn.isLast s = Disk.isLast s := by
  unfold Gen.Fn.isLast Disk.isLast
  obtain ⟨c1, c2, c3, c4, c5, c6⟩ := consts
  first | rfl | grind

theorem hasNext_eq (s : Nat) : Gen.Fn.hasNext s = Disk.hasNext s := by
  unfold Gen.Fn.hasNext Disk.hasNext
  obtain ⟨c1, c2, c3, c4, c5, c6⟩ := consts
  first | rfl | grind

theorem usage_eq (s : Nat) : Gen.Fn.usage s = Disk.usageOf s := by
  unfold Gen.Fn.usage Disk.usageOf
  have h1 := isFree_eq s
  have h2 := isReserved_eq s
  have h3 := hasNext_eq s
  have h4 := isLast_eq s
  obtain ⟨c1, c2, c3, c4, c5, c6⟩ := consts
  first | rfl | grind

theorem computeRequiredSlots_eq (n k : Nat) : Gen.Fn.computeRequiredSlots n k = Disk.computeRequiredSlots n k := by
  unfold Gen.Fn.computeRequiredSlots Disk.computeRequiredSlots
  first | rfl | grind

theorem and255 (n : Nat) : n &&& 255 = n % 256 := by
  have : (255 : Nat) = 2 ^ 8 - 1 := rfl
  rw [this, Nat.and_two_pow_sub_one_eq_mod]

theorem computeChecksum_eq (data : List Nat) : Gen.Fn.computeChecksum data = Tape.checksum data := by
  unfold Gen.Fn.computeChecksum Tape.checksum
  simp only [and255]

theorem writeFileLayout_eq (n : Nat) : Gen.Fn.writeFileLayout n = Disk.layoutOf n := by
  unfold Gen.Fn.writeFileLayout Disk.layoutOf
  simp only [computeRequiredSlots_eq]
  first | rfl | grind

/-- the three counters of `computeUsage`, whatever they start from -/
theorem usage_fold (bat : List Nat) : ∀ (f r u : Nat),
    (bat.foldl (fun u s => if Disk.isFree s then { u with free := u.free + 1 }
                        else if Disk.isReserved s then { u with reserved := u.reserved + 1 }
                        else { u with used := u.used + 1 }) (⟨u, r, f⟩ : Disk.Usage))
    = (let t := bat.foldl (fun (x : Nat × Nat × Nat) ba =>
          if Gen.Fn.isFree ba then (x.1 + 1, x.2.1, x.2.2)
          else if Gen.Fn.isReserved ba then (x.1, x.2.1 + 1, x.2.2)
          else (x.1, x.2.1, x.2.2 + 1)) (f, r, u)
       (⟨t.2.2, t.2.1, t.1⟩ : Disk.Usage)) := by
  induction bat with
  | nil => intro f r u; rfl
  | cons s rest ih =>
    intro f r u
    simp only [List.foldl_cons, isFree_eq, isReserved_eq]
    by_cases h1 : Disk.isFree s = true
    · simp only [h1, if_true]; exact ih (f + 1) r u
    · by_cases h2 : Disk.isReserved s = true
      · simp only [h1, h2, if_true, Bool.false_eq_true, if_false]; exact ih f (r + 1) u
      · simp only [h1, h2, Bool.false_eq_true, if_false]; exact ih f r (u + 1)

theorem computeUsage_eq (bat : List Nat) :
    Gen.Fn.computeUsage bat = ((Disk.computeUsage bat).used, (Disk.computeUsage bat).reserved, (Disk.computeUsage bat).free) := by
  unfold Gen.Fn.computeUsage Disk.computeUsage
  rw [usage_fold bat 0 0 0]
  try (first | rfl | grind)


/-! ### the integer encoders of the tokenizer and of the converter (`bytes([...])` of masked values) -/

theorem toUint8_eq (v : Nat) : Gen.Fn.toUint8 v = [v % 256] := by
  unfold Gen.Fn.toUint8
  simp only [and255]

theorem toUint16_eq (v : Nat) : Gen.Fn.toUint16 v = Basic.u16 v := by
  unfold Gen.Fn.toUint16 Basic.u16
  simp only [and255]

theorem convToUint16_eq (v : Nat) : Gen.Fn.convToUint16 v = Basic.u16 v := by
  unfold Gen.Fn.convToUint16 Basic.u16
  simp only [and255]

theorem bytesFromUint_eq (v : Nat) : Gen.Fn.bytesFromUint v = Basic.bytesFromUint v := by
  unfold Gen.Fn.bytesFromUint Basic.bytesFromUint
  simp only [toUint8_eq, toUint16_eq, Basic.u16]
  first | rfl | grind

end Moto.GenFn
