/-
  Specifications of the line tools, written from the property text (not from the code).
-/
import MotoModel.Model.Py
namespace Moto.Spec

/-- moto_prettier as a character automaton: a double quote toggles the literal state;
    outside a literal, letters are upper-cased; everything else is copied. -/
def specUpper : Bool → Str → Str
  | _, [] => []
  | inLit, c :: cs =>
    if c = 34 then c :: specUpper (!inLit) cs
    else (if inLit then c else upperC c) :: specUpper inLit cs

/-- literal state after reading `l` from state `b` -/
def litAfter : Bool → Str → Bool
  | b, [] => b
  | b, c :: cs => litAfter (if c = 34 then !b else b) cs

end Moto.Spec
