/-
  Specifications of the line tools, written from the property text (not from the code).
-/
import MotoModel.Model.Py
import MotoModel.Model.LineTools
namespace Moto.Spec

/-- moto_prettier as a character automaton: a double quote toggles the literal state;
    outside a literal, letters are upper-cased; everything else is copied. -/
def specUpper : Bool → Str → Str
  | _, [] => []
  | inLit, c :: cs =>
    if c = 34 then c :: specUpper (!inLit) cs
    else (if inLit then c else upperC c) :: specUpper inLit cs

/-- literal state after reading `l` from state `b` -/
def litAfter : Bool → Str → Bool
  | b, [] => b
  | b, c :: cs => litAfter (if c = 34 then !b else b) cs

end Moto.Spec

namespace Moto.Spec

/-- the decimal digits a line begins with -/
def digitRun : Str → Str
  | [] => []
  | c :: r => if 48 ≤ c ∧ c ≤ 57 then c :: digitRun r else []

/-- a numeral read from its last digit: units, tens, hundreds, … -/
def decimalFromLast : Str → Nat
  | [] => 0
  | d :: r => (d - 48) + 10 * decimalFromLast r

/-- "the line begins with a number": its leading run of decimal digits is not empty and does not begin with a zero (BASIC
    line numbers carry no leading zero); the number is that numeral's value.  Said without the tool's regular expression
    and without its left-to-right accumulation. -/
def numberAtStart (line : Str) : Option Nat :=
  match digitRun line with
  | [] => none
  | d :: ds => if d = 48 then none else some (decimalFromLast (d :: ds).reverse)

/-- moto_nl as the property words it: a line that begins with a number is reproduced, any other
    line gets a number — the start value for the first line, otherwise the previous line's
    number plus the increment — left-aligned, padded to the width, and one blank. -/
def specNl (start incr width : Nat) : Option Nat → List Str → List Str
  | _, [] => []
  | prev, l :: ls =>
    let body := rstripNL l
    match numberAtStart body with
    | some k => body :: specNl start incr width (some k) ls
    | none =>
      let n := match prev with | none => start | some p => p + incr
      (padRight (digits n) width ++ [32] ++ body) :: specNl start incr width (some n) ls

/-- split a byte file at every CR or LF (`cur` is the line being accumulated) -/
def splitCRLF : Bytes → Bytes → List Bytes
  | cur, [] => [cur]
  | cur, b :: bs => if b = 13 ∨ b = 10 then cur :: splitCRLF [] bs else splitCRLF (cur ++ [b]) bs

/-- ASCII BASIC → listing: the non-empty lines, each followed by the line ending -/
def specToListing (eol : Bytes) (data : Bytes) : Bytes :=
  ((splitCRLF [] data).filter (· ≠ [])).flatMap (· ++ eol)

end Moto.Spec
