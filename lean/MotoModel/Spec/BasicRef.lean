/-
  Reference for tokenized MO5 BASIC, written from the property texts (C13, C14): the pinned MO5
  token table, a detokenizer, a reference encoder for listings whose keywords are delimited,
  and a decoder of the program structure (records, link pointers, final zero link).
  The table below is a *pinned copy* (it is not regenerated): the theorem
  `C13.table_is_mo5` compares the tool's current table with it on every run.
  Provenance of the pinned table: the codes follow the order of Microsoft BASIC-80's reserved-word list
  (END FOR NEXT DATA DIM READ LET GO RUN IF RESTORE RETURN REM ' STOP ELSE TRON TROFF DEFSTR DEFINT DEFSNG
  DEFDBL ON …; functions SGN INT ABS FRE SQR LOG EXP COS SIN TAN PEEK LEN STR$ VAL ASC CHR$ … CVI CVS CVD
  MKI$ MKS$ MKD$ …); the four spellings ABS, SQR, FN, DSKINI and the four words LET, DEFDBL, CVD, MKD$ were
  wrong / missing in the pinned tree's table (fixes F24, F25); FF82 = ABS is confirmed by the real MO5
  programs bundled in tests/data (line 2510 of LSYSMO5B.BAS: `IANGLE=<FF82>(VAL(SVAL$)) MOD 360`), which
  C13's `real_programs` stream decodes with this table on every run.  The codes A7, B0 and D2 are
  unassigned here as in the tool's table (the words they stand for cannot be established offline).
-/
import MotoModel.Model.Py
import MotoModel.Spec.LineTools
namespace Moto.Spec.BasicRef
open Moto

/-- MO5 BASIC keywords and their token codes (two-byte function tokens are FFxx) -/
def mo5Tokens : List (Str × Nat) := [
  ([69, 78, 68], 128),
  ([70, 79, 82], 129),
  ([78, 69, 88, 84], 130),
  ([68, 65, 84, 65], 131),
  ([68, 73, 77], 132),
  ([82, 69, 65, 68], 133),
  ([76, 69, 84], 134),
  ([71, 79], 135),
  ([82, 85, 78], 136),
  ([73, 70], 137),
  ([82, 69, 83, 84, 79, 82, 69], 138),
  ([82, 69, 84, 85, 82, 78], 139),
  ([82, 69, 77], 140),
  ([39], 141),
  ([83, 84, 79, 80], 142),
  ([69, 76, 83, 69], 143),
  ([84, 82, 79, 78], 144),
  ([84, 82, 79, 70, 70], 145),
  ([68, 69, 70, 83, 84, 82], 146),
  ([68, 69, 70, 73, 78, 84], 147),
  ([68, 69, 70, 83, 78, 71], 148),
  ([68, 69, 70, 68, 66, 76], 149),
  ([79, 78], 150),
  ([84, 85, 78, 69], 151),
  ([69, 82, 82, 79, 82], 152),
  ([82, 69, 83, 85, 77, 69], 153),
  ([65, 85, 84, 79], 154),
  ([68, 69, 76, 69, 84, 69], 155),
  ([76, 79, 67, 65, 84, 69], 156),
  ([67, 76, 83], 157),
  ([67, 79, 78, 83, 79, 76, 69], 158),
  ([80, 83, 69, 84], 159),
  ([77, 79, 84, 79, 82], 160),
  ([83, 75, 73, 80, 70], 161),
  ([69, 88, 69, 67], 162),
  ([66, 69, 69, 80], 163),
  ([67, 79, 76, 79, 82], 164),
  ([76, 73, 78, 69], 165),
  ([66, 79, 88], 166),
  ([65, 84, 84, 82, 66], 168),
  ([68, 69, 70], 169),
  ([80, 79, 75, 69], 170),
  ([80, 82, 73, 78, 84], 171),
  ([67, 79, 78, 84], 172),
  ([76, 73, 83, 84], 173),
  ([67, 76, 69, 65, 82], 174),
  ([68, 79, 83], 175),
  ([78, 69, 87], 177),
  ([83, 65, 86, 69], 178),
  ([76, 79, 65, 68], 179),
  ([77, 69, 82, 71, 69], 180),
  ([79, 80, 69, 78], 181),
  ([67, 76, 79, 83, 69], 182),
  ([73, 78, 80, 69, 78], 183),
  ([80, 69, 78], 184),
  ([80, 76, 65, 89], 185),
  ([84, 65, 66], 186),
  ([84, 79], 187),
  ([83, 85, 66], 188),
  ([70, 78], 189),
  ([83, 80, 67], 190),
  ([85, 83, 73, 78, 71], 191),
  ([85, 83, 82], 192),
  ([69, 82, 76], 193),
  ([69, 82, 82], 194),
  ([79, 70, 70], 195),
  ([84, 72, 69, 78], 196),
  ([78, 79, 84], 197),
  ([83, 84, 69, 80], 198),
  ([43], 199),
  ([45], 200),
  ([42], 201),
  ([47], 202),
  ([94], 203),
  ([65, 78, 68], 204),
  ([79, 82], 205),
  ([88, 79, 82], 206),
  ([69, 81, 86], 207),
  ([73, 77, 80], 208),
  ([77, 79, 68], 209),
  ([62], 211),
  ([61], 212),
  ([60], 213),
  ([68, 83, 75, 73, 78, 73], 214),
  ([68, 83, 75, 79, 36], 215),
  ([75, 73, 76, 76], 216),
  ([78, 65, 77, 69], 217),
  ([70, 73, 69, 76, 68], 218),
  ([76, 83, 69, 84], 219),
  ([82, 83, 69, 84], 220),
  ([80, 85, 84], 221),
  ([71, 69, 84], 222),
  ([86, 69, 82, 73, 70, 89], 223),
  ([68, 69, 86, 73, 67, 69], 224),
  ([68, 73, 82], 225),
  ([70, 73, 76, 69, 83], 226),
  ([87, 82, 73, 84, 69], 227),
  ([85, 78, 76, 79, 65, 68], 228),
  ([66, 65, 67, 75, 85, 80], 229),
  ([67, 79, 80, 89], 230),
  ([67, 73, 82, 67, 76, 69], 231),
  ([80, 65, 73, 78, 84], 232),
  ([68, 82, 65, 87], 233),
  ([82, 69, 78, 85, 77], 234),
  ([83, 87, 65, 80], 235),
  ([83, 71, 78], 65408),
  ([73, 78, 84], 65409),
  ([65, 66, 83], 65410),
  ([70, 82, 69], 65411),
  ([83, 81, 82], 65412),
  ([76, 79, 71], 65413),
  ([69, 88, 80], 65414),
  ([67, 79, 83], 65415),
  ([83, 73, 78], 65416),
  ([84, 65, 78], 65417),
  ([80, 69, 69, 75], 65418),
  ([76, 69, 78], 65419),
  ([83, 84, 82, 36], 65420),
  ([86, 65, 76], 65421),
  ([65, 83, 67], 65422),
  ([67, 72, 82, 36], 65423),
  ([69, 79, 70], 65424),
  ([67, 73, 78, 84], 65425),
  ([67, 83, 78, 71], 65426),
  ([67, 68, 66, 76], 65427),
  ([70, 73, 88], 65428),
  ([72, 69, 88, 36], 65429),
  ([79, 67, 84, 36], 65430),
  ([83, 84, 73, 67, 75], 65431),
  ([83, 84, 82, 73, 71], 65432),
  ([71, 82, 36], 65433),
  ([76, 69, 70, 84, 36], 65434),
  ([82, 73, 71, 72, 84, 36], 65435),
  ([77, 73, 68, 36], 65436),
  ([73, 78, 83, 84, 82], 65437),
  ([86, 65, 82, 80, 84, 82], 65438),
  ([82, 78, 68], 65439),
  ([73, 78, 75, 69, 89, 36], 65440),
  ([73, 78, 80, 85, 84], 65441),
  ([67, 83, 82, 76, 73, 78], 65442),
  ([80, 79, 73, 78, 84], 65443),
  ([83, 67, 82, 69, 69, 78], 65444),
  ([80, 79, 83], 65445),
  ([80, 84, 82, 73, 71], 65446),
  ([68, 83, 75, 70], 65447),
  ([67, 86, 73], 65448),
  ([67, 86, 83], 65449),
  ([67, 86, 68], 65450),
  ([77, 75, 73, 36], 65451),
  ([77, 75, 83, 36], 65452),
  ([77, 75, 68, 36], 65453),
  ([76, 79, 67], 65454),
  ([76, 79, 70], 65455),
  ([83, 80, 65, 67, 69, 36], 65456),
  ([83, 84, 82, 73, 78, 71, 36], 65457),
  ([68, 83, 75, 73, 36], 65458)]

def codeOf (s : Str) : Option Nat := (mo5Tokens.find? (fun e => e.1 == s)).map (·.2)
def keywordOf (code : Nat) : Option Str := (mo5Tokens.find? (fun e => e.2 == code)).map (·.1)

def elseKw : Str := [69, 76, 83, 69]

/-- bytes of a keyword: its code (one byte, or FF xx); ELSE is stored with a colon before it -/
def keywordBytes (s : Str) : Bytes :=
  match codeOf s with
  | none => []
  | some v => (if s = elseKw then [0x3A] else []) ++ (if v < 256 then [v] else [v / 256, v % 256])

/-- detokenizer: each token expanded to its keyword; string literals verbatim.
    An unknown code is rendered as the character 0 (never produced by a printable listing). -/
def decode : Bool → Bytes → Str
  | _, [] => []
  | true, b :: r => b :: decode (b != 34) r
  | false, 0x3A :: 0x8F :: r => elseKw ++ decode false r
  | false, 0xFF :: x :: r => (keywordOf (0xFF00 + x)).getD [0] ++ decode false r
  | false, b :: r =>
    if b = 34 then b :: decode true r
    else if b ≥ 0x80 then (keywordOf b).getD [0] ++ decode false r
    else b :: decode false r

/-! ### reference encoder for delimited listings -/

/-- characters that end a word: the punctuation . , ( ) : blank, the double quote, and the
    one-character operator tokens -/
def isOperator (c : Nat) : Bool := (codeOf [c]).isSome
def isPunct (c : Nat) : Bool := c == 46 || c == 44 || c == 40 || c == 41 || c == 58 || c == 59 || c == 32
def isSep (c : Nat) : Bool := isPunct c || isOperator c || c == 34

def flushWord (w : Str) : Bytes := if (codeOf w).isSome then keywordBytes w else w

/-- state: inside a literal?, current word (upper-cased) -/
def encodeRefAux : Bool → Str → Str → Bytes
  | _, w, [] => flushWord w
  | true, _, c :: r => c :: encodeRefAux (c != 34) [] r
  | false, w, c :: r =>
    if c = 34 then flushWord w ++ c :: encodeRefAux true [] r
    else if isOperator c then flushWord w ++ keywordBytes [c] ++ encodeRefAux false [] r
    else if isPunct c then flushWord w ++ c :: encodeRefAux false [] r
    else encodeRefAux false (w ++ [upperC c]) r

def encodeRef (body : Str) : Bytes := encodeRefAux false [] body

/-- does the word contain a multi-character keyword as a contiguous substring? -/
def containsKeyword (w : Str) : Bool :=
  mo5Tokens.any fun e => e.1.length ≥ 2 && (List.range (w.length + 1 - e.1.length)).any fun i => startsWith e.1 (w.drop i)

/-- the words of a line outside string literals (upper-cased) -/
def wordsAux : Bool → Str → Str → List Str
  | _, w, [] => [w]
  | true, _, c :: r => wordsAux (c != 34) [] r
  | false, w, c :: r => if isSep c then w :: wordsAux (c == 34) [] r else wordsAux false (w ++ [upperC c]) r

/-- C13's domain: every word is exactly a keyword or contains no keyword -/
def delimited (body : Str) : Bool :=
  (wordsAux false [] body).all fun w => (codeOf w).isSome || !containsKeyword w

/-! ### program structure -/

def u16At (l : Bytes) (i : Nat) : Nat := l.getD i 0 * 256 + l.getD (i + 1) 0

/-- records of a program body: (link, line number, text bytes); stops at the zero link.
    `none` when a record is not terminated.  fuel = length. -/
def records : Nat → Bytes → Option (List (Nat × Nat × Bytes))
  | 0, _ => none
  | fuel + 1, l =>
    if l.length < 2 then none
    else if u16At l 0 = 0 then (if l.length = 2 then some [] else none)
    else if l.length < 5 then none
    else
      let text := (l.drop 4).takeWhile (· != 0)
      let rest := l.drop (4 + text.length)
      match rest with
      | 0 :: rest' => (records fuel rest').map fun rs => (u16At l 0, u16At l 2, text) :: rs
      | _ => none

structure Program where
  lines : List (Nat × Nat × Bytes)
  deriving Repr, DecidableEq

/-- structural validity (C13): FF, 16-bit length of what follows, records whose links advance
    by the record size from the MO5 program base 0x25A4, final zero link -/
def parseProgram (file : Bytes) : Option Program :=
  match file with
  | 0xFF :: hi :: lo :: body =>
    if hi * 256 + lo ≠ body.length then none
    else match records (body.length + 1) body with
      | none => none
      | some rs =>
        let rec linksOk : Nat → List (Nat × Nat × Bytes) → Bool
          | _, [] => true
          | ptr, (link, _, text) :: rest => link == ptr + text.length + 5 && linksOk link rest
        if linksOk 0x25A4 rs then some ⟨rs⟩ else none
  | _ => none

/-- decoded listing: line numbers and texts -/
def decodeProgram (file : Bytes) : Option (List (Nat × Str)) :=
  (parseProgram file).map fun p => p.lines.map fun r => (r.2.1, decode false r.2.2)

end Moto.Spec.BasicRef
