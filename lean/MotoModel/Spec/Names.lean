/-
  How a source argument is named in an archive.  The manuals (README-cli-tar / -fdar / -sdar) say only "the name and extension
  of the file" and "files with the extension `bas` … unless they are suffixed with `,a`"; the property texts say "under its
  upper-cased 8.3 name" and "whether the sources are reached by relative or absolute paths or from directories whose names
  contain dots".  This file is the *reading* of those words that the theorems are stated against — the last path component is
  cut at its last dot, both parts are upper-cased, the name is cut to 8 characters and the extension to 3 — said with
  `reverse` / `takeWhile` instead of the tool's `rfind` and index arithmetic, so that agreement with the code
  (`classify_eq_spec`, `splitSource_eq_spec`) is a guard against off-by-one and wrong-dot errors, not a proof that the tool
  implements a rule stated elsewhere: where the documents are silent the reading follows the tool.  Two such places, for the
  disk archivers only: the option `,a` is recognised after *any* extension (`x.txt,a` is read from `x.txt` and stored as
  `X.TXT`, with the default kind — the option is documented for `bas` alone), and without a dot the option stays in the name
  (`README,a` is read from `README` and catalogued `README,A`).  The tape archiver takes the option after `bas` only.
-/
import MotoModel.Model.Py
import MotoModel.Spec.K7
namespace Moto.Spec.Names
open Moto

/-- the last component of a path: what follows the last '/' -/
def baseName (p : Str) : Str := (p.reverse.takeWhile (· != 47)).reverse

/-- a base name cut at its last dot: what precedes it, and — when there is a dot — what follows it -/
def stemExt (b : Str) : Str × Option Str :=
  if b.contains 46 then
    ((b.reverse.dropWhile (· != 46)).drop 1 |>.reverse, some (b.reverse.takeWhile (· != 46)).reverse)
  else (b, none)

/-- `n` characters of a field, upper case -/
def field (n : Nat) (s : Str) : Str := (upper s).take n

/-- what the tape archiver makes of one source argument -/
structure TapeSource where
  name : Str
  ext : Str
  kind : Nat
  mode : Nat
  path : Str      -- the file that is read
  deriving Repr, DecidableEq

def basA : Str := [66, 65, 83, 44, 65]

/-- tape: name = 8 characters of the stem, extension = 3 characters of what follows the last dot, kind and mode from the
    documented table; the suffix `,a` after `bas` is an option, not part of the file's name -/
def tapeSource (src : Str) : TapeSource :=
  match stemExt (baseName src) with
  | (stem, none) => { name := field 8 stem, ext := [], kind := 2, mode := 0, path := src }
  | (stem, some e) =>
    let km := K7.kindMode (upper e)
    { name := field 8 stem, ext := field 3 e, kind := km.1, mode := km.2,
      path := if upper e = basA then src.dropLast.dropLast else src }

/-- does the argument end with the option `,a` (either case)? -/
def hasOption (src : Str) : Bool := upper (src.reverse.take 2).reverse == [44, 65]

/-- what the disk archivers make of one source argument: stem and extension of the last path component, upper-cased and
    *not* cut (a name beyond 8 or an extension beyond 3 characters is refused by the archiver), the extension with and
    without the option, the file that is read -/
structure DiskSource where
  name : Str
  ext : Str
  extWithOption : Str
  path : Str
  deriving Repr, DecidableEq

def diskSource (src : Str) : DiskSource :=
  let path := if hasOption src then src.dropLast.dropLast else src
  match stemExt (baseName src) with
  | (stem, none) => { name := upper stem, ext := [], extWithOption := [], path := path }
  | (stem, some e) =>
    { name := upper stem, ext := upper (if hasOption src then e.dropLast.dropLast else e), extWithOption := upper e, path := path }

end Moto.Spec.Names
