/-
  The Thomson DOS layout of one disk side, written from the layout description in the
  property texts (C04–C07), not from the tool's code: an independent reader (`files`), an
  independent consistency check (`fsck`) and an independent writer (`render`).

  Layout: 80 tracks x 16 sectors of 256 bytes.  Block b = track b/2, sectors 8*(b mod 2) .. +7.
  Track 20: sector 1 = allocation table (byte 0, then one status byte per block 0..159),
  sectors 2..15 = catalog, 8 entries of 32 bytes per sector.  Entry: name 8, extension 3,
  kind, ASCII flag, first block, bytes in last sector (16 bit, big endian); byte 0 = 00 deleted,
  FF never used.  Status: 0..159 next block, C1..C8 last block using 1..8 sectors, FE reserved,
  FF free.  A sector holds 255 bytes of file content.
-/
namespace Moto.Spec.Dos

abbrev Bytes := List Nat
abbrev Side := List Bytes     -- 1280 sectors of 256 bytes, index track*16 + sector

def sector (sd : Side) (track s : Nat) : Bytes := sd.getD (track * 16 + s) []

def table (sd : Side) : List Nat := ((sector sd 20 1).drop 1).take 160

def okStatus (s : Nat) : Bool := s < 160 || (0xC1 ≤ s && s ≤ 0xC8) || s == 0xFE || s == 0xFF

/-- the 112 catalog entries, 32 bytes each, in order -/
def entries (sd : Side) : List Bytes :=
  (List.range 14).flatMap fun k =>
    let sec := sector sd 20 (2 + k)
    (List.range 8).map fun j => (sec.drop (32 * j)).take 32

def live (e : Bytes) : Bool := e.getD 0 0 != 0 && e.getD 0 0 != 0xFF

/-- follow the chain from `first`; `none` when it leaves the table, meets a free or reserved
    block, or comes back on itself.  fuel = 160. -/
def chainFrom (tab : List Nat) : Nat → Nat → List Nat → Option (List Nat)
  | 0, _, _ => none
  | fuel + 1, b, seen =>
    if b ≥ 160 || seen.contains b then none else
    let s := tab.getD b 0xFF
    if s == 0xFF || s == 0xFE then none
    else if 0xC1 ≤ s && s ≤ 0xC8 then some (seen ++ [b])
    else if s < 160 then chainFrom tab fuel s (seen ++ [b])
    else none

structure DFile where
  slot : Nat
  name : Bytes
  ext : Bytes
  kind : Nat
  flag : Nat
  chain : List Nat
  lastSectors : Nat
  lastBytes : Nat
  content : Bytes
  deriving Repr, DecidableEq, Inhabited

def blockSector (sd : Side) (b s : Nat) : Bytes := sector sd (b / 2) (8 * (b % 2) + s)

/-- content held by a chain: 255 bytes per sector, the last sector `lastBytes` -/
def contentOf (sd : Side) (chain : List Nat) (lastSectors lastBytes : Nat) : Bytes :=
  let full := chain.dropLast.flatMap fun b => (List.range 8).flatMap fun s => (blockSector sd b s).take 255
  match chain.getLast? with
  | none => []
  | some b =>
    full ++ ((List.range (lastSectors - 1)).flatMap fun s => (blockSector sd b s).take 255)
         ++ (blockSector sd b (lastSectors - 1)).take lastBytes

/-- independent reader: every live file of the side, `none` if some live entry has no proper chain -/
def files (sd : Side) : Option (List DFile) :=
  let tab := table sd
  let rec go : List Bytes → Nat → List DFile → Option (List DFile)
    | [], _, acc => some acc.reverse
    | e :: rest, i, acc =>
      if live e then
        match chainFrom tab 160 (e.getD 13 0) [] with
        | none => none
        | some ch =>
          let lastS := tab.getD (ch.getLast?.getD 0) 0 - 0xC0
          let lastB := e.getD 14 0 * 256 + e.getD 15 0
          go rest (i + 1) (⟨i, e.take 8, (e.drop 8).take 3, e.getD 11 0, e.getD 12 0, ch, lastS, lastB,
                            contentOf sd ch lastS lastB⟩ :: acc)
      else go rest (i + 1) acc
  go (entries sd) 0 []

def pairwiseDisjoint : List (List Nat) → Bool
  | [] => true
  | c :: rest => rest.all (fun d => c.all fun b => !d.contains b) && pairwiseDisjoint rest

/-- consistency of one side.  `strict` adds what holds for images the tool itself creates:
    table byte 0 is zero. -/
def fsck (strict : Bool) (sd : Side) : Bool :=
  let tab := table sd
  sd.length == 1280 && sd.all (·.length == 256)
  && tab.length == 160 && tab.all okStatus
  && tab.getD 40 0 == 0xFE && tab.getD 41 0 == 0xFE
  && (!strict || (sector sd 20 1).getD 0 1 == 0)
  && match files sd with
     | none => false
     | some fs =>
       let chains := fs.map (·.chain)
       pairwiseDisjoint chains
       && fs.all (fun f => f.lastBytes ≤ 255 && !f.chain.isEmpty)
       -- used blocks are exactly the blocks of the chains
       && (List.range 160).all (fun b =>
            let s := tab.getD b 0
            let used := s != 0xFF && s != 0xFE
            used == chains.any (·.contains b))

/-! ### independent writer -/

structure AFile where
  slot : Nat
  name : Bytes        -- 8 bytes
  ext : Bytes         -- 3 bytes
  kind : Nat
  flag : Nat
  chain : List Nat
  lastSectors : Nat
  lastBytes : Nat
  content : Bytes
  deriving Repr, DecidableEq

structure ASide where
  files : List AFile
  deleted : List (Nat × Bytes)    -- slot, 32 raw bytes (byte 0 = 00)
  reserved : List Nat
  filler : Nat
  tableTail : Nat
  recPad : Nat
  byte0 : Nat
  deriving Repr, DecidableEq

def setAt (l : List α) (i : Nat) (x : α) : List α := l.set i x

/-- pad a slice to a whole sector with the filler -/
def fullSector (filler : Nat) (p : Bytes) : Bytes := p ++ List.replicate (256 - p.length) filler

/-- sectors of one file: (flat sector index, 256 bytes) -/
def fileSectors (filler : Nat) (f : AFile) : List (Nat × Bytes) :=
  let n := f.chain.length
  (List.range n).flatMap fun i =>
    let b := f.chain.getD i 0
    let cnt := if i + 1 = n then f.lastSectors else 8
    (List.range cnt).map fun s =>
      let k := 8 * i + s
      ((b / 2) * 16 + 8 * (b % 2) + s, fullSector filler ((f.content.drop (255 * k)).take 255))

def tableOf (a : ASide) : List Nat :=
  let base := (List.range 160).map fun b => if a.reserved.contains b then 0xFE else 0xFF
  a.files.foldl (fun tab f =>
    let n := f.chain.length
    (List.range n).foldl (fun t i =>
      let b := f.chain.getD i 0
      t.set b (if i + 1 = n then 0xC0 + f.lastSectors else f.chain.getD (i + 1) 0)) tab) base

def entryOf (recPad : Nat) (f : AFile) : Bytes :=
  f.name ++ f.ext ++ [f.kind, f.flag, f.chain.getD 0 0, f.lastBytes / 256, f.lastBytes % 256] ++ List.replicate 16 recPad

def catalogOf (a : ASide) : List Bytes :=
  let base : List Bytes := List.replicate 112 (List.replicate 32 0xFF)
  let withDel := a.deleted.foldl (fun c d => c.set d.1 d.2) base
  a.files.foldl (fun c f => c.set f.slot (entryOf a.recPad f)) withDel

/-- the side an independent DOS would have written for this description -/
def render (a : ASide) : Side :=
  let blank : Side := List.replicate 1280 (List.replicate 256 a.filler)
  let sd := a.files.foldl (fun sd f => (fileSectors a.filler f).foldl (fun sd p => sd.set p.1 p.2) sd) blank
  let sd := sd.set (20 * 16 + 1) ([a.byte0] ++ tableOf a ++ (List.range 95).map fun i => (a.tableTail * (i + 1)) % 256)
  let cat := catalogOf a
  (List.range 14).foldl (fun sd k => sd.set (20 * 16 + 2 + k) (((cat.drop (8 * k)).take 8).flatten)) sd

/-! ### which descriptions are well formed (executable) -/

def wfFileB (a : ASide) (f : AFile) : Bool :=
  decide (f.slot < 112) && f.name.length == 8 && f.ext.length == 3
  && f.name.getD 0 0 != 0 && f.name.getD 0 0 != 0xFF
  && !f.chain.isEmpty && decide f.chain.Nodup && f.chain.all (· < 160) && f.chain.all (fun b => !a.reserved.contains b)
  && decide (1 ≤ f.lastSectors) && decide (f.lastSectors ≤ 8) && decide (f.lastBytes ≤ 255)
  && decide (255 * (8 * (f.chain.length - 1) + f.lastSectors - 1) + f.lastBytes = f.content.length)

/-- the descriptions `render` is meant for: distinct slots, chains that are duplicate-free, inside
    the side, off the reserved blocks and pairwise disjoint, sizes that match the contents, deleted
    entries (first byte 00) in other slots -/
def wfDescB (a : ASide) : Bool :=
  a.files.all (wfFileB a)
  && a.reserved.contains 40 && a.reserved.contains 41
  && decide (a.files.map (·.slot)).Nodup
  && decide (a.files.Pairwise (fun f g => ∀ b ∈ f.chain, b ∉ g.chain))
  && a.deleted.all (fun d => decide (d.1 < 112) && d.2.length == 32 && d.2.getD 0 1 == 0 && a.files.all (fun f => f.slot != d.1))
  && decide (a.deleted.map (·.1)).Nodup

end Moto.Spec.Dos
