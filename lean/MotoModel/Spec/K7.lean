/-
  The MO5 .k7 format, written from the format description in the property texts (C03, C08),
  not from the tool's code: reference encoder for created tapes and an "independent writer"
  for arbitrary well-formed third-party tapes.
-/
import MotoModel.Model.Py
namespace Moto.Spec.K7
open Moto

structure SFile where
  name : Str      -- catalog name (upper case), any length: the field is padded / cut to 8
  ext : Str       -- extension, padded / cut to 3
  kind : Nat      -- 0 BASIC, 1 DATA, 2 BINARY
  mode : Nat      -- 0x0000 or 0xFFFF
  content : Bytes
  deriving Repr, DecidableEq

/-- checksum: makes the payload sum zero modulo 256 -/
def cks (p : Bytes) : Nat := (256 - p.sum % 256) % 256

/-- type, length = payload + 2 (mod 256), payload, checksum -/
def frame (ty : Nat) (p : Bytes) : Bytes := ty :: ((p.length + 2) % 256) :: (p ++ [cks p])

/-- sixteen 0x01 then 3C 5A -/
def sync : Bytes := List.replicate 16 1 ++ [0x3C, 0x5A]

def pad (n : Nat) (s : Str) : Bytes := (s ++ List.replicate n 32).take n

def leaderPayload (f : SFile) : Bytes :=
  pad 8 f.name ++ pad 3 f.ext ++ [f.kind, f.mode / 256, f.mode % 256]

/-- consecutive pieces of at most `n + 1` bytes (fuel = length) -/
def chunksFuel (n : Nat) : Nat → Bytes → List Bytes
  | 0, _ => []
  | fuel + 1, l => if l.isEmpty then [] else l.take (n + 1) :: chunksFuel n fuel (l.drop (n + 1))

def chunks254 (l : Bytes) : List Bytes := chunksFuel 253 l.length l

/-- leader block, data blocks, end block -/
def fileBlocks (f : SFile) : List (Nat × Bytes) :=
  (0, leaderPayload f) :: ((chunks254 f.content).map (fun c => (1, c)) ++ [(255, [])])

def encodeBlocks (bs : List (Nat × Bytes)) : Bytes := bs.flatMap (fun b => sync ++ frame b.1 b.2)

def encode (fs : List SFile) : Bytes := encodeBlocks (fs.flatMap fileBlocks)

def tapeLength : Nat := 21504

/-- encoded size: 21 bytes of framing per block, 35 per leader (18 sync + 3 + 14) -/
def encSize (fs : List SFile) : Nat :=
  (fs.map (fun f => 35 + ((chunks254 f.content).map (fun c => 21 + c.length)).sum + 21)).sum

/-- the archive the format prescribes for these files: blocks back to back, zero padding -/
def tape (fs : List SFile) : Bytes := encode fs ++ List.replicate (tapeLength - (encode fs).length) 0

/-- documented kind/mode of a source from its upper-cased extension (with the `,A` option) -/
def kindMode (extWithOption : Str) : Nat × Nat :=
  if extWithOption = [66, 65, 83] then (0, 0)
  else if extWithOption = [66, 65, 83, 44, 65] then (0, 0xFFFF)
  else if extWithOption = [67, 83, 86] then (1, 0)
  else (2, 0)

/-! ### independent writer for third-party tapes -/

/-- one written block: `lead` 0x01 bytes (≥ 3) before 3C 5A, any type byte, a payload of
    0..254 bytes, then an idle gap -/
structure WBlock where
  lead : Nat
  ty : Nat
  payload : Bytes
  gap : Bytes
  deriving Repr, DecidableEq

def renderBlock (b : WBlock) : Bytes :=
  List.replicate b.lead 1 ++ [0x3C, 0x5A] ++ frame b.ty b.payload ++ b.gap

/-- a tape: an initial idle gap, then the blocks -/
def render (pre : Bytes) (bs : List WBlock) : Bytes := pre ++ bs.flatMap renderBlock

/-- well-formedness of a written tape: leaders of at least three 0x01, payloads of at most 254
    bytes, idle gaps free of 0x3C (so no block marker can begin or end inside one) -/
def WBlock.wf (b : WBlock) : Prop := 3 ≤ b.lead ∧ b.payload.length ≤ 254 ∧ 0x3C ∉ b.gap

/-- the start-of-block pattern a reader looks for: three 0x01, 3C, 5A -/
def marker : Bytes := [1, 1, 1, 0x3C, 0x5A]

/-- does `l` begin with the pattern? -/
def beginsWithMarker : Bytes → Bool
  | 1 :: 1 :: 1 :: 0x3C :: 0x5A :: _ => true
  | _ => false

/-- an idle stretch: the pattern occurs nowhere in it (any other bytes, 3C included) -/
def idle : Bytes → Bool
  | [] => true
  | x :: xs => !beginsWithMarker (x :: xs) && idle xs

/-- the weakest well-formedness of a written tape: leaders of at least three 0x01, payloads of at most 254 bytes, idle
    stretches in which no start-of-block pattern occurs -/
def WBlock.wfIdle (b : WBlock) : Prop := 3 ≤ b.lead ∧ b.payload.length ≤ 254 ∧ idle b.gap = true

end Moto.Spec.K7
