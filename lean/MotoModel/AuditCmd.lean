import Lean
open Lean Elab Command

/-- `#audit_ns Foo` prints, for every theorem whose name starts with `Foo.`, one line
    `AUDIT <name> [axioms…]` — the list the kernel-checked proof depends on. -/
elab "#audit_ns " ns:ident : command => do
  let env ← getEnv
  let pre := ns.getId
  let mut names : Array Name := #[]
  for (n, ci) in env.constants.toList do
    if pre.isPrefixOf n && !n.isInternal then
      if let .thmInfo _ := ci then
        -- equation lemmas generated for definitions (`f.eq_1`, `f.eq_def`) are not property theorems
        let last := match n with | .str _ s => s | _ => ""
        if !(last.startsWith "eq_") && last != "injEq" && last != "sizeOf_spec" && last != "inj" then
          names := names.push n
  let sorted := names.qsort (fun a b => a.toString < b.toString)
  for n in sorted do
    let axs ← liftCoreM (Lean.collectAxioms n)
    let axl := axs.toList.map toString
    IO.println s!"AUDIT {n} {axl}"
