/-
  Models of moto_prettier (PrettierCli.processLine), moto_nl (NumberLineCli.processLine / run)
  and the two ASCII-BASIC converters (ListingToAsciiBasicConverter.convert,
  BasicToListingCli.run ascii branch).
-/
import MotoModel.Model.Py
import MotoModel.Gen.Py

namespace Moto

/-! ## moto_prettier -/

/-- `re.split('([^"])', line)`: alternating (possibly empty) runs of quotes and single
    non-quote characters: `[q0, [c1], q1, [c2], q2, …]`. -/
def reSplitQuote : Str → Str → List Str
  | acc, [] => [acc]
  | acc, c :: cs =>
    if c = 34 then reSplitQuote (acc ++ [c]) cs
    else acc :: [c] :: reSplitQuote [] cs

/-- the `for group in groups` loop; `depth` is `dquote_depth`. -/
def prettierGroups : Nat → List Str → Str
  | _, [] => []
  | depth, g :: gs =>
    let depth' := if g.head? = some 34 then (depth + g.length) % 2 else depth
    (if depth' = 0 then upper g else g) ++ prettierGroups depth' gs

/-- `processLine` without the final `print` newline. -/
def prettierLine (line : Str) : Str :=
  prettierGroups 0 (reSplitQuote [] (rstripNL line))

/-- whole run over one text: one output line per input line. -/
def prettierText (text : Str) : List Str := (readlines text).map prettierLine

/-- the lines of one source as Python's text layer delivers them: a file argument is opened in text mode (universal newlines:
    CR LF and CR end a line like LF and are read as LF); standard input on POSIX is not translated — only LF ends a line, a CR is
    an ordinary character of its line -/
def sourceLines (isStdin : Bool) (text : Str) : List Str := if isStdin then splitKeepNL text else readlines text

/-- the whole run of moto_prettier over its sources, standard input (named by `-`, or the only source when none is named) among them -/
def prettierSrc (srcs : List (Bool × Str)) : List Str := (srcs.flatMap (fun p => sourceLines p.1 p.2)).map prettierLine

/-! ## moto_nl -/

structure NlCfg where
  start : Nat
  incr : Nat
  width : Nat

/-- `re.search("^([1-9][0-9]*).*$", line)`: the leading number when the line starts with 1-9. -/
def leadingNumber (line : Str) : Option Nat :=
  match line with
  | [] => none
  | c :: _ => if 49 ≤ c ∧ c ≤ 57 then some (parseNat (line.takeWhile isDigit)) else none

/-- `processLine`: output line (without newline) and the next counter. -/
def nlLine (cfg : NlCfg) (num : Nat) (line : Str) : Str × Nat :=
  let l := rstripNL line
  match leadingNumber l with
  | none => (padRight (digits num) cfg.width ++ [32] ++ l, num + cfg.incr)
  | some n => (l, n + cfg.incr)

def nlLines (cfg : NlCfg) : Nat → List Str → List Str
  | _, [] => []
  | num, l :: ls => let r := nlLine cfg num l; r.1 :: nlLines cfg r.2 ls

/-- `run`: the files are processed one after the other with one counter. -/
def nlRun (cfg : NlCfg) (files : List Str) : List Str :=
  nlLines cfg cfg.start (files.flatMap readlines)

/-- `run` with standard input among the sources -/
def nlRunSrc (cfg : NlCfg) (srcs : List (Bool × Str)) : List Str :=
  nlLines cfg cfg.start (srcs.flatMap (fun p => sourceLines p.1 p.2))

/-! ## listing → ASCII BASIC, ASCII BASIC → listing -/

def isSpacePy (c : Nat) : Bool := Gen.Py.whitespace.contains c

/-- `ListingToAsciiBasicConverter.convert`. -/
def toAsciiBasic (text : Str) : Bytes :=
  13 :: (readlines text).flatMap (fun line => (rstripBy isSpacePy line).filter (· < 128) ++ [13])

/-- byte loop of `BasicToListingCli.run` in ascii mode; `n` is `lineOfCodeLength`. -/
def toListingLoop (eol : Bytes) : Nat → Bytes → Bytes
  | n, [] => if n > 0 then eol else []
  | n, b :: bs =>
    if b = 13 ∨ b = 10 then (if n > 0 then eol else []) ++ toListingLoop eol 0 bs
    else b :: toListingLoop eol (n + 1) bs

def toListing (dos : Bool) (data : Bytes) : Bytes :=
  toListingLoop (if dos then [13, 10] else [10]) 0 data

end Moto
