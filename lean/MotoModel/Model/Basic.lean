/-
  Model of moto_lib.basic: tokenizer.py (TokenizerContext) and converter_from_listing.py
  (ListingToTokenizedBasicConverter).  ASCII listings.
-/
import MotoModel.Model.Py
import MotoModel.Gen.Tokens

namespace Moto.Basic
open Moto

/-- `self._tokens[s]` -/
def tokenOf (s : Str) : Option Nat := (Gen.Tokens.tokens.find? (fun e => e.1 == s)).map (·.2)

def isToken (s : Str) : Bool := (tokenOf s).isSome

def requiresColon (s : Str) : Bool := Gen.Tokens.requireColon.contains s

/-- `bytesFromUint` -/
def bytesFromUint (v : Nat) : Bytes := if v < 256 then [v % 256] else [(v / 256) % 256, v % 256]

/-- bytes stored for keyword `s`: its code, preceded by a colon when the rule says so -/
def tokenBytes (s : Str) : Bytes :=
  (if requiresColon s then [0x3A] else []) ++ bytesFromUint ((tokenOf s).getD 0)

structure Ctx where
  done : Bytes := []
  cand : Bytes := []
  seq : Str := []
  bucket : Str := []
  deriving Repr, DecidableEq

/-- `TokenizerContext.commit` -/
def commit (c : Ctx) : Ctx := { done := c.done ++ c.cand ++ c.bucket, cand := [], seq := [], bucket := [] }

/-- `appendAsToken(inputSeq)`; the early-match branch calls itself once more (fuel) -/
def appendAsTokenFuel : Nat → Ctx → Str → Ctx
  | 0, c, _ => c
  | fuel + 1, c, inp =>
    let seq := c.seq ++ inp
    if isToken seq then { c with seq := seq, cand := tokenBytes seq, bucket := [] }
    else if isToken c.bucket then
      appendAsTokenFuel fuel { done := c.done ++ c.cand, cand := tokenBytes c.bucket, seq := c.bucket, bucket := [] } inp
    else if isToken inp then
      let c1 := commit { c with seq := seq }
      commit { c1 with cand := c1.cand ++ bytesFromUint ((tokenOf inp).getD 0) }
    else { c with seq := seq, bucket := c.bucket ++ inp }

def appendAsToken (c : Ctx) (inp : Str) : Ctx := appendAsTokenFuel 3 c inp

/-- `TokenizerContext.commitAsToken`: outside a string literal, a pending text that is exactly a
    keyword is tokenized before the commit -/
def commitAsToken (c : Ctx) : Ctx :=
  if isToken c.bucket then commit { c with done := c.done ++ c.cand, cand := tokenBytes c.bucket, bucket := [] }
  else commit c

/-- `appendAsLitteral` with the (empty) literal database -/
def appendAsLiteral (c : Ctx) (inp : Str) : Ctx := { c with seq := c.seq ++ inp, bucket := c.bucket ++ inp }

def isSpecial (ch : Nat) : Bool := Gen.Tokens.specialChars.contains ch

/-- one character of `parseLine`; the Bool is `isInLiteralString` -/
def parseChar (st : Ctx × Bool) (ch : Nat) : Ctx × Bool :=
  let (c, inLit) := st
  if ch = 34 then
    let c := if inLit then commit c else commitAsToken c
    let inLit := !inLit
    let c := if inLit then appendAsLiteral c [ch] else appendAsToken c [ch]
    (commit c, inLit)
  else if inLit then (appendAsLiteral c [ch], inLit)
  else if isSpecial ch then (commit (appendAsToken c [ch]), inLit)
  else (appendAsToken c [upperC ch], inLit)

/-- end of `parseLine` (outside a literal, a pending keyword is tokenized) and the final `commit` of `convert` -/
def finish (st : Ctx × Bool) : Ctx := commit (if st.2 then st.1 else commitAsToken st.1)

/-- `parseLine` followed by the final `commit`: the encoded text of one line -/
def encodeBody (body : Str) : Bytes := (finish (body.foldl parseChar ({}, false))).done

/-- `extractLineParts` (after the repair); `none` = ValueError (no line number) -/
def extractLineParts (line : Str) : Option (Nat × Str) :=
  match line with
  | [] => none
  | ch :: _ =>
    if 49 ≤ ch ∧ ch ≤ 57 then
      let ds := line.takeWhile isDigit
      let rest := line.drop ds.length
      let rest := if rest.getLast? = some 10 then rest.dropLast else rest
      let rest := if rest.head? = some 32 then rest.drop 1 else rest
      some (parseNat ds, rest)
    else none

def u16 (v : Nat) : Bytes := [(v / 256) % 256, v % 256]

/-- the `for line in lines` loop of `convert`; `none` = ValueError -/
def convertLines : Nat → List Str → Option Bytes
  | _, [] => some []
  | ptr, line :: rest =>
    match extractLineParts line with
    | none => none
    | some (num, body) =>
      let buf := encodeBody body ++ [0]
      let ptr' := ptr + buf.length + 4
      match convertLines ptr' rest with
      | none => none
      | some more => some (u16 ptr' ++ u16 num ++ buf ++ more)

/-- `ListingToTokenizedBasicConverter.convert`: the bytes of the .bas file -/
def convert (text : Str) : Option Bytes :=
  match convertLines Gen.Tokens.programBase (readlines text) with
  | none => none
  | some records =>
    let body := records ++ [0, 0]
    some ([0xFF] ++ u16 body.length ++ body)

end Moto.Basic
