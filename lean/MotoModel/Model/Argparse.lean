/-
  A model of CPython 3.12's `argparse.ArgumentParser.parse_known_args`, for parsers of the shape the
  seven tools build: options that take no value (`store_true`, `store_const`, `help`) or exactly one
  (`nargs=None`, `type` str or int), one optional required exclusive group of constant-storing
  options, positionals with `nargs=None`, `nargs='*'` and `nargs='+'`, prefix character '-', no abbreviations
  unless `allow_abbrev`.  The parser description is `Gen.Cli.Tool`, regenerated from the source.
  The function mirrors `_parse_known_args` step by step: classification of every argument string
  (`_parse_optional`, `_get_option_tuples`), the alternation of `consume_positionals` /
  `consume_optional`, clustered single-dash flags, explicit `=value` arguments, the removal of the
  first `--` by `_get_values`, the conflict test of the exclusive group, the required tests, and what
  the tools' `run()` do with the result (`Gen.Cli.ParseMode`).
  Import-free apart from the generated description: linked into the compiled driver.
-/
import MotoModel.Gen.Cli
import MotoModel.Model.Py
namespace Moto.Argparse
open Moto Moto.Gen.Cli

/-- a value of the namespace -/
inductive Val where
  | none
  | bool (b : Bool)
  | str (s : Str)
  | int (i : Int)
  | list (l : List Str)
  deriving Repr, DecidableEq

/-- outcome of parsing: help printed (exit status 0), error (exit status 2), or a namespace and the
    unrecognised arguments -/
inductive Out where
  | help
  | error
  | ok (ns : List (Str × Val)) (extras : List Str)
  deriving Repr, DecidableEq

/-- how a run ends before its end: the help option was met (exit status 0), or an error (exit status 2) -/
inductive Stop where
  | help
  | bad
  deriving Repr, DecidableEq

def Stop.out : Stop → Out
  | .help => .help
  | .bad => .error

def dash : Nat := 45
def dashdash : Str := [45, 45]

/-- `_option_string_actions`, in insertion order -/
def optionMap (t : Tool) : List (Str × Action) := t.actions.flatMap (fun a => a.opts.map (fun o => (o, a)))

def findOpt (t : Tool) (s : Str) : Option Action := ((optionMap t).find? (fun p => p.1 == s)).map (·.2)

def allDigits (s : Str) : Bool := !s.isEmpty && s.all isDigit

/-- `'^-\d+$|^-\d*\.\d+$'` on an ASCII string without line feed -/
def negNumber (s : Str) : Bool :=
  match s with
  | 45 :: r =>
    allDigits r ||
      (match r.dropWhile isDigit with
       | 46 :: ds => allDigits ds
       | _ => false)
  | _ => false

def hasNegOpts (t : Tool) : Bool := (optionMap t).any (fun p => negNumber p.1)

/-- `s.split('=', 1)` when '=' occurs -/
def splitEq (s : Str) : Str × Str := (s.takeWhile (· != 61), (s.dropWhile (· != 61)).drop 1)

/-- `_get_option_tuples` -/
def optionTuples (t : Tool) (s : Str) : List (Action × Str × Option Str) :=
  if s.getD 1 0 == dash then
    if t.allowAbbrev then
      let pre := if s.contains 61 then (splitEq s).1 else s
      let ex : Option Str := if s.contains 61 then some (splitEq s).2 else none
      (optionMap t).filterMap (fun p => if startsWith pre p.1 then some (p.2, p.1, ex) else none)
    else []
  else
    let short := s.take 2
    let shortEx := s.drop 2
    (optionMap t).filterMap (fun p =>
      if p.1 == short then some (p.2, p.1, some shortEx)
      else if startsWith s p.1 then some (p.2, p.1, none)
      else none)

/-- what `_parse_optional` says of one argument string -/
inductive Cls where
  | pos
  | opt (a : Action) (os : Str) (ex : Option Str)
  | unknown
  | ambiguous
  deriving Repr, DecidableEq

def classify (t : Tool) (s : Str) : Cls :=
  if s.isEmpty then .pos
  else if s.head? != some dash then .pos
  else match findOpt t s with
    | some a => .opt a s none
    | none =>
      if s.length == 1 then .pos
      else
        match (if s.contains 61 then (findOpt t (splitEq s).1).map (fun a => (a, (splitEq s).1, (splitEq s).2)) else none) with
        | some (a, o, e) => .opt a o (some e)
        | none =>
          match optionTuples t s with
          | [(a, o, e)] => .opt a o e
          | _ :: _ :: _ => .ambiguous
          | [] =>
            if negNumber s && !hasNegOpts t then .pos
            else if s.contains 32 then .pos
            else .unknown

/-- one argument string with its letter of the pattern: '-' (the first `--`), 'A', 'O' -/
inductive Tok where
  | dd
  | arg (s : Str)
  | opt (s : Str) (a : Action) (os : Str) (ex : Option Str)
  | unk (s : Str)
  deriving Repr, DecidableEq

def Tok.str : Tok → Str
  | .dd => dashdash
  | .arg s => s
  | .opt s _ _ _ => s
  | .unk s => s

def Tok.isO : Tok → Bool
  | .opt .. => true
  | .unk _ => true
  | _ => false

def Tok.isArg : Tok → Bool
  | .arg _ => true
  | _ => false

def Tok.isDD : Tok → Bool
  | .dd => true
  | _ => false

/-- the pattern of the whole command line; `none`: an ambiguous option string (an error at once) -/
def tokenize (t : Tool) : List Str → Option (List Tok)
  | [] => some []
  | s :: rest =>
    if s == dashdash then some (.dd :: rest.map .arg)
    else
      match classify t s with
      | .ambiguous => none
      | .pos => (tokenize t rest).map (Tok.arg s :: ·)
      | .unknown => (tokenize t rest).map (Tok.unk s :: ·)
      | .opt a o e => (tokenize t rest).map (Tok.opt s a o e :: ·)

structure St where
  pos : List Action
  ns : List (Str × Val)
  seen : List Str
  group : Option Action
  extras : List Str
  deriving Repr, DecidableEq

def setNs (ns : List (Str × Val)) (k : Str) (v : Val) : List (Str × Val) :=
  if ns.any (fun p => p.1 == k) then ns.map (fun p => if p.1 == k then (k, v) else p) else ns ++ [(k, v)]

def isSpace (c : Nat) : Bool := c == 32 || (9 ≤ c && c ≤ 13) || (28 ≤ c && c ≤ 31)

/-- digits with single underscores between them (`int()` of Python 3) -/
def digitsUnderscore : Str → Bool
  | [] => false
  | [c] => isDigit c
  | c :: 95 :: rest => isDigit c && digitsUnderscore rest
  | c :: rest => isDigit c && digitsUnderscore rest

/-- `int(s)` on an ASCII string: surrounding white space, a sign, digits with single underscores -/
def pyInt (s : Str) : Option Int :=
  let u := rstripBy isSpace (lstripBy isSpace s)
  let (neg, body) := match u with
    | 45 :: r => (true, r)
    | 43 :: r => (false, r)
    | r => (false, r)
  if digitsUnderscore body then
    let n : Int := (parseNat (body.filter (· != 95)) : Nat)
    some (if neg then -n else n)
  else none

/-- `list.remove('--')` when present -/
def removeFirstDD : List Str → List Str
  | [] => []
  | s :: rest => if s == dashdash then rest else s :: removeFirstDD rest

/-- the value `_get_values` builds and the action stores -/
def valueOf (a : Action) (args : List Str) : Option Val :=
  if a.nargs == 0 then some (if a.const.isEmpty then .bool true else .str a.const)
  else if a.nargs == 2 || a.nargs == 4 then some (.list (removeFirstDD args))
  else
    match removeFirstDD args with
    | [s] => if a.isInt then (pyInt s).map .int else some (.str s)
    | l => if a.isInt then (if l.all (fun s => (pyInt s).isSome) then some (.list l) else none) else some (.list l)

def helpDest : Str := [104, 101, 108, 112]

/-- an option of the exclusive group met after another option of the group was taken -/
def conflicts (g : Option Action) (a : Action) : Bool :=
  a.inGroup && (match g with | some b => b.opts != a.opts | none => false)

/-- `take_action` -/
def takeAction (st : St) (a : Action) (args : List Str) : Except Stop St :=
  match valueOf a args with
  | none => .error .bad
  | some v =>
    if conflicts st.group a then .error .bad
    else if a.dest == helpDest then .error .help
    else .ok { st with ns := setNs st.ns a.dest v, seen := a.dest :: st.seen, group := if a.inGroup then some a else st.group }

/-- the option has no explicit argument: its arguments are taken from the strings that follow -/
def noExplicit (a : Action) (acc : List (Action × List Str)) (rest : List Tok) : Except Stop (List (Action × List Str) × List Tok) :=
  if a.nargs == 0 then .ok (acc ++ [(a, [])], rest)
  else match rest with
    | .arg s :: r => .ok (acc ++ [(a, [s])], r)
    | _ => .error .bad

/-- the loop of `consume_optional` for an option string that carries an explicit argument `e`
    (`-xyz`, `--opt=value`) -/
def clusterGo (t : Tool) (a : Action) (os : Str) : Str → List (Action × List Str) → List Tok → Except Stop (List (Action × List Str) × List Tok)
  | [], acc, rest => if a.nargs == 0 then .error .bad else .ok (acc ++ [(a, [[]])], rest)
  | c :: e, acc, rest =>
    if a.nargs == 0 then
      if os.getD 1 0 != dash then
        match findOpt t [dash, c] with
        | some a' =>
          if e.isEmpty then noExplicit a' (acc ++ [(a, [])]) rest
          else clusterGo t a' [dash, c] e (acc ++ [(a, [])]) rest
        | none => .error .bad
      else .error .bad
    else .ok (acc ++ [(a, [c :: e])], rest)

def takeAll (st : St) : List (Action × List Str) → Except Stop St
  | [] => .ok st
  | (a, args) :: more =>
    match takeAction st a args with
    | .error o => .error o
    | .ok st' => takeAll st' more

/-- `consume_optional` at a recognised option -/
def consumeOpt (t : Tool) (st : St) (a : Action) (os : Str) (ex : Option Str) (rest : List Tok) : Except Stop (St × List Tok) :=
  match (match ex with | none => noExplicit a [] rest | some e => clusterGo t a os e [] rest) with
  | .error o => .error o
  | .ok (acts, rest') =>
    match takeAll st acts with
    | .error o => .error o
    | .ok st' => .ok (st', rest')

/-- greedy match of the positionals' patterns `(-*A-*)` / `(-*[A-]*)`, one after the other, against
    the pattern of the remaining strings (exact for parsers in which no `*` positional is followed by
    another positional: `wellShaped`) -/
def matchSlice : List Action → List Tok → Option (List Nat)
  | [], _ => some []
  | a :: more, toks =>
    if a.nargs == 3 then
      let d1 := (toks.takeWhile Tok.isDD).length
      match toks.drop d1 with
      | .arg _ :: r =>
        let d2 := (r.takeWhile Tok.isDD).length
        (matchSlice more (r.drop d2)).map ((d1 + 1 + d2) :: ·)
      | _ => none
    else if a.nargs == 4 then
      -- `(-*A[A-]*)`: at least one string
      let d1 := (toks.takeWhile Tok.isDD).length
      match toks.drop d1 with
      | .arg _ :: r =>
        let n := (r.takeWhile (fun k => k.isDD || k.isArg)).length
        (matchSlice more (r.drop n)).map ((d1 + 1 + n) :: ·)
      | _ => none
    else
      let n := (toks.takeWhile (fun k => k.isDD || k.isArg)).length
      (matchSlice more (toks.drop n)).map (n :: ·)

/-- `_match_arguments_partial`: the longest prefix of the positionals that matches -/
def matchPartial (pos : List Action) (toks : List Tok) : List Nat :=
  let rec go : Nat → List Nat
    | 0 => []
    | i + 1 => match matchSlice (pos.take (i + 1)) toks with
      | some r => r
      | none => go i
  go pos.length

/-- hand the matched strings to the positionals in turn -/
def feedPos (st : St) : List Action → List Nat → List Tok → Except Stop (St × Nat)
  | a :: more, c :: counts, toks =>
    match takeAction st a ((toks.take c).map Tok.str) with
    | .error o => .error o
    | .ok st' =>
      match feedPos st' more counts (toks.drop c) with
      | .error o => .error o
      | .ok (st'', n) => .ok (st'', c + n)
  | _, _, _ => .ok (st, 0)

/-- `consume_positionals`: the state afterwards and how many strings were consumed -/
def consumePos (st : St) (toks : List Tok) : Except Stop (St × Nat) :=
  let counts := matchPartial st.pos toks
  match feedPos st st.pos counts toks with
  | .error o => .error o
  | .ok (st', n) => .ok ({ st' with pos := st'.pos.drop counts.length }, n)

/-- the required tests at the end of `_parse_known_args` -/
def finish (t : Tool) (st : St) : Out :=
  if (t.actions.any (fun a => (a.nargs == 3 || a.nargs == 4) && !st.seen.contains a.dest)) then .error
  else if t.groupRequired && st.group.isNone then .error
  else .ok st.ns st.extras

/-- the strings that follow the last option string: positionals, then extras, then the required tests -/
def finalPhase (t : Tool) (toks : List Tok) (st : St) : Out :=
  match consumePos st toks with
  | .error o => o.out
  | .ok (st', c) => finish t { st' with extras := st'.extras ++ (toks.drop c).map Tok.str }

/-- the next string is an option string: an unknown one joins the extras, a recognised one is consumed with its
    arguments; `k` is the rest of the run -/
def optStep (t : Tool) (k : List Tok → St → Out) (toks : List Tok) (st : St) : Out :=
  match toks with
  | .unk s :: rest => k rest { st with extras := st.extras ++ [s] }
  | .opt _ a os ex :: rest =>
    (match consumeOpt t st a os ex rest with
     | .error o => o.out
     | .ok (st', rest') => k rest' st')
  | _ => Out.error

/-- how many strings precede the next option string -/
def nonO (toks : List Tok) : Nat := (toks.takeWhile (fun x => !x.isO)).length

/-- one round of the main loop of `_parse_known_args` on the strings that remain; `k` is the rest of the run -/
def loopBody (t : Tool) (k : List Tok → St → Out) (toks : List Tok) (st : St) : Out :=
  if !toks.any Tok.isO then finalPhase t toks st
  else if nonO toks > 0 then
    match consumePos st toks with
    | .error o => o.out
    | .ok (st', c) =>
      if c > 0 then k (toks.drop c) st'
      else optStep t k (toks.drop (nonO toks)) { st' with extras := st'.extras ++ (toks.take (nonO toks)).map Tok.str }
  else optStep t k toks st

/-- the main loop: at most `fuel` rounds (every round consumes a string; `parseKnown` gives one more than there are strings) -/
def loop (t : Tool) : Nat → List Tok → St → Out
  | 0, _, _ => .error
  | fuel + 1, toks, st => loopBody t (loop t fuel) toks st

/-- the namespace before parsing: every destination with its default -/
def initNs (t : Tool) : List (Str × Val) :=
  t.actions.foldl (fun ns a =>
    if a.dest == helpDest || ns.any (fun p => p.1 == a.dest) then ns
    else ns ++ [(a.dest,
      if a.isInt then (match pyInt a.default with | some i => Val.int i | none => Val.none)
      else if a.nargs == 0 && a.const.isEmpty then Val.bool false
      else Val.none)]) []

def initSt (t : Tool) : St :=
  { pos := t.actions.filter (fun a => a.opts.isEmpty), ns := initNs t, seen := [], group := none, extras := [] }

/-- `parser.parse_known_args(argv)` -/
def parseKnown (t : Tool) (argv : List Str) : Out :=
  match tokenize t argv with
  | none => .error
  | some toks => loop t (toks.length + 1) toks (initSt t)

def eosWord : Str := [45, 45, 69, 79, 83]
def sourcesDest : Str := [115, 111, 117, 114, 99, 101, 115]

/-- `args.sources` as the parser filled it -/
def oldSources (ns : List (Str × Val)) : List Str :=
  match ns.find? (fun p => p.1 == sourcesDest) with
  | some (_, .list l) => l
  | _ => []

/-- the arguments a tool's `run()` works with: `parse_args()` refuses anything unrecognised; the disk
    archivers refuse every unrecognised string that starts with '-' other than `--eos` (any letter
    case) and append the rest to the sources -/
def cliParse (t : Tool) (argv : List Str) : Out :=
  match parseKnown t argv with
  | .ok ns extras =>
    (match t.parseMode with
     | .strict => if extras.isEmpty then .ok ns [] else .error
     | .knownThenEosFilter =>
       if extras.any (fun e => e.head? == some dash && upper e != eosWord) then .error
       else
         .ok (setNs ns sourcesDest (.list (oldSources ns ++ extras))) []
     | .other => .error)
  | o => o

/-- the sequential greedy match is the regular-expression match when no `*` positional is followed by
    another positional -/
def wellShaped (t : Tool) : Bool :=
  let pos := t.actions.filter (fun a => a.opts.isEmpty)
  (pos.dropLast.all (fun a => a.nargs == 3)) && pos.all (fun a => a.nargs == 2 || a.nargs == 3 || a.nargs == 4) &&
    (t.actions.all (fun a => a.opts.isEmpty || a.nargs == 0 || a.nargs == 1))

end Moto.Argparse
