/-
  Model of the command-line layer of the two converters: `ListingToBasicCli.run` (moto_lst2bas/lst2bas.py) and
  `BasicToListingCli.run` (moto_bas2lst/bas2lst.py) after argument parsing — which converter a source goes to (its
  extension after the last dot, the option `,a`), which file is read, which file is written, what happens to the
  remaining sources when one fails.  The conversions themselves are `Basic.convert`, `toAsciiBasic`, `toListing`.
  The world maps a path to the content of the file there: decoded text (code points) for listings, bytes for BASIC files.
-/
import MotoModel.Model.Basic
import MotoModel.Model.LineTools
namespace Moto.Conv
open Moto

def str (s : String) : Str := s.toList.map Char.toNat

/-- files written (in order; `open(p, "wb")` creates or truncates `p`) and the exception that ended the run, if any -/
structure Out where
  writes : List (Str × Bytes) := []
  err : Option PyErr := none
  deriving Repr, DecidableEq

/-- what a listing file holds: text (decoded, as code points), or bytes that are not UTF-8 — `readlines()` then raises
    `UnicodeDecodeError`, after the target was created / truncated -/
inductive Listing where
  | text (t : Str)
  | undecodable
  deriving Repr, DecidableEq

/-- one source of `moto_lst2bas` -/
def lst2basOne (w : Str → Option Listing) (source : Str) : Out :=
  match rfindFrom 46 source 0 with
  | none => { err := some (.valueError "file.without.extension") }
  | some dp =>
    let ext := upper (source.drop (dp + 1))
    if ext = str "LST" then
      -- processIntoTokenizedBasicFile: the listing is opened, then the target (created / truncated), then converted
      match w source with
      | none => { err := some (.osError "FileNotFoundError") }
      | some .undecodable => { writes := [(source.take (source.length - 3) ++ str "bas", [])], err := some .unicodeError }
      | some (.text text) =>
        let target := source.take (source.length - 3) ++ str "bas"
        match Basic.convert text with
        | none => { writes := [(target, [])], err := some (.valueError "No line number in this line") }
        | some b => { writes := [(target, b)] }
    else if ext = str "LST,A" then
      -- processIntoAsciiBasicFile: the option is taken off the name
      let src := source.take (source.length - 2)
      match w src with
      | none => { err := some (.osError "FileNotFoundError") }
      | some .undecodable => { writes := [(src.take (src.length - 3) ++ str "bas", [])], err := some .unicodeError }
      | some (.text text) => { writes := [(src.take (src.length - 3) ++ str "bas", toAsciiBasic text)] }
    else { err := some (.valueError "Extension 'lst' (case insensitive) not found") }

/-- the `for source in args.sources` loop of either tool: the first failure ends the run, what was written stays -/
def runSeq (one : Str → Out) : List Str → Out
  | [] => {}
  | s :: rest =>
    let o := one s
    match o.err with
    | some _ => o
    | none => let r := runSeq one rest; { writes := o.writes ++ r.writes, err := r.err }

/-- `ListingToBasicCli.run` -/
def lst2basRun (w : Str → Option Listing) (sources : List Str) : Out := runSeq (lst2basOne w) sources

/-- one source of `moto_bas2lst` -/
def bas2lstOne (w : Str → Option Bytes) (dos : Bool) (source : Str) : Out :=
  let asciiMode : Bool := upper (source.drop (source.length - 2)) = str ",A"
  let src := if asciiMode then source.take (source.length - 2) else source
  if upper (src.drop (src.length - 3)) ≠ str "BAS" then { err := some (.valueError "Extension 'BAS' (case insensitive) not found") }
  else
    match w src with
    | none => { err := some (.osError "FileNotFoundError") }
    | some data => if asciiMode then { writes := [(src.take (src.length - 3) ++ str "lst", toListing dos data)] } else {}

/-- `BasicToListingCli.run` -/
def bas2lstRun (w : Str → Option Bytes) (dos : Bool) (sources : List Str) : Out := runSeq (bas2lstOne w dos) sources

end Moto.Conv
