/-
  Model of moto_lib.fs_tape (block.py, block_descriptor.py, tape.py, listeners.py,
  image_worker/*) and of the part of moto_tar/tar.py that follows argument parsing.
  Each function mirrors the Python function named in its comment.
-/
import MotoModel.Model.Py
import MotoModel.Gen.Py
import MotoModel.Gen.Tape

namespace Moto.Tape
open Moto

/-! ## block.py -/

/-- `TapeBlock.computeChecksum` -/
def checksum (data : Bytes) : Nat :=
  (256 - data.foldl (fun s b => (s + b) % 256) 0) % 256

/-- `TapeBlock.buildFromData(data, type)` with `data is not None` -/
def buildFromData (ty : Nat) (data : Bytes) : Bytes :=
  [ty, (data.length + 2) % 256] ++ data ++ [checksum data]

/-- `TapeBlock.buildFromData(None, type)` -/
def buildEmpty (ty : Nat) : Bytes := [ty, 2, 0]

/-- `TapeBlock.body` = `rawData[2:-1]` -/
def body (raw : Bytes) : Bytes := (raw.drop 2).take (raw.length - 1 - 2)

/-! ## block_descriptor.py -/

structure Desc where
  name : Str
  ext : Str
  kind : Nat
  mode : Nat
  deriving Repr, DecidableEq

/-- `LeaderTapeBlockDescriptor.toTapeBlock` (ASCII names) -/
def leaderBlock (d : Desc) : Bytes :=
  let data : Bytes := List.replicate 14 0
  let data := sliceAssign data 0 8 ((upper d.name ++ List.replicate 8 32).take 8)
  let data := sliceAssign data 8 11 ((upper d.ext ++ List.replicate 3 32).take 3)
  let data := data.set 11 (d.kind % 256)
  let data := data.set 12 ((d.mode / 256) % 256)
  let data := data.set 13 (d.mode % 256)
  buildFromData Gen.Tape.typeLeader data

def isSpace (c : Nat) : Bool := Gen.Py.whitespace.contains c

/-- `str.strip()` -/
def strip (s : Str) : Str := rstripBy isSpace (lstripBy isSpace s)

/-- `LeaderTapeBlockDescriptor.buildFromTapeBlock(rawData)`; ASCII bytes only (the driver
    rejects others as unmodelled) -/
def descOfBlock (raw : Bytes) : Except PyErr Desc :=
  if raw.length ≤ 15 then .error .indexError
  else .ok { name := strip (slice raw 2 10), ext := strip (slice raw 10 13),
             kind := raw.getD 13 0, mode := raw.getD 14 0 * 256 + raw.getD 15 0 }

/-! ## tape.py -/

/-- writer state: `Tape.rawData`, `Tape._position` -/
structure TapeW where
  buf : Bytes
  pos : Nat

def blank : TapeW := { buf := List.replicate Gen.Tape.tapeSize Gen.Tape.blankByte, pos := 0 }

/-- `Tape.writeBlock`: `none` is the `OverflowError` -/
def writeBlock (t : TapeW) (raw : Bytes) : Option TapeW :=
  let maxPosition := t.buf.length
  let position := t.pos
  let nextPosition := position + Gen.Tape.writeMarker.length
  if nextPosition ≥ maxPosition then none else
  let buf := sliceAssign t.buf position nextPosition Gen.Tape.writeMarker
  let position := nextPosition
  let nextPosition := position + raw.length
  if nextPosition ≥ maxPosition then none else
  some { buf := sliceAssign buf position nextPosition raw, pos := nextPosition }

/-- `Tape.nextBlock` on the not-yet-read suffix: the block and the new suffix.
    `none` with the suffix left: Python returned `None`. -/
def nextBlock (rest : Bytes) : Option Bytes × Bytes :=
  match findSub Gen.Tape.readMarker rest with
  | none => (none, [])
  | some k =>
    let r := rest.drop (k + Gen.Tape.readMarker.length)
    if r.length ≥ 2 then
      let len := r.getD 1 0
      let n := if len > 0 then len + 1 else 257
      (some (r.take n), r.drop n)
    else (none, r)

/-- all blocks in reading order (`while block is not None`), fuel = suffix length -/
def readAllFuel : Nat → Bytes → List Bytes
  | 0, _ => []
  | fuel + 1, rest =>
    match nextBlock rest with
    | (none, _) => []
    | (some b, rest') => b :: readAllFuel fuel rest'

def readAll (buf : Bytes) : List Bytes := readAllFuel (buf.length + 1) buf

/-! ## listeners.py -/

structure Listener where
  verbose : Bool
  blockIndex : Nat := 0
  started : Bool := false        -- blockCount / fileSize / firstBlock attributes exist
  current : Option Desc := none  -- currentFile (None after onEndBlock; unset before any file)
  blockCount : Nat := 0
  fileSize : Nat := 0
  firstBlock : Nat := 0

def onBeginFileBlock (l : Listener) (d : Desc) : Listener :=
  { l with blockIndex := l.blockIndex + 1, current := some d, blockCount := 0, fileSize := 0,
           firstBlock := l.blockIndex + 1, started := true }

/-- `AttributeError` when no file was ever begun -/
def onDataBlock (l : Listener) (raw : Bytes) : Except PyErr Listener :=
  if !l.started then .error .attributeError
  else .ok { l with blockIndex := l.blockIndex + 1, blockCount := l.blockCount + 1,
                    fileSize := l.fileSize + (body raw).length }

def str (s : String) : Str := s.toList.map Char.toNat

/-- the line printed by `printOnEndBlock` -/
def endLine (l : Listener) (d : Desc) : Str :=
  if l.verbose then
    let fileType := if d.kind = 0 then str "BASIC" else if d.kind = 1 then str "DATA" else str "BINARY"
    let fileMode := if d.kind = 0 then (if d.mode = 0xFFFF then str "ASCII" else str "TOKEN") else digits d.mode
    d.name ++ [46] ++ d.ext ++ [9] ++ fileType ++ [9] ++ fileMode ++ [9, 35] ++ digits l.firstBlock
      ++ [9] ++ digits l.fileSize ++ str " octets" ++ [9] ++ digits l.blockCount ++ str " blocks."
  else d.name ++ [46] ++ d.ext

/-- `onEndBlock`: the printed line and the new state; `AttributeError` without current file -/
def onEndBlock (l : Listener) : Except PyErr (Str × Listener) :=
  match l.current with
  | none => .error .attributeError
  | some d => .ok (endLine { l with blockIndex := l.blockIndex + 1 } d,
                   { l with blockIndex := l.blockIndex + 1, current := none })

/-! ## outcome of a worker -/

inductive Status where
  | ret (code : Nat)
  | raised (e : PyErr)
  deriving Repr, DecidableEq

structure Outcome where
  status : Status
  out : List Str := []
  mkdirs : List Str := []
  writes : List (Str × Bytes) := []

abbrev World := Str → Option Bytes

/-! ## image_worker/content_injector.py -/

/-- file name, extension, type, mode and the path to open, from one `src` argument -/
def classifyRaw (src : Str) : Desc × Str :=
  let dotPos := rfindFrom 46 src (afterLast 47 src)
  match dotPos with
  | none => ({ name := basename (upper src), ext := [], kind := 2, mode := 0 }, src)
  | some dp =>
    let fileName := basename (upper (src.take dp))
    let fileName := if fileName.length > 8 then fileName.take 8 else fileName
    let fileExtension := upper (src.drop (dp + 1))
    if fileExtension = str "BAS,A" then
      ({ name := fileName, ext := str "BAS", kind := 0, mode := 0xFFFF }, src.take (src.length - 2))
    else if fileExtension = str "BAS" then ({ name := fileName, ext := fileExtension, kind := 0, mode := 0 }, src)
    else if fileExtension = str "CSV" then ({ name := fileName, ext := fileExtension, kind := 1, mode := 0 }, src)
    else ({ name := fileName, ext := fileExtension, kind := 2, mode := 0 }, src)

/-- the descriptor handed to the leader block and to the listener is built from the first 8
    characters of the name and the first 3 of the extension -/
def classify (src : Str) : Desc × Str :=
  let r := classifyRaw src
  ({ r.1 with name := r.1.name.take 8, ext := r.1.ext.take 3 }, r.2)

/-- the `while dataPos < dataMax` loop: data blocks of at most 254 bytes; fuel = |data| -/
def writeData : Nat → TapeW → Listener → Bytes → Option (TapeW × Listener)
  | 0, t, l, _ => some (t, l)
  | fuel + 1, t, l, data =>
    if data.isEmpty then some (t, l) else
    let n := if data.length < 254 then data.length else 254
    let block := buildFromData Gen.Tape.typeData (data.take n)
    match writeBlock t block with
    | none => none
    | some t' =>
      match onDataBlock l block with
      | .error _ => none   -- unreachable: a file was begun
      | .ok l' => writeData fuel t' l' (data.drop n)

inductive FileResult where
  | ok (t : TapeW) (l : Listener) (line : Str)
  | overflow
  | missing

/-- body of the `for src in args.sources` loop for one source -/
def injectOne (w : World) (t : TapeW) (l : Listener) (src : Str) : FileResult :=
  let (d, path) := classify src
  match writeBlock t (leaderBlock d) with
  | none => .overflow
  | some t1 =>
    let l1 := onBeginFileBlock l d
    match w path with
    | none => .missing
    | some data =>
      match writeData data.length t1 l1 data with
      | none => .overflow
      | some (t2, l2) =>
        match writeBlock t2 (buildEmpty Gen.Tape.typeEof) with
        | none => .overflow
        | some t3 =>
          match onEndBlock l2 with
          | .error _ => .overflow  -- unreachable
          | .ok (line, l3) => .ok t3 l3 line

/-- the two refusals at the top of the loop body: a source that is the archive itself (writing the archive
    would destroy it), a source whose name is not ascii (a leader block holds ascii only) -/
def refusal (archive src : Str) : Option PyErr :=
  let r := classifyRaw src
  if samePath r.2 archive then some (.valueError "source.is.the.archive")
  else if (r.1.name ++ r.1.ext).any (· ≥ 128) then some (.valueError "not.an.ascii.name")
  else none

def injectLoop (w : World) (archive : Str) : TapeW → Listener → List Str → List Str → Status × List Str × Option TapeW
  | t, _, out, [] => (.ret 0, out, some t)
  | t, l, out, src :: rest =>
    match refusal archive src with
    | some e => (.raised e, out, none)
    | none =>
      match injectOne w t l src with
      | .overflow => (.ret 1, out ++ [str "Too much data, abort creation."], none)
      | .missing => (.raised (.osError "FileNotFoundError"), out, none)
      | .ok t' l' line => injectLoop w archive t' l' (out ++ [line]) rest

/-- `TapeImageContentInjector.perform`: report, status, and the single archive write -/
def inject (w : World) (verbose : Bool) (archive : Str) (srcs : List Str) : Outcome :=
  match injectLoop w archive blank { verbose := verbose } [] srcs with
  | (st, out, some t) => { status := st, out := out, writes := [(archive, t.buf)] }
  | (st, out, none) => { status := st, out := out }

/-! ## image_worker/content_enumerator.py, content_extractor.py -/

inductive BlockType where | leader | data | eof | invalid

def blockType (raw : Bytes) : BlockType :=
  let t := raw.getD 0 0
  if t = Gen.Tape.typeLeader then .leader
  else if t = Gen.Tape.typeEof then .eof
  else if t = Gen.Tape.typeData then .data
  else .invalid

structure RState where
  l : Listener
  out : List Str := []
  desc : Option Desc := none      -- extractor's local `desc`
  content : Bytes := []           -- extractor's `fileContent`
  writes : List (Str × Bytes) := []
  keep : Option Str := none       -- the archive being read: the extractor refuses to write over it

/-- the path about to be written is the archive being read (`os.path.abspath` of both are equal) -/
def collides (keep : Option Str) (path : Str) : Bool :=
  match keep with
  | some a => samePath path a
  | none => false

/-- does `open(path, "wb")` succeed for this file name in an existing directory? -/
def openable (name : Str) : Bool := name != [46] && name != [46, 46] && !name.contains 0 && !name.isEmpty

/-- one iteration of the reader loop; `extract = false` is the enumerator.  Returns the state
    reached and the exception raised, if any (an EOF block of the extractor writes its file
    before the listener can fail, so the state matters even then). -/
def readStep (extract : Bool) (targetDir : Str) (s : RState) (raw : Bytes) : RState × Option PyErr :=
  match blockType raw with
  | .invalid => (s, some (.valueError "type"))
  | .leader =>
    match descOfBlock raw with
    | .error e => (s, some e)
    | .ok d => ({ s with l := onBeginFileBlock s.l d, desc := some d, content := if extract then [] else s.content }, none)
  | .eof =>
    if extract then
      match s.desc with
      | none => (s, some .nameError)
      | some d =>
        let fname := d.name ++ [46] ++ d.ext
        if fname.contains 47 then (s, some (.valueError "invalid.file.name"))
        else if collides s.keep (pathJoin targetDir fname) then (s, some (.valueError "would.overwrite.the.archive"))
        else if fname.contains 0 then (s, some (.valueError "embedded null byte"))
        else if !openable fname then (s, some (.osError "IsADirectoryError"))
        else
          let s' := { s with writes := s.writes ++ [(pathJoin targetDir fname, s.content)] }
          match onEndBlock s.l with
          | .error e => (s', some e)
          | .ok (line, l') => ({ s' with l := l', out := s.out ++ [line] }, none)
    else
      match onEndBlock s.l with
      | .error e => (s, some e)
      | .ok (line, l') => ({ s with l := l', out := s.out ++ [line] }, none)
  | .data =>
    match onDataBlock s.l raw with
    | .error e => (s, some e)
    | .ok l' => ({ s with l := l', content := if extract then s.content ++ body raw else s.content }, none)

/-- the `while block is not None` loop -/
def readLoop (extract : Bool) (targetDir : Str) : RState → List Bytes → Status × RState
  | s, [] => (.ret 0, s)
  | s, raw :: rest =>
    match readStep extract targetDir s raw with
    | (s', none) => readLoop extract targetDir s' rest
    | (s', some e) => (.raised e, s')

/-- `TapeImageContentEnumerator.perform` on the archive bytes -/
def enumerate (verbose : Bool) (tape : Bytes) : Outcome :=
  let (st, s) := readLoop false [] { l := { verbose := verbose } } (readAll tape)
  { status := st, out := s.out }

/-- `args.into if args.into is not None else os.path.dirname(args.archive)` -/
def targetDirOf (archive : Str) (into : Option Str) : Str :=
  match into with | some d => d | none => dirname archive

/-- `TapeImageContentExtractor.perform` -/
def extract (verbose : Bool) (archive : Str) (into : Option Str) (tape : Bytes) : Outcome :=
  let targetDir := targetDirOf archive into
  let (st, s) := readLoop true targetDir { l := { verbose := verbose }, keep := some archive } (readAll tape)
  { status := st, out := s.out, mkdirs := if targetDir.isEmpty then [] else [targetDir], writes := s.writes }

end Moto.Tape
