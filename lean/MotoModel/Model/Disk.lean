/-
  Model of moto_lib.fs_disk: image.py, block_allocation.py, catalog.py, controller.py,
  image_manager.py.  One disk side is the list of its 80*16 sector payloads (256 bytes each);
  the SDDrive padding only exists in `load` / `save`.
-/
import MotoModel.Model.Py
import MotoModel.Gen.Py
import MotoModel.Gen.Disk

namespace Moto.Disk
open Moto

abbrev Side := List Bytes      -- 1280 payloads, index = track * 16 + sector
abbrev Image := List Side

inductive Flavour where | fd | sd
  deriving DecidableEq, Repr

def sectorSize : Flavour → Nat
  | .fd => Gen.Disk.sectorSizeFd
  | .sd => Gen.Disk.sectorSizeSd

def sectorsPerSide : Nat := Gen.Disk.tracksPerSide * Gen.Disk.sectorsPerTrack

def sizeOfSide (fl : Flavour) : Nat := sectorsPerSide * sectorSize fl

/-! ## image.py -/

/-- `DiskSector.dataOfPayload = value` (after the repair: the length never changes) -/
def setPayload (sec : Bytes) (v : Bytes) : Bytes :=
  let copyLen := if v.length < Gen.Disk.payloadSizeFd then v.length else Gen.Disk.payloadSizeFd
  sliceAssign sec 0 copyLen (v.take copyLen)

def blankSector : Bytes := List.replicate Gen.Disk.payloadSizeFd Gen.Disk.fillerPayload

def blankSide : Side := List.replicate sectorsPerSide blankSector

def idx (track sector : Nat) : Nat := track * Gen.Disk.sectorsPerTrack + sector

def getSector (sd : Side) (track sector : Nat) : Bytes := sd.getD (idx track sector) []

/-- `side.tracks[t].sectors[s].dataOfPayload = v` -/
def putSector (sd : Side) (track sector : Nat) (v : Bytes) : Side :=
  sd.set (idx track sector) (setPayload (getSector sd track sector) v)

/-- cut `raw` into consecutive sector slots and keep the payload part of each -/
def sectorsOf (fl : Flavour) : Nat → Bytes → List Bytes
  | 0, _ => []
  | n + 1, raw => (raw.take Gen.Disk.payloadSizeFd) :: sectorsOf fl n (raw.drop (sectorSize fl))

/-- `DiskImage(rawData, typeOfDiskImage=fl)` with non-empty data -/
def load (fl : Flavour) (raw : Bytes) : Except PyErr Image :=
  let size := sizeOfSide fl
  if raw.length = 0 then .ok (List.replicate 4 blankSide)
  else
    let n := min (raw.length / size) 4
    let bad : Bool := match fl with
      | .fd => n == 0 || n == 3
      | .sd => decide (n < 4)
    if bad then .error (.valueError "sides")
    else if n < 4 ∧ n * size < raw.length then .error (.valueError "integral")
    else .ok ((List.range n).map fun i => sectorsOf fl sectorsPerSide (raw.drop (i * size)))

/-- `SingleDiskImageManager.save` -/
def save (fl : Flavour) (img : Image) : Bytes :=
  img.flatMap fun side => side.flatMap fun sec =>
    match fl with
    | .fd => sec
    | .sd => sec ++ Gen.Disk.sdPadding

/-! ## block_allocation.py -/

def validStatus (s : Nat) : Bool :=
  !((s ≥ Gen.Disk.bsMaxNext && s < Gen.Disk.bsMinLast) || (s ≥ Gen.Disk.bsMaxLast && s < Gen.Disk.bsReserved))

def isFree (s : Nat) : Bool := s == Gen.Disk.bsFree
def isReserved (s : Nat) : Bool := s == Gen.Disk.bsReserved
def isLast (s : Nat) : Bool := s > Gen.Disk.bsLastBlock && s < Gen.Disk.bsMaxLast
def hasNext (s : Nat) : Bool := s < Gen.Disk.bsMaxNext

/-- `BlockAllocation.usage` -/
def usageOf (s : Nat) : Nat :=
  if isFree s then 0 else if isReserved s || hasNext s then 8 else s - Gen.Disk.bsLastBlock

/-! ## controller.py: the table -/

def batTrack : Nat := 20
def batSector : Nat := 1
def numBlocks : Nat := 160

/-- `FileSystemController._bat` getter: 160 statuses, `ValueError` on an invalid one -/
def getBat (sd : Side) : Except PyErr (List Nat) :=
  let sec := getSector sd batTrack batSector
  let st := (List.range numBlocks).map fun i => sec.getD (i + 1) 0
  if st.all validStatus then .ok st else .error (.valueError "block.allocation.status.is.wrong")

/-- `_bat` setter (after the repair: the other bytes of the sector are kept) -/
def setBat (sd : Side) (bat : List Nat) : Side :=
  let sec := getSector sd batTrack batSector
  putSector sd batTrack batSector (sliceAssign sec 1 (bat.length + 1) bat)

/-! ## catalog.py -/

/-- `CatalogEntryUsage.fromBlockAllocationTable`: the loop after the first block.
    `cur` is the block just appended, `acc` the blocks so far (reversed). -/
def walkLoop (bat : List Nat) : Nat → Nat → List Nat → List Nat
  | 0, _, acc => acc.reverse
  | fuel + 1, cur, acc =>
    let st := bat.getD cur 0
    if isLast st then acc.reverse
    else
      let nxt := st
      let st' := bat.getD nxt 0
      if isFree st' || isReserved st' || acc.contains nxt then acc.reverse
      else walkLoop bat fuel nxt (nxt :: acc)

/-- block ids of the chain starting at `first`; `IndexError` when `first` is outside the table -/
def walk (bat : List Nat) (first : Nat) : Except PyErr (List Nat) :=
  if first ≥ bat.length then .error .indexError
  else
    let st := bat.getD first 0
    if isFree st || isReserved st then .ok []
    else .ok (walkLoop bat bat.length first [first])

structure Entry where
  status : Nat          -- 0 never used, 1 alive, 2 deleted
  rec16 : Bytes         -- the 16 meaningful bytes of the record, as `CatalogEntryRecord` keeps them
  blocks : List Nat     -- chain of a live entry
  deriving Repr, DecidableEq

def typeOfFileOfByte (b : Nat) : Nat := if Gen.Disk.typeOfFileValues.contains b then b else Gen.Disk.typeOfFileFallback
def typeOfDataByteOfByte (b : Nat) : Nat := if b = 0xFF then 0xFF else 0

/-- `CatalogEntryRecord.__init__` from byte fields: copy, sanitise control characters, normalise kind/flag -/
def recordOfBytes (data : Bytes) : Bytes :=
  let name := slice data 0 8
  let ext := slice data 8 11
  let d : Bytes := List.replicate 16 0
  let d := sliceAssign d 0 name.length name
  let d := sliceAssign d 8 (8 + ext.length) ext
  let d := (d.take 11).map (fun c => if c < 0x20 then Gen.Disk.invalidChar else c) ++ d.drop 11
  let d := d.set 11 (typeOfFileOfByte (data.getD 11 0))
  let d := d.set 12 (typeOfDataByteOfByte (data.getD 12 0))
  let d := d.set 13 (data.getD 13 0)
  let u := data.getD 14 0 * 256 + data.getD 15 0
  let d := d.set 14 ((u / 256) % 256)
  d.set 15 (u % 256)

/-- `CatalogEntry.fromBytes` -/
def entryOfBytes (data : Bytes) (bat : List Nat) : Except PyErr Entry :=
  let b0 := data.getD 0 0
  if b0 = 0xFF then .ok ⟨0, [], []⟩
  else if b0 = 0 then .ok ⟨2, recordOfBytes data, []⟩
  else
    let r := recordOfBytes data
    match walk bat (r.getD 13 0) with
    | .error e => .error e
    | .ok blocks => .ok ⟨1, r, blocks⟩

def Entry.lastBytes (e : Entry) : Nat := e.rec16.getD 14 0 * 256 + e.rec16.getD 15 0

/-- `CatalogEntryUsage.toDict()["sizeInBytes"]` given the table -/
def sizeInBytes (bat : List Nat) (e : Entry) : Nat :=
  match e.blocks.getLast? with
  | none => 0
  | some last => (8 * (e.blocks.length - 1) + usageOf (bat.getD last 0) - 1) * 255 + e.lastBytes

def catalogSectors : List Nat := List.range' 2 14    -- sectors 2..15 of track 20
def slotStarts : List Nat := (List.range 8).map (· * 32)

/-- all 112 slots of the catalog, in order, as (sector, start, 32 bytes) -/
def slots (sd : Side) : List (Nat × Nat × Bytes) :=
  catalogSectors.flatMap fun s =>
    let sec := getSector sd batTrack s
    slotStarts.map fun st => (s, st, slice sec st (st + 32))

/-- `listFiles()` with the default filters: the live entries, in catalog order -/
def listFiles (sd : Side) : Except PyErr (List Entry) :=
  match getBat sd with
  | .error e => .error e
  | .ok bat =>
    let rec go : List (Nat × Nat × Bytes) → List Entry → Except PyErr (List Entry)
      | [], acc => .ok acc.reverse
      | (_, _, data) :: rest, acc =>
        match entryOfBytes data bat with
        | .error e => .error e
        | .ok en => if en.status = 1 then go rest (en :: acc) else go rest acc
    go (slots sd) []

/-- track and first sector of a block (`_computeTrackSectorOfBlock`) -/
def blockTrack (b : Nat) : Nat := b / 2
def blockFirstSector (b : Nat) : Nat := (b % 2) * 8

/-- `lastSize if s == lastS else 255` -/
def pieceLen (sMax lastSize s : Nat) : Nat := if s + 1 = sMax then lastSize else 255

/-- the sector loop of `readFile` for one block: `sMax` sectors, the last one contributing `lastSize` bytes -/
def readSectors (sd : Side) (b : Nat) (sMax lastSize : Nat) : Nat → Bytes × Nat → Bytes × Nat
  | 0, r => r
  | k + 1, r =>
    let (res, index) := readSectors sd b sMax lastSize k r
    let s := k
    let sector := getSector sd (blockTrack b) (blockFirstSector b + s)
    let n := pieceLen sMax lastSize s
    (sliceAssign res index (index + n) (sector.take n), index + n)

/-- `readFile(entry)` of a live entry -/
def readFile (sd : Side) (bat : List Nat) (e : Entry) : Bytes :=
  match e.blocks.getLast? with
  | none => []
  | some last =>
    let lastBlockUsage := bat.getD last 0 - Gen.Disk.bsLastBlock
    let lastSectorSize := e.lastBytes
    let result : Bytes := List.replicate (sizeInBytes bat e) 0
    let lastI := e.blocks.length - 1
    let rec go : List Nat → Nat → Bytes × Nat → Bytes × Nat
      | [], _, r => r
      | b :: bs, i, r =>
        let (sMax, lastSize) := if i = lastI then (lastBlockUsage, lastSectorSize) else (8, 255)
        go bs (i + 1) (readSectors sd b sMax lastSize sMax r)
    (go e.blocks 0 (result, 0)).1

/-! ### an efficient evaluation of `readFile`

`readFile` above mirrors Python's repeated slice assignment and costs O(size²) on lists.  When every
piece has its nominal length (well-formed geometry, at most 8 sectors in the last block, at most 256
bytes in the last sector) the result is simply the pieces followed by the zeros never overwritten
(theorem `readFileImpl_eq` in Proofs/DiskFill.lean: `readFileImpl = readFile` for *all* inputs). -/

def blockPieces (sd : Side) (b sMax lastSize : Nat) (cnt : Nat) : Bytes :=
  (List.range cnt).flatMap fun s => (getSector sd (blockTrack b) (blockFirstSector b + s)).take (pieceLen sMax lastSize s)

/-- what the block loop of `readFile` reads, block after block (mirrors `readFile.go`) -/
def piecesFrom (sd : Side) (lu lb lastI : Nat) : List Nat → Nat → Bytes
  | [], _ => []
  | b :: bs, i =>
    (if i = lastI then blockPieces sd b lu lb lu else blockPieces sd b 8 255 8) ++ piecesFrom sd lu lb lastI bs (i + 1)

def wfSide (sd : Side) : Bool := sd.length == 1280 && sd.all (·.length == 256)

def readFileImpl (sd : Side) (bat : List Nat) (e : Entry) : Bytes :=
  match e.blocks.getLast? with
  | none => []
  | some last =>
    let lu := bat.getD last 0 - Gen.Disk.bsLastBlock
    let lb := e.lastBytes
    let size := sizeInBytes bat e
    let pieces := piecesFrom sd lu lb (e.blocks.length - 1) e.blocks 0
    if wfSide sd && e.blocks.all (· < 160) && decide (lu ≤ 8) && decide (lb ≤ 256) && decide (pieces.length ≤ size) then
      pieces ++ List.replicate (size - pieces.length) 0
    else readFile sd bat e

/-! ## controller.py: writeFile, initFileSystem, computeUsage -/

def computeRequiredSlots (size slot : Nat) : Nat × Nat :=
  if size % slot > 0 then (size / slot + 1, size % slot) else (size / slot, slot)

/-- `CatalogEntryRecord._bytesFromStr` (ASCII) -/
def bytesFromStr (s : Str) (size : Nat) : Bytes :=
  if s.length ≥ size then s.take size else s ++ List.replicate (size - s.length) Gen.Disk.paddingChar

/-- the 32 bytes written in the catalog for a new file -/
def newRecord (name ext : Str) (kind flag first lastBytes : Nat) : Bytes :=
  let d := bytesFromStr (upper name) 8 ++ bytesFromStr (upper ext) 3
  let d := d.map (fun c => if c < 0x20 then Gen.Disk.invalidChar else c)
  d ++ [kind, flag, first, (lastBytes / 256) % 256, lastBytes % 256] ++ Gen.Disk.paddingOfRecord

/-- statuses after linking the chosen blocks: each to the next, the last as `C0 + usage` -/
def linkChain : List Nat → List Nat → Nat → List Nat
  | bat, [], _ => bat
  | bat, [b], u => bat.set b (0xC0 + u)
  | bat, b :: c :: rest, u => linkChain (bat.set b c) (c :: rest) u

/-- copy of the data into the sectors of the chosen blocks, 255 bytes per sector;
    `k` counts the sectors still to write -/
def writeSectors (blocks : List Nat) (content : Bytes) : Nat → Nat → Side → Side
  | 0, _, sd => sd
  | k + 1, i, sd =>
    let b := blocks.getD (i / 8) 0
    let sd' := putSector sd (blockTrack b) (blockFirstSector b + i % 8) (slice content (i * 255) (i * 255 + 255))
    writeSectors blocks content k (i + 1) sd'

inductive WriteResult where
  | ok (sd : Side)
  | raised (e : PyErr) (sd : Side)     -- the exception and the side it leaves behind

/-- search of a free catalog slot (`NEVER_USED` or `DELETED`), decoding every slot it passes -/
def findSlot (bat : List Nat) : List (Nat × Nat × Bytes) → Except PyErr (Option (Nat × Nat))
  | [] => .ok none
  | (s, st, data) :: rest =>
    match entryOfBytes data bat with
    | .error e => .error e
    | .ok en => if en.status = 0 ∨ en.status = 2 then .ok (some (s, st)) else findSlot bat rest

/-- numbers computed at the top of `writeFile` for a content of `n` bytes:
    sectors, bytes in the last sector, blocks, sectors in the last block -/
def layoutOf (n : Nat) : Nat × Nat × Nat × Nat :=
  let (s, u) := if n > 0 then computeRequiredSlots n 255 else (1, 0)
  let (b, ub) := computeRequiredSlots s 8
  (s, u, b, ub)

def reqSectors (n : Nat) : Nat := (layoutOf n).1
def lastBytesOf (n : Nat) : Nat := (layoutOf n).2.1
def reqBlocks (n : Nat) : Nat := (layoutOf n).2.2.1
def lastSectorsOf (n : Nat) : Nat := (layoutOf n).2.2.2

/-- `[b for b in bat if b.isFree()][:k]` as block ids -/
def chosen (bat : List Nat) (k : Nat) : List Nat :=
  ((List.range bat.length).filter fun i => isFree (bat.getD i 0)).take k

/-- `writeFile` once the blocks are chosen: data, table, catalog entry (or table restored) -/
def placeFile (sd : Side) (bat : List Nat) (free : List Nat) (content : Bytes) (name ext : Str) (kind flag : Nat) : WriteResult :=
  let sd1 := writeSectors free content (reqSectors content.length) 0 sd
  let bat' := linkChain bat free (lastSectorsOf content.length)
  let sd2 := setBat sd1 bat'
  let record := newRecord name ext kind flag (free.getD 0 0) (lastBytesOf content.length)
  match findSlot bat' (slots sd2) with
  | .error e => .raised e sd2
  | .ok (some (s, st)) =>
    let cat := getSector sd2 batTrack s
    .ok (putSector sd2 batTrack s (sliceAssign cat st (st + 32) record))
  | .ok none =>
    let restored := free.foldl (fun b i => b.set i Gen.Disk.bsFree) bat'
    .raised (.valueError "no.more.space.in.catalog") (setBat sd2 restored)

/-- `writeFile` on a decoded table -/
def writeFileWith (sd : Side) (bat : List Nat) (content : Bytes) (name ext : Str) (kind flag : Nat) : WriteResult :=
  let free := chosen bat (reqBlocks content.length)
  if free.length < reqBlocks content.length then .raised (.valueError "not.enough.blocks") sd
  else placeFile sd bat free content name ext kind flag

/-- the two blocks of track 20 (table and catalog) are marked reserved when the table shows them
    free — a side that was never formatted -/
def protect (bat : List Nat) : List Nat :=
  let b := if isFree (bat.getD 40 0) then bat.set 40 Gen.Disk.bsReserved else bat
  if isFree (b.getD 41 0) then b.set 41 Gen.Disk.bsReserved else b

/-- `FileSystemController.writeFile` -/
def writeFile (sd : Side) (content : Bytes) (name ext : Str) (kind flag : Nat) : WriteResult :=
  match getBat sd with
  | .error e => .raised e sd
  | .ok bat => writeFileWith sd (protect bat) content name ext kind flag

/-- `initFileSystem` -/
def initFileSystem (sd : Side) : Side :=
  let bat := (List.range numBlocks).map fun i => if Gen.Disk.reservedBlocks.contains i then Gen.Disk.bsReserved else Gen.Disk.bsFree
  let sd := putSector sd batTrack batSector (List.replicate 256 0)
  let sd := setBat sd bat
  catalogSectors.foldl (fun acc s => putSector acc batTrack s (List.replicate 256 0xFF)) sd

structure Usage where
  used : Nat
  reserved : Nat
  free : Nat
  deriving Repr, DecidableEq

def computeUsage (bat : List Nat) : Usage :=
  bat.foldl (fun u s => if isFree s then { u with free := u.free + 1 }
                        else if isReserved s then { u with reserved := u.reserved + 1 }
                        else { u with used := u.used + 1 }) ⟨0, 0, 0⟩

end Moto.Disk
