/-
  Model of moto_lib.fs_disk.listener.* and moto_lib.fs_disk.image_worker.* (injector, injector
  with initialisation, extractor, enumerator).
-/
import MotoModel.Model.Disk
import MotoModel.Model.Tape
import MotoModel.Gen.Percent

namespace Moto.Disk
open Moto
open Moto.Tape (str Status Outcome World isSpace)

/-! ## listener (quiet.py, verbose.py, listener.py, _counters.py) -/

structure DL where
  processing : Nat        -- 0 LISTING, 1 EXTRACTING, 2 UPDATING
  verbose : Bool
  needNL : Bool := false
  sides : Nat := 0
  filesOne : Nat := 0
  filesAll : Nat := 0
  blocksOne : Nat := 0
  blocksAll : Nat := 0
  resetNext : Bool := false
  out : Str := []

def DL.print (l : DL) (s : Str) : DL := { l with out := l.out ++ s ++ [10] }
def DL.put (l : DL) (s : Str) : DL := { l with out := l.out ++ s }
def DL.retLine (l : DL) : DL := if l.needNL then { l.print [] with needNL := false } else l

def plural (n : Nat) : Str := if n != 1 then str "s" else []
def pluralOrSpace (n : Nat) : Str := if n != 1 then str "s" else str " "
def padLeft (s : Str) (w : Nat) : Str := List.replicate (w - s.length) 32 ++ s

/-- `f"{k/160:.1%}"` from the generated table; code point 0 marks "outside the table" -/
def percent (k : Nat) : Str := Gen.Percent.table.getD k [0]

def onBeginOfSide (l : DL) (n : Nat) : DL :=
  let l := if l.resetNext then { l with sides := 0, filesOne := 0, filesAll := 0, blocksOne := 0, blocksAll := 0, resetNext := false } else l
  let l := { l with sides := l.sides + 1, filesOne := 0, blocksOne := 0 }
  let l := l.retLine
  let l := if (l.verbose || l.processing != 0) && l.sides > 1 then l.print (str "---") else l
  l.print (str "Side " ++ digits n)

def filesText (n : Nat) : Str := digits n ++ str " file" ++ plural n

def onEndOfSide (l : DL) (u : Usage) : DL :=
  let l := l.retLine
  if !l.verbose then
    if l.processing != 0 then l.print (filesText l.filesOne) else l
  else
    let head := if l.filesOne = 0 then str "empty" else filesText l.filesOne
    let totalUse := u.reserved + u.used
    let totalBlock := totalUse + u.free
    let scale (k : Nat) : Str := if totalBlock = 160 then percent k else [0]
    let tail :=
      if l.processing = 0 then
        str ", (" ++ digits u.reserved ++ str " + " ++ digits u.used ++ str ") block" ++ plural totalBlock ++ str " used (" ++ scale totalUse ++ str ")"
      else
        str ", " ++ digits l.blocksOne ++ str " block" ++ plural l.blocksOne
          ++ (if l.processing = 1 then str " read (" else str " written (") ++ scale l.blocksOne ++ str ")"
    l.print (head ++ tail)

/-- the dictionary given to `onBeginOfFile` / `onEndOfFile` (live files only) -/
structure FileEv where
  name : Str
  ext : Str
  tof : Str
  tod : Str
  bytes : Nat
  blocks : Nat
  deriving DecidableEq

def onBeginOfFile (l : DL) (f : FileEv) : DL :=
  let l := l.retLine
  let l :=
    if !l.verbose then
      l.put (str "  " ++ rstripBy isSpace f.name ++ [46] ++ rstripBy isSpace f.ext ++ (if l.processing != 0 then str "..." else []))
    else
      l.put (str "  " ++ f.name ++ [46] ++ f.ext ++ str "  " ++ padRight f.tof 8 ++ padRight f.tod 8
             ++ (if l.processing != 0 then str "......" else []))
  { l with needNL := true }

def onEndOfFile (l : DL) (f : FileEv) : DL :=
  let l := { l with filesOne := l.filesOne + 1, filesAll := l.filesAll + 1,
                    blocksOne := l.blocksOne + f.blocks, blocksAll := l.blocksAll + f.blocks }
  if !l.verbose then
    if l.processing != 0 then { l.print (str "ok") with needNL := false } else l.retLine
  else
    { l.print (str "  " ++ padLeft (digits f.bytes) 6 ++ str " Byte" ++ pluralOrSpace f.bytes ++ str "    "
               ++ padLeft (digits f.blocks) 3 ++ str " block" ++ pluralOrSpace f.blocks) with needNL := false }

def onBeforeBeginOfFile (l : DL) (msg : Str) : DL := { l.print (str "  " ++ msg) with needNL := false }
def onAbortFile (l : DL) (msg : Str) : DL := { l.print msg with needNL := false }

def onDone (l : DL) : DL :=
  let l := { l with resetNext := true }
  let l := l.retLine
  if l.processing != 0 && l.sides > 0 then
    let l := (l.print (str "---")).print (str "TOTAL")
    if !l.verbose then l.print (filesText l.filesAll)
    else l.print (filesText l.filesAll ++ str ", " ++ digits l.blocksAll ++ str " block" ++ plural l.blocksAll
                  ++ (if l.processing = 1 then str " read" else str " written"))
  else l

/-! ## catalog strings -/

def tofString (kind : Nat) : Str := Gen.Disk.typeOfFileStrings.getD kind []
def todString (kind flag : Nat) : Str :=
  let i := if flag = 0xFF then 1 else 0
  if kind = 0 then Gen.Disk.typeOfDataStringsBasic.getD i [] else Gen.Disk.typeOfDataStrings.getD i []

/-! ## injector -/

structure Inj where
  img : Image
  cur : Nat
  l : DL

def usageOfSide (img : Image) (i : Nat) : Except PyErr Usage :=
  match getBat (img.getD i []) with
  | .error e => .error e
  | .ok bat => .ok (computeUsage bat)

/-- `DiskImageContentInjector.writeFile`: retry on the next side after a `ValueError`; fuel = sides left -/
def injWriteFile (name ext : Str) (kind flag : Nat) (data : Bytes) : Nat → Inj → Except PyErr Inj
  | 0, st => .ok st
  | fuel + 1, st =>
    if st.cur ≥ 4 then .ok st else
    let ev : FileEv := { name := name, ext := ext, tof := tofString kind, tod := todString kind flag,
                         bytes := data.length, blocks := (max 1 ((data.length + 254) / 255) + 7) / 8 }
    let l := onBeginOfFile st.l ev
    match writeFile (st.img.getD st.cur []) data name ext kind flag with
    | .ok sd => .ok { st with img := st.img.set st.cur sd, l := onEndOfFile l ev }
    | .raised (.valueError _) sd =>
      let img := st.img.set st.cur sd
      let l := onAbortFile l (str "too big")
      match usageOfSide img st.cur with
      | .error e => .error e
      | .ok u =>
        let l := onEndOfSide l u
        let cur := st.cur + 1
        if cur ≥ 4 then .ok { img := img, cur := cur, l := l }
        else injWriteFile name ext kind flag data fuel { img := img, cur := cur, l := onBeginOfSide l cur }
    | .raised e _ => .error e

/-- processor dispatch: (kind byte, flag byte, extension to store) -/
def dispatch (fileName fileExtension extWithOption : Str) : Nat × Nat × Str :=
  let full := fileName ++ [46] ++ fileExtension
  let row := match Gen.Disk.processors.find? (fun r => r.1 == full) with
    | some r => some r
    | none => Gen.Disk.processors.find? (fun r => r.1 == extWithOption)
  match row with
  | some (_, k, f, forced) => (k, f, forced.getD fileExtension)
  | none => (Gen.Disk.defaultProcessor.1, Gen.Disk.defaultProcessor.2.1, Gen.Disk.defaultProcessor.2.2.getD fileExtension)

/-- name, extension (stored and with the `,A` option) and path to open, from one source argument -/
def splitSource (src : Str) : Str × Str × Str × Str :=
  let dotPos := rfindFrom 46 src (afterLast 47 src)
  let hasA := upper (src.drop (src.length - 2)) = str ",A"
  let cleanSrc := if hasA then src.take (src.length - 2) else src
  match dotPos with
  | some dp => (basename (upper (src.take dp)), upper (cleanSrc.drop (dp + 1)), upper (src.drop (dp + 1)), cleanSrc)
  | none => (basename (upper src), [], [], cleanSrc)

/-- body of the loop for a source that is not an end-of-side marker; the Bool tells whether a
    file was processed (the loop then tests `_hasController()`) -/
def injFile (w : World) (src : Str) (st : Inj) : Except PyErr (Inj × Bool) :=
  let (fileName, fileExtension, extWithOption, cleanSrc) := splitSource src
  match w cleanSrc with
  | none => .ok ({ st with l := onBeforeBeginOfFile st.l (str "-- not found : " ++ src) }, false)
  | some data =>
    if fileName.length > 8 then .ok ({ st with l := onBeforeBeginOfFile st.l (str "-- too long name : " ++ cleanSrc) }, false)
    else if fileExtension.length > 3 then .ok ({ st with l := onBeforeBeginOfFile st.l (str "-- too long extension : " ++ cleanSrc) }, false)
    else if (fileName ++ fileExtension).any (· ≥ 128) then
      .ok ({ st with l := onBeforeBeginOfFile st.l (str "-- not an ascii name : " ++ cleanSrc) }, false)
    else
      let (kind, flag, storedExt) := dispatch fileName fileExtension extWithOption
      match injWriteFile fileName storedExt kind flag data 4 st with
      | .error e => .error e
      | .ok st' => .ok (st', true)

/-- the `for src in args.sources` loop -/
def injLoop (w : World) : List Str → Inj → Except PyErr Inj
  | [], st => .ok st
  | src :: rest, st =>
    if basename (upper src) = str "--EOS" then
      match usageOfSide st.img st.cur with
      | .error e => .error e
      | .ok u =>
        let l := onEndOfSide st.l u
        let cur := st.cur + 1
        if cur ≥ 4 then .ok { st with cur := cur, l := l }
        else injLoop w rest { st with cur := cur, l := onBeginOfSide l cur }
    else
      match injFile w src st with
      | .error e => .error e
      | .ok (st', processed) => if processed && st'.cur ≥ 4 then .ok st' else injLoop w rest st'

/-- trailing begin/end-of-side events for the sides not reached -/
def injTail : Nat → Inj → Except PyErr Inj
  | 0, st => .ok st
  | fuel + 1, st =>
    if st.cur + 1 < 4 then
      let cur := st.cur + 1
      let l := onBeginOfSide st.l cur
      match usageOfSide st.img cur with
      | .error e => .error e
      | .ok u => injTail fuel { st with cur := cur, l := onEndOfSide l u }
    else .ok st

/-- the part of `perform` that does not depend on the flavour: the sources loop and the trailing
    side events; on an exception, the text printed so far -/
def performCore (w : World) (verbose : Bool) (img : Image) (srcs : List Str) : Except (PyErr × Str) Inj :=
  let st : Inj := { img := img, cur := 0, l := onBeginOfSide { processing := 2, verbose := verbose } 0 }
  match injLoop w srcs st with
  | .error e => .error (e, st.l.out)
  | .ok st1 =>
    if st1.cur < 4 then
      match usageOfSide st1.img st1.cur with
      | .error e => .error (e, st1.l.out)
      | .ok u =>
        match injTail 4 { st1 with l := onEndOfSide st1.l u } with
        | .error e => .error (e, st1.l.out)
        | .ok st2 => .ok st2
    else .ok st1

/-- `DiskImageContentInjector.perform` on an image that already has its four sides: the image
    is saved whenever the loop completes, and only then -/
def performOn (fl : Flavour) (w : World) (verbose : Bool) (archive : Str) (img : Image) (srcs : List Str) : Outcome :=
  if img.length < 4 then { status := .raised .indexError } else
  match performCore w verbose img srcs with
  | .error (e, out) => { status := .raised e, out := [out] }
  | .ok st => { status := .ret 0, out := [(onDone st.l).out], writes := [(archive, save fl st.img)] }

/-- `--create` -/
def create (fl : Flavour) (w : World) (verbose : Bool) (archive : Str) (srcs : List Str) : Outcome :=
  performOn fl w verbose archive ((List.replicate 4 blankSide).map initFileSystem) srcs

/-- `--add` on the bytes of the existing archive -/
def add (fl : Flavour) (w : World) (verbose : Bool) (archive : Str) (raw : Bytes) (srcs : List Str) : Outcome :=
  match load fl raw with
  | .error e => { status := .raised e }
  | .ok img => performOn fl w verbose archive img srcs

/-! ### the refusal of a source that is the archive itself

  Before its loop starts, `perform` raises `ValueError("source.is.the.archive")` when one of the source
  arguments is not a marker, designates an existing file, and is the archive's own path: saving the archive
  would destroy that source. -/

/-- a source argument that designates the archive itself -/
def srcIsArchive (w : World) (archive src : Str) : Bool :=
  !(basename (upper src) == str "--EOS") &&
  (match w (splitSource src).2.2.2 with
   | some _ => samePath (splitSource src).2.2.2 archive
   | none => false)

/-- `run` is the outcome of the same invocation without the refusal -/
def guardSources (w : World) (archive : Str) (img : Image) (srcs : List Str) (run : Outcome) : Outcome :=
  if img.length < 4 then run
  else if srcs.any (srcIsArchive w archive) then { status := .raised (.valueError "source.is.the.archive") }
  else run

/-- `--create` as the command line runs it -/
def createCmd (fl : Flavour) (w : World) (verbose : Bool) (archive : Str) (srcs : List Str) : Outcome :=
  guardSources w archive ((List.replicate 4 blankSide).map initFileSystem) srcs (create fl w verbose archive srcs)

/-- `--add` as the command line runs it -/
def addCmd (fl : Flavour) (w : World) (verbose : Bool) (archive : Str) (raw : Bytes) (srcs : List Str) : Outcome :=
  match load fl raw with
  | .error _ => add fl w verbose archive raw srcs
  | .ok img => guardSources w archive img srcs (add fl w verbose archive raw srcs)

/-- `DiskArchiveCli.run`: the check of the archive name, before anything is opened -/
def checkArchiveName (fl : Flavour) (archive : Str) : Except PyErr Unit :=
  match rfindFrom 46 archive 0 with
  | none => .error (.valueError "error.file.name.must.have.extension")
  | some dp =>
    if lower (archive.drop (dp + 1)) = (match fl with | .sd => str "sd" | .fd => str "fd") then .ok ()
    else .error (.valueError "error.file.name.extension")

/-! ## extractor, enumerator -/

def evOfEntry (bat : List Nat) (e : Entry) : FileEv :=
  { name := slice e.rec16 0 8, ext := slice e.rec16 8 11,
    tof := tofString (e.rec16.getD 11 0), tod := todString (e.rec16.getD 11 0) (e.rec16.getD 12 0),
    bytes := sizeInBytes bat e, blocks := e.blocks.length }

structure RdState where
  l : DL
  mkdirs : List Str := []
  writes : List (Str × Bytes) := []
  keep : Option Str := none     -- the archive being read: the extractor refuses to write over it

def fileNameOf (e : Entry) : Str :=
  rstripBy isSpace (slice e.rec16 0 8) ++ [46] ++ rstripBy isSpace (slice e.rec16 8 11)

/-- the files of one side; `target = none` is the enumerator -/
def readEntries (sd : Side) (bat : List Nat) (sidePath : Option Str) : List Entry → RdState → RdState × Option PyErr
  | [], st => (st, none)
  | e :: rest, st =>
    if (slice e.rec16 0 11).any (· ≥ 128) then (st, some .unicodeError) else
    let ev := evOfEntry bat e
    let l := onBeginOfFile st.l ev
    match sidePath with
    | none => readEntries sd bat sidePath rest { st with l := onEndOfFile l ev }
    | some dir =>
      let fname := fileNameOf e
      if fname.contains 47 || fname.contains 0 then ({ st with l := l }, some (.valueError "invalid.file.name"))
      else if Tape.collides st.keep (pathJoin dir fname) then ({ st with l := l }, some (.valueError "would.overwrite.the.archive"))
      else if fname = [46] || fname = [46, 46] then ({ st with l := l }, some (.osError "IsADirectoryError"))
      else
        let data := readFileImpl sd bat e
        readEntries sd bat sidePath rest { st with l := onEndOfFile l ev, writes := st.writes ++ [(pathJoin dir fname, data)] }

def readSides (targetDir : Option Str) : List Side → Nat → RdState → RdState × Option PyErr
  | [], _, st => (st, none)
  | sd :: rest, i, st =>
    let st := { st with l := onBeginOfSide st.l i }
    let sidePath := targetDir.map fun d => pathJoin d (str "side" ++ digits i)
    let st := match sidePath with | some p => { st with mkdirs := st.mkdirs ++ [p] } | none => st
    match getBat sd with
    | .error e => (st, some e)
    | .ok bat =>
      match listFiles sd with
      | .error e => (st, some e)
      | .ok entries =>
        match readEntries sd bat sidePath entries st with
        | (st', some e) => (st', some e)
        | (st', none) => readSides targetDir rest (i + 1) { st' with l := onEndOfSide st'.l (computeUsage bat) }

def finishRead (r : RdState × Option PyErr) : Outcome :=
  match r with
  | (st, some e) => { status := .raised e, out := [st.l.out], mkdirs := st.mkdirs, writes := st.writes }
  | (st, none) => { status := .ret 0, out := [(onDone st.l).out], mkdirs := st.mkdirs, writes := st.writes }

/-- `--list` on the bytes of the archive -/
def list (fl : Flavour) (verbose : Bool) (raw : Bytes) : Outcome :=
  match load fl raw with
  | .error e => { status := .raised e }
  | .ok img => finishRead (readSides none img 0 { l := { processing := 0, verbose := verbose } })

/-- `--extract`; the `has into` line is printed first when `--into` is given -/
def extract (fl : Flavour) (verbose : Bool) (archive : Str) (into : Option Str) (raw : Bytes) : Outcome :=
  match load fl raw with
  | .error e => { status := .raised e }
  | .ok img =>
    let l : DL := { processing := 1, verbose := verbose }
    let l := match into with | some d => l.print (str "has into : " ++ d) | none => l
    finishRead (readSides (some (Tape.targetDirOf archive into)) img 0 { l := l, keep := some archive })

/-! ## `DiskArchiveCli.run`: the four actions behind the check of the archive's name -/

/-- the archive name is checked first: with a wrong extension nothing is opened, created or printed -/
def gated (fl : Flavour) (archive : Str) (k : Outcome) : Outcome :=
  match checkArchiveName fl archive with
  | .ok _ => k
  | .error e => { status := .raised e }

def runCreate (fl : Flavour) (w : World) (verbose : Bool) (archive : Str) (srcs : List Str) : Outcome :=
  gated fl archive (createCmd fl w verbose archive srcs)

def runAdd (fl : Flavour) (w : World) (verbose : Bool) (archive : Str) (raw : Bytes) (srcs : List Str) : Outcome :=
  gated fl archive (addCmd fl w verbose archive raw srcs)

def runList (fl : Flavour) (verbose : Bool) (archive : Str) (raw : Bytes) : Outcome :=
  gated fl archive (list fl verbose raw)

def runExtract (fl : Flavour) (verbose : Bool) (archive : Str) (into : Option Str) (raw : Bytes) : Outcome :=
  gated fl archive (extract fl verbose archive into raw)

end Moto.Disk
