/-
  Python primitives used by moto-tools, as total Lean functions.
  Bytes and code points are both `Nat` (Python ints); a `bytes`/`bytearray`/`str` value is a `List Nat`.
  No imports: this file is linked into the compiled driver.
-/
namespace Moto

abbrev Bytes := List Nat
abbrev Str := List Nat

/-- Python exception classes the tools can raise on the modelled paths. -/
inductive PyErr where
  | valueError (msg : String)
  | indexError
  | typeError
  | overflowError
  | unicodeError
  | nameError
  | attributeError
  | osError (kind : String)
  deriving Repr, DecidableEq

/-- `l[i:j]` for non-negative `i`, `j` (Python clamps both to the length). -/
def slice (l : List α) (i j : Nat) : List α := (l.drop i).take (j - i)

/-- `a[i:j] = v` on a `bytearray`, non-negative indices: the slice is *replaced*, so the
    length changes when `|v| ≠ j - i`.  (`j < i` behaves as `j = i`.) -/
def sliceAssign (a : List α) (i j : Nat) (v : List α) : List α :=
  a.take i ++ v ++ a.drop (max i j)

/-- does `pat` occur at the head of `l`? -/
def startsWith : List Nat → List Nat → Bool
  | [], _ => true
  | _ :: _, [] => false
  | p :: ps, x :: xs => p == x && startsWith ps xs

/-- `bytes.find(pat)` on a suffix: offset of the first occurrence of `pat`, `none` for -1. -/
def findSub (pat : List Nat) : List Nat → Option Nat
  | [] => if pat.isEmpty then some 0 else none
  | x :: xs =>
    if startsWith pat (x :: xs) then some 0
    else match findSub pat xs with
      | some k => some (k + 1)
      | none => none

/-- ASCII `str.upper()` for one code point. -/
def upperC (c : Nat) : Nat := if 97 ≤ c ∧ c ≤ 122 then c - 32 else c

def upper (s : Str) : Str := s.map upperC

/-- ASCII `str.lower()` for one code point. -/
def lowerC (c : Nat) : Nat := if 65 ≤ c ∧ c ≤ 90 then c + 32 else c

def lower (s : Str) : Str := s.map lowerC

/-- last index of `c` in `s` at or after `start`, i.e. `s.rfind(c, start)`; `none` for -1. -/
def rfindFrom (c : Nat) (s : Str) (start : Nat) : Option Nat :=
  let rec go (l : Str) (i : Nat) (best : Option Nat) : Option Nat :=
    match l with
    | [] => best
    | x :: xs => go xs (i + 1) (if x == c && start ≤ i then some i else best)
  go s 0 none

/-- Python's `s.rfind(c) + 1` style helper: index after the last `c`, 0 if absent. -/
def afterLast (c : Nat) (s : Str) : Nat :=
  match rfindFrom c s 0 with
  | some i => i + 1
  | none => 0

/-- `os.path.basename` (POSIX): everything after the last '/'. -/
def basename (s : Str) : Str := s.drop (afterLast 47 s)

/-- `os.path.dirname` (POSIX): head = s[:i] where i = rfind('/')+1, then trailing slashes
    removed unless the head is all slashes. -/
def dirname (s : Str) : Str :=
  let head := s.take (afterLast 47 s)
  if head.all (· == 47) then head
  else (head.reverse.dropWhile (· == 47)).reverse

/-- `os.path.join(a, b)` (POSIX, two components). -/
def pathJoin (a b : Str) : Str :=
  if b.head? == some 47 then b
  else if a.isEmpty || a.getLast? == some 47 then a ++ b
  else a ++ [47] ++ b

/-- the components of a path, split at '/' -/
def splitSlash (s : Str) : List Str :=
  let rec go (cur : Str) : Str → List Str
    | [] => [cur.reverse]
    | c :: cs => if c == 47 then cur.reverse :: go [] cs else go (c :: cur) cs
  go [] s

/-- `os.path.normpath`, as a list of components: empty and "." components dropped, "x/.." pairs
    resolved lexically; a ".." that has nothing to cancel is kept on a relative path, dropped at the root -/
def normComponents (s : Str) : List Str :=
  let isAbs := s.head? == some 47
  (splitSlash s).foldl (fun acc c =>
    if c.isEmpty || c == [46] then acc
    else if c == [46, 46] then
      match acc.getLast? with
      | some l => if l == [46, 46] then acc ++ [c] else acc.dropLast
      | none => if isAbs then acc else acc ++ [c]
    else acc ++ [c]) []

/-- `os.path.abspath(a) == os.path.abspath(b)` for two paths of the same kind (both relative to the
    same working directory, or both absolute); a relative and an absolute spelling of the same place
    are not recognised as the same (that would need the working directory) -/
def samePath (a b : Str) : Bool :=
  ((a.head? == some 47) == (b.head? == some 47)) && normComponents a == normComponents b

/-- strip from the right every element satisfying `p`. -/
def rstripBy (p : Nat → Bool) (s : Str) : Str := (s.reverse.dropWhile p).reverse

def lstripBy (p : Nat → Bool) (s : Str) : Str := s.dropWhile p

/-- `line.rstrip("\n")`. -/
def rstripNL (s : Str) : Str := rstripBy (· == 10) s

/-- Universal-newline translation done by text-mode reads: CR LF → LF, CR → LF. -/
def universalNewlines : Str → Str
  | [] => []
  | 13 :: 10 :: rest => 10 :: universalNewlines rest
  | 13 :: rest => 10 :: universalNewlines rest
  | c :: rest => c :: universalNewlines rest

/-- split after every LF, keeping it (`readlines` on translated text). -/
def splitKeepNL (s : Str) : List Str :=
  let rec go (cur : Str) : Str → List Str
    | [] => if cur.isEmpty then [] else [cur.reverse]
    | c :: cs => if c == 10 then (c :: cur).reverse :: go [] cs else go (c :: cur) cs
  go [] s

/-- `f.readlines()` on a text-mode file whose decoded content is `text`. -/
def readlines (text : Str) : List Str := splitKeepNL (universalNewlines text)

/-- decimal digits of `n` as code points (`str(n)` for n ≥ 0). -/
def digits (n : Nat) : Str :=
  if h : n < 10 then [48 + n] else digits (n / 10) ++ [48 + n % 10]
decreasing_by omega

def isDigit (c : Nat) : Bool := 48 ≤ c && c ≤ 57

/-- `int(ds)` for a string of ASCII digits. -/
def parseNat (ds : Str) : Nat := ds.foldl (fun a d => a * 10 + (d - 48)) 0

/-- pad `s` with blanks on the right up to `w`. -/
def padRight (s : Str) (w : Nat) : Str := s ++ List.replicate (w - s.length) 32

end Moto
