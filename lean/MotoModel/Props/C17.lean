/-
  C17 — moto_prettier upper-cases code and never touches string literals.
  Property theorems only; the model is `Moto.prettierLine` (Model/LineTools.lean),
  the specification `Moto.Spec.specUpper` (Spec/LineTools.lean).
-/
import MotoModel.Model.LineTools
import MotoModel.Spec.LineTools
namespace Moto.C17
open Moto Moto.Spec

theorem upperC_quote_iff (c : Nat) : upperC c = 34 ↔ c = 34 := by
  unfold upperC; split <;> omega

theorem upperC_idem (c : Nat) : upperC (upperC c) = upperC c := by
  unfold upperC; split <;> (try split) <;> omega

theorem upper_quotes (acc : Str) (h : ∀ c ∈ acc, c = 34) : upper acc = acc := by
  induction acc with
  | nil => rfl
  | cons a as ih =>
    have ha : a = 34 := h a (by simp)
    have : upper as = as := ih (fun c hc => h c (by simp [hc]))
    simp only [upper, List.map_cons] at *
    rw [this, ha]; simp [upperC]

/-- the loop over `re.split` groups is the character automaton (general form) -/
theorem groups_eq_spec (l : Str) : ∀ (acc : Str) (d : Nat), d < 2 → (∀ c ∈ acc, c = 34) →
    prettierGroups d (reSplitQuote acc l)
      = acc ++ specUpper (decide ((d + acc.length) % 2 = 1)) l := by
  induction l with
  | nil =>
    intro acc d hd hacc
    simp only [reSplitQuote, prettierGroups, specUpper, List.append_nil]
    split <;> simp [upper_quotes acc hacc]
  | cons c cs ih =>
    intro acc d hd hacc
    by_cases hc : c = 34
    · subst hc
      simp only [reSplitQuote, if_true]
      rw [ih (acc ++ [34]) d hd (by intro c hc; simp at hc; rcases hc with h | h; exact hacc c h; exact h)]
      simp only [specUpper, if_true, List.length_append, List.length_cons, List.length_nil,
        List.append_assoc, List.cons_append, List.nil_append]
      congr 2
      have h01 : (d + acc.length) % 2 = 0 ∨ (d + acc.length) % 2 = 1 := by omega
      have e : (d + (acc.length + (0 + 1))) % 2 = ((d + acc.length) % 2 + 1) % 2 := by omega
      rw [e]
      rcases h01 with h | h <;> simp [h]
    · simp only [reSplitQuote, if_neg hc, prettierGroups]
      -- depth after the quote run `acc`
      have hd' : (if acc.head? = some 34 then (d + acc.length) % 2 else d) = (d + acc.length) % 2 := by
        cases acc with
        | nil => simp; omega
        | cons a as => have : a = 34 := hacc a (by simp); simp [this]
      rw [hd']
      have hup : (if (d + acc.length) % 2 = 0 then upper acc else acc) = acc := by
        split <;> simp [upper_quotes acc hacc]
      rw [hup]
      have hne : ([c].head? = some 34) = False := by simp [hc]
      simp only [hne, if_false]
      rw [ih [] ((d + acc.length) % 2) (by omega) (by simp)]
      simp only [specUpper, if_neg hc, List.length_nil, Nat.add_zero, List.nil_append, Nat.mod_mod]
      have h01 : (d + acc.length) % 2 = 0 ∨ (d + acc.length) % 2 = 1 := by omega
      rcases h01 with h | h <;> simp [h, upper]

/-- **C17 (spec)**: for every line, the tool's output is the automaton's output. -/
theorem prettier_eq_spec (line : Str) :
    prettierLine line = specUpper false (rstripNL line) := by
  unfold prettierLine
  rw [groups_eq_spec (rstripNL line) [] 0 (by omega) (by simp)]
  simp

/-- same number of characters -/
theorem length_preserved (b : Bool) (l : Str) : (specUpper b l).length = l.length := by
  induction l generalizing b with
  | nil => rfl
  | cons c cs ih => simp only [specUpper]; split <;> simp [ih]

theorem spec_append (b : Bool) (l1 l2 : Str) :
    specUpper b (l1 ++ l2) = specUpper b l1 ++ specUpper (litAfter b l1) l2 := by
  induction l1 generalizing b with
  | nil => simp [specUpper, litAfter]
  | cons c cs ih =>
    simp only [List.cons_append, specUpper, litAfter]
    split <;> simp [ih]

theorem spec_literal_body (body : Str) (h : 34 ∉ body) : specUpper true body = body := by
  induction body with
  | nil => rfl
  | cons c cs ih =>
    have hc : c ≠ 34 := by intro h'; apply h; simp [h']
    have hcs : 34 ∉ cs := by intro h'; apply h; simp [h']
    simp [specUpper, hc, ih hcs]

theorem litAfter_noquote (b : Bool) (body : Str) (h : 34 ∉ body) : litAfter b body = b := by
  induction body generalizing b with
  | nil => rfl
  | cons c cs ih =>
    have hc : c ≠ 34 := by intro h'; apply h; simp [h']
    have hcs : 34 ∉ cs := by intro h'; apply h; simp [h']
    simp [litAfter, hc, ih _ hcs]

/-- **C17 (literals verbatim)**: a literal that opens outside any literal — a quote, a body
    without quote, then a closing quote or the end of the line — is reproduced unchanged,
    whatever precedes and follows. -/
theorem literal_verbatim (pre body post : Str) (hpre : litAfter false pre = false) (hb : 34 ∉ body) :
    specUpper false (pre ++ [34] ++ body ++ [34] ++ post)
      = specUpper false pre ++ [34] ++ body ++ [34] ++ specUpper false post := by
  simp only [List.append_assoc]
  rw [spec_append, hpre]
  simp only [List.cons_append, List.nil_append, specUpper, if_true, Bool.not_false]
  rw [spec_append, spec_literal_body body hb, litAfter_noquote true body hb]
  simp [specUpper]

theorem unterminated_literal_verbatim (pre body : Str) (hpre : litAfter false pre = false) (hb : 34 ∉ body) :
    specUpper false (pre ++ [34] ++ body) = specUpper false pre ++ [34] ++ body := by
  simp only [List.append_assoc]
  rw [spec_append, hpre]
  simp [specUpper, spec_literal_body body hb]

/-- **C17 (positions)**: position by position the output character is the input character,
    or its upper case. -/
theorem positions (b : Bool) (l : Str) (i : Nat) (h : i < l.length) :
    (specUpper b l)[i]'(by rw [length_preserved]; exact h) = l[i] ∨
    (specUpper b l)[i]'(by rw [length_preserved]; exact h) = upperC l[i] := by
  induction l generalizing b i with
  | nil => simp at h
  | cons c cs ih =>
    cases i with
    | zero =>
      simp only [specUpper]
      split
      · left; simp
      · cases b <;> simp
    | succ j =>
      have hj : j < cs.length := by simpa using h
      simp only [specUpper]
      split
      · simpa using ih (!b) j hj
      · simpa using ih b j hj

/-- **C17 (idempotence)** -/
theorem idempotent (b : Bool) (l : Str) : specUpper b (specUpper b l) = specUpper b l := by
  induction l generalizing b with
  | nil => rfl
  | cons c cs ih =>
    by_cases hc : c = 34
    · simp [specUpper, hc, ih]
    · cases b
      · have : upperC c ≠ 34 := by rw [Ne, upperC_quote_iff]; exact hc
        simp [specUpper, hc, this, upperC_idem, ih]
      · simp [specUpper, hc, ih]

theorem prettier_idempotent (line : Str) (h : rstripNL (prettierLine line) = prettierLine line) :
    prettierLine (prettierLine line) = prettierLine line := by
  rw [prettier_eq_spec (prettierLine line), h, prettier_eq_spec line, idempotent]

/-- **C17 (lines)**: one output line per input line, in order. -/
theorem line_count (text : Str) : (prettierText text).length = (readlines text).length := by
  simp [prettierText]

theorem lines_in_order (text : Str) (i : Nat) (h : i < (readlines text).length) :
    (prettierText text)[i]'(by rw [line_count]; exact h) = prettierLine ((readlines text)[i]) := by
  simp [prettierText]

/-- non-vacuity / regression witnesses (the pre-repair tool upper-cased inside `"""…`) -/
example : prettierLine [120, 34, 34, 34, 121, 32, 122] = [88, 34, 34, 34, 121, 32, 122] := by decide
example : litAfter false [120, 34, 34] = false ∧ 34 ∉ [121, 122] := by decide

/-- with standard input among the sources: one output line per line the sources deliver, in order, each the formatting of its line -/
theorem src_line_count (srcs : List (Bool × Str)) :
    (prettierSrc srcs).length = (srcs.flatMap (fun p => sourceLines p.1 p.2)).length := by
  simp [prettierSrc]

theorem src_lines (srcs : List (Bool × Str)) :
    prettierSrc srcs = (srcs.flatMap (fun p => sourceLines p.1 p.2)).map prettierLine := rfl

end Moto.C17
