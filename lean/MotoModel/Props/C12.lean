/-
  C12 — what the tools print is what the archive contains (names, order, sizes, counts).
  (first layer: the numbers the listeners print, in the model)
-/
import MotoModel.Proofs.DiskReport
import MotoModel.Proofs.DiskCount
import MotoModel.Proofs.DiskEvents
import MotoModel.Proofs.DiskUpdateText
import MotoModel.Proofs.DiskAnnounceOrder
import MotoModel.Props.C02
import MotoModel.Props.C01
import MotoModel.Proofs.DiskBlockCount
namespace Moto.C12
open Moto

/-! ### tape -/

/-- **C12 (tape, create)**: for every readable source the line printed by create carries the true
    content length, the number of data blocks written and the ordinal of the leader block. -/
theorem tape_create_line (w : Tape.World) (t : Tape.TapeW) (l : Tape.Listener) (src : Str) (data : Bytes)
    (hr : w (Tape.classify src).2 = some data) (t' : Tape.TapeW) (l' : Tape.Listener) (line : Str)
    (h : Tape.injectOne w t l src = .ok t' l' line) :
    line = Tape.lineOf l.verbose (Tape.classify src).1 (l.blockIndex + 1) data.length (Tape.dataBlocks data.length data).length
      ∧ l'.blockIndex = l.blockIndex + ((Tape.dataBlocks data.length data).length + 2) := by
  have hs := Tape.injectOne_spec w t l src data hr
  cases hw : Tape.writeAll t (Tape.fileRaw (Tape.classify src).1 data) with
  | none => rw [hw] at hs; rw [hs] at h; cases h
  | some t2 =>
    rw [hw] at hs
    obtain ⟨l2, h2, _, hbi⟩ := hs
    rw [h2] at h
    cases h
    refine ⟨rfl, ?_⟩
    rw [hbi]; simp [Tape.fileRaw]

/-- the number of data blocks is the number of 254-byte pieces of the content -/
theorem tape_block_count (data : Bytes) : (Tape.dataBlocks data.length data).length = (Spec.K7.chunks254 data).length := by
  rw [Tape.dataBlocks_eq_chunks]; simp [Spec.K7.chunks254]

/-- **C12 (tape, list/extract)**: reading a file back prints its true size (sum of its payloads),
    its number of data blocks and the ordinal of its leader -/
theorem tape_read_line (dir name ext : Str) (kind mode : Nat) (chunks : List Bytes) (hn : Tape.NameOK name ext)
    (s : Tape.RState) (rest : List Bytes) (hk : Tape.collides s.keep (pathJoin dir (name ++ [46] ++ ext)) = false) :
    ∃ s', Tape.readLoop true dir s (Tape.fileFrames name ext kind mode chunks ++ rest) = Tape.readLoop true dir s' rest
      ∧ s'.out = s.out ++ [Tape.lineOf s.l.verbose ⟨name, ext, kind, mode⟩ (s.l.blockIndex + 1) chunks.flatten.length chunks.length] := by
  obtain ⟨l', e, _, _⟩ := Tape.readLoop_file dir name ext kind mode chunks hn s rest hk
  refine ⟨_, e, ?_⟩
  simp [List.length_flatten]

/-! ### disk -/

/-- what `classify` puts in a leader is already in the form the leader stores: upper case, small numbers -/
theorem classify_normal (s : Str) :
    upper (Tape.classify s).1.name = (Tape.classify s).1.name ∧ upper (Tape.classify s).1.ext = (Tape.classify s).1.ext
    ∧ (Tape.classify s).1.kind % 256 = (Tape.classify s).1.kind ∧ (Tape.classify s).1.mode % 65536 = (Tape.classify s).1.mode := by
  have hidem : ∀ c : Nat, upperC (upperC c) = upperC c := by
    intro c; unfold upperC
    by_cases h : 97 ≤ c ∧ c ≤ 122
    · rw [if_pos h, if_neg (by omega)]
    · rw [if_neg h, if_neg h]
  have huu : ∀ x : Str, upper (upper x) = upper x := fun x => by simp [upper, hidem]
  have hdrop : ∀ (n : Nat) (x : Str), upper (List.drop n (upper x)) = List.drop n (upper x) := by
    intro n x
    have : List.drop n (upper x) = upper (List.drop n x) := by simp [upper, List.map_drop]
    rw [this, huu]
  have htake : ∀ (n : Nat) (x : Str), upper x = x → upper (List.take n x) = List.take n x := by
    intro n x h
    have : upper (List.take n x) = List.take n (upper x) := by simp [upper, List.map_take]
    rw [this, h]
  have hbase : ∀ x : Str, upper (basename (upper x)) = basename (upper x) := fun x => by unfold basename; exact hdrop _ x
  have hraw : upper (Tape.classifyRaw s).1.name = (Tape.classifyRaw s).1.name ∧ upper (Tape.classifyRaw s).1.ext = (Tape.classifyRaw s).1.ext
      ∧ (Tape.classifyRaw s).1.kind % 256 = (Tape.classifyRaw s).1.kind ∧ (Tape.classifyRaw s).1.mode % 65536 = (Tape.classifyRaw s).1.mode := by
    unfold Tape.classifyRaw
    dsimp only
    split
    · exact ⟨hbase s, rfl, rfl, rfl⟩
    · rename_i dp _
      have hname : upper (if (basename (upper (List.take dp s))).length > 8 then List.take 8 (basename (upper (List.take dp s))) else basename (upper (List.take dp s)))
          = (if (basename (upper (List.take dp s))).length > 8 then List.take 8 (basename (upper (List.take dp s))) else basename (upper (List.take dp s))) := by
        split
        · exact htake 8 _ (hbase _)
        · exact hbase _
      split
      · exact ⟨hname, (by decide : upper (Tape.str "BAS") = Tape.str "BAS"), rfl, rfl⟩
      · split
        · exact ⟨hname, huu _, rfl, rfl⟩
        · split
          · exact ⟨hname, huu _, rfl, rfl⟩
          · exact ⟨hname, huu _, rfl, rfl⟩
  obtain ⟨h1, h2, h3, h4⟩ := hraw
  exact ⟨htake 8 _ h1, htake 3 _ h2, h3, h4⟩

/-- the files of a created tape, as a reader sees them -/
def createdFiles (w : Tape.World) (srcs : List Str) : List C08.TFile :=
  srcs.map fun s => ⟨(Tape.classify s).1.name, (Tape.classify s).1.ext, (Tape.classify s).1.kind, (Tape.classify s).1.mode,
    Spec.K7.chunks254 (Tape.contentOf w s)⟩

theorem create_lines_eq_read_lines (w : Tape.World) (v : Bool) : ∀ (srcs : List Str) (bi : Nat),
    Tape.reportLines w v bi srcs = C08.readLines v bi (createdFiles w srcs) := by
  intro srcs
  induction srcs with
  | nil => intro bi; rfl
  | cons s rest ih =>
    intro bi
    simp only [Tape.reportLines, createdFiles, List.map_cons, C08.readLines]
    have hsum : ((Spec.K7.chunks254 (Tape.contentOf w s)).map List.length).sum = (Tape.contentOf w s).length := by
      have := congrArg List.length (C03.chunks_concat (Tape.contentOf w s))
      rw [List.length_flatten] at this
      exact this
    have hcnt := tape_block_count (Tape.contentOf w s)
    have hraw : (Tape.rawOf w s).length = (Spec.K7.chunks254 (Tape.contentOf w s)).length + 2 := by
      simp [Tape.rawOf, Tape.fileRaw, hcnt]
    rw [hsum, hcnt, hraw]
    congr 1
    exact ih _

/-- **C12 (tape: create, list and extract print the same report)**: for every list of readable
    sources with ordinary names that fits on the tape, and either verbosity, the report of the
    creation, the report of a later listing of the archive it wrote and the report of a later
    extraction are the same text: per file its name, its true size, its number of data blocks and
    the position of its leader block. -/
theorem tape_reports_agree (w : Tape.World) (v : Bool) (archive : Str) (into : Option Str) (srcs : List Str)
    (hr : Tape.AllReadable w archive srcs) (hn : C01.ValidNames srcs)
    (hfit : Spec.K7.encSize (srcs.map (C03.specFile w)) < 21504)
    (hk : ∀ s ∈ srcs, samePath (pathJoin (Tape.targetDirOf archive into) (C01.catalogName s)) archive = false) :
    ∃ tape, (Tape.inject w v archive srcs).writes = [(archive, tape)]
      ∧ (Tape.inject w v archive srcs).out = Tape.reportLines w v 0 srcs
      ∧ (Tape.enumerate v tape).out = Tape.reportLines w v 0 srcs
      ∧ (Tape.extract v archive into tape).out = Tape.reportLines w v 0 srcs := by
  refine ⟨Spec.K7.tape (srcs.map (C03.specFile w)), (C09.accepted w v archive srcs hr hfit).2.1, ?_, ?_⟩
  · have hfit' : Tape.totalLen (Tape.allRaw w srcs) < Gen.Tape.tapeSize := by rw [C09.needed_eq_encSize]; exact hfit
    obtain ⟨t', e, _⟩ := Tape.injectLoop_ok w archive srcs Tape.blank { verbose := v } [] [] hr Tape.written_blank (by simpa using hfit')
    simp [Tape.inject, e]
  · -- the created tape read back: its blocks are the frames of `createdFiles`
    have hblocks : Tape.readAll (Spec.K7.tape (srcs.map (C03.specFile w))) = (createdFiles w srcs).flatMap C08.TFile.frames := by
      rw [C01.created_tape_blocks]
      simp only [List.flatMap_map, List.map_flatMap, createdFiles]
      congr 1
      funext s
      rw [C01.frames_of_file]
      obtain ⟨h1, h2, h3, h4⟩ := classify_normal s
      simp [C08.TFile.frames, C03.specFile, h1, h2, h3, h4]
    have hnames : ∀ f ∈ createdFiles w srcs, Tape.NameOK f.name f.ext := by
      intro f hf
      simp only [createdFiles, List.mem_map] at hf
      obtain ⟨s, hs, rfl⟩ := hf
      have := hn s hs
      obtain ⟨h1, h2, _, _⟩ := classify_normal s
      rw [h1, h2] at this
      exact this
    have hcol : ∀ f ∈ createdFiles w srcs, Tape.collides (some archive) (pathJoin (Tape.targetDirOf archive into) f.path) = false := by
      intro f hf
      simp only [createdFiles, List.mem_map] at hf
      obtain ⟨s, hs, rfl⟩ := hf
      have := hk s hs
      obtain ⟨h1, h2, _, _⟩ := classify_normal s
      simp only [C01.catalogName, h1, h2] at this
      exact this
    obtain ⟨sx, ex, _, ho⟩ := C08.readLoop_tfiles (Tape.targetDirOf archive into) (createdFiles w srcs)
      { l := { verbose := v }, keep := some archive } hnames hcol
    rw [← hblocks] at ex
    have hox : sx.out = Tape.reportLines w v 0 srcs := by rw [ho, create_lines_eq_read_lines]; simp
    have hl := C08.list_extract_agree_dir v (Tape.targetDirOf archive into) _ (some archive) (by rw [ex])
    constructor
    · rw [hl.2, ex]; exact hox
    · simp only [Tape.extract]; rw [ex]; exact hox

/-- **C12 (plural)**: "s" is printed exactly when the number is not 1 -/
theorem plural_rule (n : Nat) : (Disk.plural n = [] ↔ n = 1) ∧ (Disk.plural n = Tape.str "s" ↔ n ≠ 1) := by
  unfold Disk.plural
  by_cases h : n = 1
  · subst h; decide
  · simp [h]; decide

/-- **C12 (counters)**: each stored / read file counts once, with its blocks -/
theorem counters_step (l : Disk.DL) (f : Disk.FileEv) :
    (Disk.onEndOfFile l f).filesOne = l.filesOne + 1 ∧ (Disk.onEndOfFile l f).filesAll = l.filesAll + 1
    ∧ (Disk.onEndOfFile l f).blocksOne = l.blocksOne + f.blocks ∧ (Disk.onEndOfFile l f).blocksAll = l.blocksAll + f.blocks
    ∧ (Disk.onEndOfFile l f).sides = l.sides := by
  unfold Disk.onEndOfFile
  dsimp only
  split
  · split <;> simp [Disk.DL.print, Disk.DL.retLine] <;> (try split) <;> simp [Disk.DL.print]
  · simp [Disk.DL.print]

/-- a new side section starts its per-side counters at zero -/
theorem side_counters_reset (l : Disk.DL) (n : Nat) :
    (Disk.onBeginOfSide l n).filesOne = 0 ∧ (Disk.onBeginOfSide l n).blocksOne = 0 := by
  unfold Disk.onBeginOfSide
  dsimp only
  split <;> split <;> simp [Disk.DL.print, Disk.DL.retLine] <;> (try split) <;> simp [Disk.DL.print]

/-- **C12 (create = list, blocks)**: the block count create/add announce for a file of `n` bytes is
    the number of blocks of the chain it writes, which is what list and extract count -/
theorem announced_blocks_are_chain_blocks (n : Nat) :
    (max 1 ((n + 254) / 255) + 7) / 8 = Disk.reqBlocks n := (C02.block_count n).symm

/-- the size list/extract print for a file written by the tool is its content length (C02) -/
theorem listed_size_is_content_length (n : Nat) :
    (8 * (Disk.reqBlocks n - 1) + Disk.lastSectorsOf n - 1) * 255 + Disk.lastBytesOf n = n := C02.recorded_size_is_exact n

/-! ### disk: the whole report of `--list` and `--extract`

`Disk.readReport p v img` (Proofs/DiskReport.lean) is a *stateless* text: for each side, the
separator (after the first side, except in a quiet listing), `Side k`, one line per live entry in
catalog order (`fileText`: catalog name and extension; in verbose mode kind, byte size and block
count; `...ok` when extracting), the closing line of the side (`endText`: file count, or `empty`,
and block usage with percentage), then for an extraction `---`, `TOTAL` and the totals. -/

open Moto.Disk in
/-- **C12 (disk, list)**: for every image of four consistent sides with ordinary names, `--list`
    returns 0 and prints exactly `readReport 0`: each file once, in catalog order, under its catalog
    name, with the counts of the sides -/
theorem disk_list_report (fl : Flavour) (verbose : Bool) (img : Image) (h : ImgOk img) (hn : ∀ k, k < 4 → NiceSide (img.getD k [])) :
    (list fl verbose (save fl img)).out = [readReport 0 verbose img] ∧ (list fl verbose (save fl img)).status = .ret 0 :=
  list_report fl verbose img h hn

open Moto.Disk in
/-- **C12 (disk, extract)**: `--extract` prints exactly the `--into` line (if any) and `readReport 1`
    (`hk`: no member would be extracted onto the archive itself — that extraction is refused, C20) -/
theorem disk_extract_report (fl : Flavour) (verbose : Bool) (archive : Str) (into : Option Str) (img : Image) (h : ImgOk img)
    (hn : ∀ k, k < 4 → NiceSide (img.getD k []))
    (hk : ∀ p ∈ sidesFiles (Tape.targetDirOf archive into) img 0, samePath p.1 archive = false) :
    (extract fl verbose archive into (save fl img)).out = [intoText into ++ readReport 1 verbose img] :=
  extract_report fl verbose archive into img h hn hk

open Moto.Disk in
/-- **C12 (one line per file, the true size, the true block count)**: on a consistent side the
    report has one line per file the extractor writes, in the same order; the byte size printed for
    an entry is the length of the content read for it, the block count the length of its chain, the
    name and extension the catalog's -/
theorem report_lines_are_the_files {sd : Side} {bat : List Nat} {own : Nat → List Nat} (inv : SideInv sd bat own) (dir : Str) :
    (sideEvs sd).length = (sideFiles sd dir).length
    ∧ ∀ j, j < 112 → ∀ e, entryAt sd own j = some e →
        (evOfEntry bat e).bytes = (readFile sd bat e).length ∧ (evOfEntry bat e).blocks = (own j).length
        ∧ (evOfEntry bat e).name = slice e.rec16 0 8 ∧ (evOfEntry bat e).ext = slice e.rec16 8 11 :=
  ⟨sideEvs_length_eq_files inv dir, fun j hj e he => event_facts inv j hj e he⟩

open Moto.Disk in
/-- a quiet listing of one side, spelled out: `Side k`, then `  NAME.EXT` for each file -/
theorem quiet_listing_side (sb i : Nat) (evs : List FileEv) (u : Usage) :
    sideText 0 false sb i evs u
      = Tape.str "Side " ++ digits i ++ [10]
        ++ evs.flatMap (fun ev => Tape.str "  " ++ rstripBy Tape.isSpace ev.name ++ [46] ++ rstripBy Tape.isSpace ev.ext ++ [10]) := by
  have hf : fileText 0 false = fun ev => Tape.str "  " ++ rstripBy Tape.isSpace ev.name ++ [46] ++ rstripBy Tape.isSpace ev.ext ++ [10] := by
    funext ev; simp [fileText]
  simp [sideText, beginText, endText, hf, List.append_assoc]

open Moto.Disk in
/-- a quiet extraction of one side, spelled out: separator after the first side, `Side k`,
    `  NAME.EXT...ok` for each file, then the number of files with its plural -/
theorem quiet_extract_side (sb i : Nat) (evs : List FileEv) (u : Usage) :
    sideText 1 false sb i evs u
      = (if sb + 1 > 1 then Tape.str "---" ++ [10] else []) ++ (Tape.str "Side " ++ digits i ++ [10])
        ++ evs.flatMap (fun ev => Tape.str "  " ++ rstripBy Tape.isSpace ev.name ++ [46] ++ rstripBy Tape.isSpace ev.ext ++ Tape.str "..." ++ Tape.str "ok" ++ [10])
        ++ (digits evs.length ++ Tape.str " file" ++ plural evs.length ++ [10]) := by
  have hf : fileText 1 false = fun ev => Tape.str "  " ++ rstripBy Tape.isSpace ev.name ++ [46] ++ rstripBy Tape.isSpace ev.ext ++ Tape.str "..." ++ Tape.str "ok" ++ [10] := by
    funext ev; simp [fileText]
  simp [sideText, beginText, endText, hf, filesText, List.append_assoc]

open Moto.Disk in
/-- **C12 (create/add: the announced total is the number of files stored)**: on a consistent image,
    after any batch, the total the closing line prints (`filesAll`) plus the number of files the image
    held before is the number of files it holds now; for `--create` it is therefore the number of
    files a later `--extract` writes. -/
theorem update_total_is_files_added (w : Tape.World) (verbose : Bool) (img : Image) (srcs : List Str)
    (himg : ImgOk img) (hs : ∀ src ∈ srcs, CleanSrc src) :
    ∃ st, performCore w verbose img srcs = .ok st ∧ ImgOk st.img ∧ st.l.filesAll + fileCount img = fileCount st.img :=
  performCore_total w verbose img srcs himg hs

open Moto.Disk in
theorem create_total_is_files_extracted (w : Tape.World) (verbose : Bool) (srcs : List Str) (hs : ∀ src ∈ srcs, CleanSrc src) (target : Str) :
    ∃ st, performCore w verbose ((List.replicate 4 blankSide).map initFileSystem) srcs = .ok st
      ∧ st.l.filesAll = (sidesFiles target st.img 0).length := by
  obtain ⟨st, h1, hok, hcount⟩ := performCore_total w verbose _ srcs fresh_img_ok hs
  refine ⟨st, h1, ?_⟩
  rw [← fileCount_eq_extracted st.img hok.1 target, ← hcount]
  have h0 : fileCount ((List.replicate 4 blankSide).map initFileSystem) = 0 := by
    unfold fileCount
    rw [List.countP_eq_zero]
    intro p hp
    obtain ⟨k, j⟩ := p
    obtain ⟨hk, hj⟩ := (mem_grid k j).mp hp
    dsimp only
    rw [C02.fresh_has_no_file k j hk hj]
    simp
  omega

open Moto.Disk in
/-- **C12 (create/add: the report is the replay of events that depend on the image and the sources
    only)**: the listener at the end of a batch is the initial one (after "Side 0") played through
    `batchEvents w srcs img` — a list computed from the files on disk, the sources and the image,
    in which the verbosity does not enter: quiet and verbose reports describe the same events -/
theorem update_report_is_replay (w : Tape.World) (verbose : Bool) (img : Image) (srcs : List Str) (st : Inj)
    (h : performCore w verbose img srcs = .ok st) :
    st.l = play (onBeginOfSide { processing := 2, verbose := verbose } 0) (batchEvents w srcs img) :=
  performCore_events w verbose img srcs st h

open Moto.Disk in
/-- **C12 (each offered file is announced stored at most once, with its true size)**: the events of
    one file are rounds of "announced, too big, side closed, next side opened" followed by at most
    one "announced, stored"; every announcement carries the length of the data and the number of
    blocks it needs, under the catalog name -/
theorem one_file_events (name ext : Str) (kind flag : Nat) (data : Bytes) (img : Image) (cur : Nat) :
    (fileEvents name ext kind flag data 4 img cur).countP LEv.isEndFile ≤ 1
    ∧ (∀ e ∈ fileEvents name ext kind flag data 4 img cur,
        e = .beginFile (evOf name ext kind flag data) ∨ e = .endFile (evOf name ext kind flag data) ∨ e = .abort (Tape.str "too big")
        ∨ (∃ u, e = .endSide u) ∨ (∃ i, e = .beginSide i))
    ∧ (evOf name ext kind flag data).bytes = data.length ∧ (evOf name ext kind flag data).blocks = reqBlocks data.length
    ∧ (evOf name ext kind flag data).name = name ∧ (evOf name ext kind flag data).ext = ext :=
  ⟨(fileEvents_shape name ext kind flag data 4 img cur).1, (fileEvents_shape name ext kind flag data 4 img cur).2,
   evOf_facts name ext kind flag data⟩

open Moto.Disk in
/-- **C12 (create/add: the whole report, as a text)**: on a consistent image, whatever the batch,
    the invocation returns 0 and prints exactly `updateText verbose secs` for four sections `secs`,
    one per side in the order 0, 1, 2, 3: each section is its "Side n" heading, the lines of its items
    (stored file with its size; refused file with the reason; note about a skipped source), and the
    count of the files stored in it ("empty" / "n file(s)", with the blocks written in verbose mode);
    then `---`, `TOTAL` and the sums over the sections.  The count that closes a section is the
    number of files the written image gained on that side (`newOn`: slots that held no file before
    and hold one now).  The items of the sections, read in order, are exactly the heading of side 0 followed by the
    events of the batch (`batchEvents`): the names, sizes and verdicts printed are those `announcements_in_order` and C10's
    `report_sections_list_the_files_in_order` speak about — the text is tied to the image through them. -/
theorem update_report_text (fl : Flavour) (w : Tape.World) (verbose : Bool) (archive : Str) (img : Image) (srcs : List Str)
    (himg : ImgOk img) (hs : ∀ src ∈ srcs, CleanSrc src) :
    ∃ img' secs, ImgOk img'
      ∧ (performOn fl w verbose archive img srcs).status = .ret 0
      ∧ (performOn fl w verbose archive img srcs).out = [updateText verbose secs]
      ∧ (performOn fl w verbose archive img srcs).writes = [(archive, save fl img')]
      ∧ secs.map (·.side) = [0, 1, 2, 3]
      ∧ (∀ sec ∈ secs, (storedOf sec.items).length = newOn img img' sec.side)
      ∧ secs.flatMap flatSec = LEv.beginSide 0 :: batchEvents w srcs img := by
  obtain ⟨st, secs, hst, hok, hout, hsides, hcnt, hflat⟩ := Disk.update_report_text w verbose img srcs himg hs
  refine ⟨st.img, secs, hok, ?_, ?_, ?_, hsides, hcnt, hflat⟩
  · unfold performOn
    rw [if_neg (by rw [himg.1]; omega), hst]
  · unfold performOn
    rw [if_neg (by rw [himg.1]; omega), hst]
    simp only [hout]
  · unfold performOn
    rw [if_neg (by rw [himg.1]; omega), hst]

open Moto.Disk in
/-- for `--create` the image starts empty: the count that closes the section of side `k` is the
    number of files of side `k` of the written image -/
theorem create_report_text (fl : Flavour) (w : Tape.World) (verbose : Bool) (archive : Str) (srcs : List Str)
    (hs : ∀ src ∈ srcs, CleanSrc src) :
    ∃ img' secs, ImgOk img'
      ∧ (create fl w verbose archive srcs).out = [updateText verbose secs]
      ∧ (create fl w verbose archive srcs).writes = [(archive, save fl img')]
      ∧ secs.map (·.side) = [0, 1, 2, 3]
      ∧ (∀ sec ∈ secs, (storedOf sec.items).length = ((List.range 112).countP fun j => (imgFileAt img' sec.side j).isSome))
      ∧ secs.flatMap flatSec = LEv.beginSide 0 :: batchEvents w srcs ((List.replicate 4 blankSide).map initFileSystem) := by
  obtain ⟨img', secs, hok, _, hout, hw, hsides, hcnt, hflat⟩ := update_report_text fl w verbose archive _ srcs fresh_img_ok hs
  refine ⟨img', secs, hok, hout, hw, hsides, ?_, hflat⟩
  intro sec hm
  rw [hcnt sec hm]
  unfold newOn
  apply List.countP_congr
  intro j hj
  have hj : j < 112 := by simpa using hj
  have hk : sec.side < 4 := by
    have : sec.side ∈ secs.map (·.side) := List.mem_map_of_mem hm
    rw [hsides] at this
    simp at this; omega
  unfold isNew
  rw [fresh_no_file sec.side j hk hj]
  simp

/-- the text of a section, spelled out on an example: side 1 as the second section of a quiet
    report, one stored file, one file refused, one source not found -/
example : Disk.secText false 1
      ⟨1, [.stored ⟨Tape.str "A", Tape.str "BAS", [], [], 3, 1⟩, .note (Tape.str "-- not found : x.bin"),
           .refused ⟨Tape.str "BIG", Tape.str "DAT", [], [], 99999, 49⟩ (Tape.str "too big")], ⟨1, 2, 157⟩⟩
    = Tape.str "---\nSide 1\n  A.BAS...ok\n  -- not found : x.bin\n  BIG.DAT...too big\n1 file\n" := by decide +kernel

open Moto.Disk in
/-- **C12 (create/add: each stored file appears exactly once, in processing order, under its catalog
    name)**: for every image, every list of source arguments (markers, missing files, names too
    long, refusals, retries on the following sides), the files the report announces as stored are, in
    order, a sub-sequence of `srcs.filterMap (srcEv w)` — for each source argument in command-line
    order its catalog name and extension, its kind strings, the size of the file on disk and the
    blocks it needs: no source is announced twice, none out of order, none under another name or size.
    (No hypothesis: it holds for the events of every batch.) -/
theorem announcements_in_order (w : Tape.World) (srcs : List Str) (img : Image) :
    ((storedOn 0 (batchEvents w srcs img)).map (·.2)).Sublist (srcs.filterMap (srcEv w)) :=
  Disk.announcements_in_order w srcs img


open Moto.Disk in
/-- **C12 (creating an archive and later listing or extracting it report the same sizes and block counts for the same file —
    disk archives, whole batch)**: for every create/add batch on a consistent image, every file the report announces stored —
    in the section of side `k`, with `ev.bytes` bytes and `ev.blocks` blocks — is, in the image the batch writes, a live entry of
    side `k` in a slot that held nothing before, carrying the entry bytes written for the announced name and extension
    (`IsRecordOf`: the entry is that file's, not merely one of the same size), and the event a later `--list` / `--extract` prints for that entry
    (`evOfEntry`: `disk_list_report` / `report_lines_are_the_files`) carries the same byte size and the same block count, which is
    the length of the entry's chain in the allocation table: the blocks announced are the blocks the file really occupies
    (Proofs/DiskBlockCount.lean: on a consistent side the chain length of a tool-written entry is determined by its "bytes in
    the last sector" and the content length, and equals `reqBlocks`). -/
theorem disk_announced_sizes_and_blocks_are_the_listed_ones (w : Tape.World) (verbose : Bool) (img : Image) (srcs : List Str)
    (himg : ImgOk img) (hs : ∀ src ∈ srcs, CleanSrc src) :
    ∃ st, performCore w verbose img srcs = .ok st ∧ ImgOk st.img
      ∧ ∀ p ∈ storedOn 0 (batchEvents w srcs img), ∃ j bat own e, j < 112 ∧ SideInv (st.img.getD p.1 []) bat own
          ∧ imgFileAt img p.1 j = none ∧ entryAt (st.img.getD p.1 []) own j = some e
          ∧ (∃ kind flag, IsRecordOf e.rec16 p.2.name p.2.ext kind flag p.2.bytes)
          ∧ (evOfEntry bat e).bytes = p.2.bytes ∧ (evOfEntry bat e).blocks = p.2.blocks ∧ (own j).length = p.2.blocks :=
  batch_blocks_listed w verbose img srcs himg hs

end Moto.C12
