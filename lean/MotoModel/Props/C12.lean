/-
  C12 — what the tools print is what the archive contains (names, order, sizes, counts).
  (first layer: the numbers the listeners print, in the model)
-/
import MotoModel.Props.C02
import MotoModel.Props.C01
namespace Moto.C12
open Moto

/-! ### tape -/

/-- **C12 (tape, create)**: for every readable source the line printed by create carries the true
    content length, the number of data blocks written and the ordinal of the leader block. -/
theorem tape_create_line (w : Tape.World) (t : Tape.TapeW) (l : Tape.Listener) (src : Str) (data : Bytes)
    (hr : w (Tape.classify src).2 = some data) (t' : Tape.TapeW) (l' : Tape.Listener) (line : Str)
    (h : Tape.injectOne w t l src = .ok t' l' line) :
    line = Tape.lineOf l.verbose (Tape.classify src).1 (l.blockIndex + 1) data.length (Tape.dataBlocks data.length data).length
      ∧ l'.blockIndex = l.blockIndex + ((Tape.dataBlocks data.length data).length + 2) := by
  have hs := Tape.injectOne_spec w t l src data hr
  cases hw : Tape.writeAll t (Tape.fileRaw (Tape.classify src).1 data) with
  | none => rw [hw] at hs; rw [hs] at h; cases h
  | some t2 =>
    rw [hw] at hs
    obtain ⟨l2, h2, _, hbi⟩ := hs
    rw [h2] at h
    cases h
    refine ⟨rfl, ?_⟩
    rw [hbi]; simp [Tape.fileRaw]

/-- the number of data blocks is the number of 254-byte pieces of the content -/
theorem tape_block_count (data : Bytes) : (Tape.dataBlocks data.length data).length = (Spec.K7.chunks254 data).length := by
  rw [Tape.dataBlocks_eq_chunks]; simp [Spec.K7.chunks254]

/-- **C12 (tape, list/extract)**: reading a file back prints its true size (sum of its payloads),
    its number of data blocks and the ordinal of its leader -/
theorem tape_read_line (dir name ext : Str) (kind mode : Nat) (chunks : List Bytes) (hn : Tape.NameOK name ext)
    (s : Tape.RState) (rest : List Bytes) :
    ∃ s', Tape.readLoop true dir s (Tape.fileFrames name ext kind mode chunks ++ rest) = Tape.readLoop true dir s' rest
      ∧ s'.out = s.out ++ [Tape.lineOf s.l.verbose ⟨name, ext, kind, mode⟩ (s.l.blockIndex + 1) chunks.flatten.length chunks.length] := by
  obtain ⟨l', e, _, _⟩ := Tape.readLoop_file dir name ext kind mode chunks hn s rest
  refine ⟨_, e, ?_⟩
  simp [List.length_flatten]

/-! ### disk -/

/-- **C12 (plural)**: "s" is printed exactly when the number is not 1 -/
theorem plural_rule (n : Nat) : (Disk.plural n = [] ↔ n = 1) ∧ (Disk.plural n = Tape.str "s" ↔ n ≠ 1) := by
  unfold Disk.plural
  by_cases h : n = 1
  · subst h; decide
  · simp [h]; decide

/-- **C12 (counters)**: each stored / read file counts once, with its blocks -/
theorem counters_step (l : Disk.DL) (f : Disk.FileEv) :
    (Disk.onEndOfFile l f).filesOne = l.filesOne + 1 ∧ (Disk.onEndOfFile l f).filesAll = l.filesAll + 1
    ∧ (Disk.onEndOfFile l f).blocksOne = l.blocksOne + f.blocks ∧ (Disk.onEndOfFile l f).blocksAll = l.blocksAll + f.blocks
    ∧ (Disk.onEndOfFile l f).sides = l.sides := by
  unfold Disk.onEndOfFile
  dsimp only
  split
  · split <;> simp [Disk.DL.print, Disk.DL.retLine] <;> (try split) <;> simp [Disk.DL.print]
  · simp [Disk.DL.print]

/-- a new side section starts its per-side counters at zero -/
theorem side_counters_reset (l : Disk.DL) (n : Nat) :
    (Disk.onBeginOfSide l n).filesOne = 0 ∧ (Disk.onBeginOfSide l n).blocksOne = 0 := by
  unfold Disk.onBeginOfSide
  dsimp only
  split <;> split <;> simp [Disk.DL.print, Disk.DL.retLine] <;> (try split) <;> simp [Disk.DL.print]

/-- **C12 (create = list, blocks)**: the block count create/add announce for a file of `n` bytes is
    the number of blocks of the chain it writes, which is what list and extract count -/
theorem announced_blocks_are_chain_blocks (n : Nat) :
    (max 1 ((n + 254) / 255) + 7) / 8 = Disk.reqBlocks n := (C02.block_count n).symm

/-- the size list/extract print for a file written by the tool is its content length (C02) -/
theorem listed_size_is_content_length (n : Nat) :
    (8 * (Disk.reqBlocks n - 1) + Disk.lastSectorsOf n - 1) * 255 + Disk.lastBytesOf n = n := C02.recorded_size_is_exact n

end Moto.C12
