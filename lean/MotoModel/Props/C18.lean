import MotoModel.Model.DiskCli
import MotoModel.Spec.Dos
namespace Moto.C18
open Moto Moto.Disk
theorem placeholder : computeRequiredSlots 0 255 = (0, 255) := rfl
end Moto.C18
