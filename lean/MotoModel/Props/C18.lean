/-
  C18 — hostile or corrupt archives cannot hang the tools or escape the destination.
  PARTIAL by nature: CPU time and memory are runtime quantities (observed by the check on the
  real processes); what is proved here is the logic — step bounds of the readers for *every*
  byte string / table, and confinement of every written path.
-/
import MotoModel.Proofs.DiskSector
import MotoModel.Props.C19
import MotoModel.Proofs.DiskWalkFuel
namespace Moto.C18
open Moto

/-! ### tape: the reader advances by at least 7 bytes per block -/

theorem startsWith_length (p l : Bytes) (h : startsWith p l = true) : p.length ≤ l.length := by
  induction p generalizing l with
  | nil => simp
  | cons x xs ih =>
    cases l with
    | nil => simp [startsWith] at h
    | cons y ys =>
      simp only [startsWith, Bool.and_eq_true] at h
      have := ih ys h.2
      simp; omega

theorem findSub_bound (p : Bytes) (l : Bytes) (k : Nat) (h : findSub p l = some k) : k + p.length ≤ l.length := by
  induction l generalizing k with
  | nil =>
    simp only [findSub] at h
    split at h
    · cases h; simp_all
    · cases h
  | cons x xs ih =>
    simp only [findSub] at h
    split at h
    · cases h
      rename_i hs
      have := startsWith_length p (x :: xs) hs
      omega
    · cases hf : findSub p xs with
      | none => rw [hf] at h; cases h
      | some j =>
        rw [hf] at h
        cases h
        have := ih j hf
        simp; omega

/-- every block returned consumes at least the 5 marker bytes and 2 block bytes -/
theorem nextBlock_consumes (rest : Bytes) (b rest' : Bytes) (h : Tape.nextBlock rest = (some b, rest')) :
    rest'.length + 7 ≤ rest.length := by
  unfold Tape.nextBlock at h
  cases hf : findSub Gen.Tape.readMarker rest with
  | none => rw [hf] at h; cases h
  | some k =>
    rw [hf] at h
    dsimp only at h
    have hb := findSub_bound _ _ _ hf
    have hm : Gen.Tape.readMarker.length = 5 := rfl
    split at h
    · rename_i hlen
      cases h
      simp only [List.length_drop] at hlen ⊢
      split <;> omega
    · cases h

/-- **C18 (tape steps)**: for every byte string, the number of blocks the reader visits is at most
    a seventh of its length: list and extract terminate within a bound proportional to the archive. -/
theorem tape_steps_bound (fuel : Nat) : ∀ rest : Bytes, 7 * (Tape.readAllFuel fuel rest).length ≤ rest.length := by
  induction fuel with
  | zero => intro rest; simp [Tape.readAllFuel]
  | succ f ih =>
    intro rest
    simp only [Tape.readAllFuel]
    cases hn : Tape.nextBlock rest with
    | mk ob rest' =>
      cases ob with
      | none => simp
      | some b =>
        have := nextBlock_consumes rest b rest' hn
        have := ih rest'
        simp only [List.length_cons]
        omega

/-- the fuel of the reading loop is never what stops it: with more fuel than bytes, any extra fuel
    gives the same blocks -/
theorem tape_fuel_enough : ∀ (fuel : Nat) (rest : Bytes), rest.length < fuel → ∀ k, Tape.readAllFuel (fuel + k) rest = Tape.readAllFuel fuel rest := by
  intro fuel
  induction fuel with
  | zero => intro rest h; omega
  | succ f ih =>
    intro rest h k
    have e : f + 1 + k = (f + k) + 1 := by omega
    rw [e]
    simp only [Tape.readAllFuel]
    cases hn : Tape.nextBlock rest with
    | mk ob rest' =>
      cases ob with
      | none => rfl
      | some b =>
        have := nextBlock_consumes rest b rest' hn
        dsimp only
        rw [ih rest' (by omega) k]

/-- **C18 (the model's reading loop is the unbounded `while block is not None` loop)**: `readAll`
    runs with a fuel of one more than the number of bytes; any larger fuel returns the same blocks, so
    the loop always ends because no further block marker is found, never because the fuel ran out -/
theorem tape_loop_complete (buf : Bytes) (k : Nat) : Tape.readAllFuel (buf.length + 1 + k) buf = Tape.readAll buf :=
  tape_fuel_enough (buf.length + 1) buf (by omega) k

theorem tape_blocks_bound (buf : Bytes) : 7 * (Tape.readAll buf).length ≤ buf.length := tape_steps_bound _ buf

/-! ### disk: the chain walk is bounded whatever the table holds -/

theorem nodup_reverse' {α} (l : List α) (h : l.Nodup) : l.reverse.Nodup := (List.reverse_perm l).symm.nodup h

theorem walkLoop_nodup (bat : List Nat) (fuel : Nat) : ∀ (cur : Nat) (acc : List Nat), acc.Nodup →
    (Disk.walkLoop bat fuel cur acc).Nodup ∧ (Disk.walkLoop bat fuel cur acc).length ≤ acc.length + fuel := by
  induction fuel with
  | zero => intro cur acc h; simp only [Disk.walkLoop]; exact ⟨nodup_reverse' _ h, by simp⟩
  | succ f ih =>
    intro cur acc h
    simp only [Disk.walkLoop]
    split
    · exact ⟨nodup_reverse' _ h, by simp⟩
    · split
      · exact ⟨nodup_reverse' _ h, by simp⟩
      · rename_i hc
        have hnot : (bat.getD cur 0) ∉ acc := by
          simp only [Bool.or_eq_true, not_or] at hc
          simpa using hc.2
        obtain ⟨h1, h2⟩ := ih (bat.getD cur 0) (bat.getD cur 0 :: acc) (List.nodup_cons.mpr ⟨hnot, h⟩)
        refine ⟨h1, ?_⟩
        simp only [List.length_cons] at h2
        omega

/-- **C18 (disk steps)**: for every table (cycles, self-links, dangling pointers included) and
    every first block, the walk ends with a duplicate-free chain of at most 160 blocks. -/
theorem walk_bounded (bat : List Nat) (first : Nat) (chain : List Nat) (hlen : bat.length = 160)
    (h : Disk.walk bat first = .ok chain) : chain.Nodup ∧ chain.length ≤ 161 := by
  unfold Disk.walk at h
  dsimp only at h
  split at h
  · cases h
  · split at h
    · cases h; simp
    · cases h
      obtain ⟨h1, h2⟩ := walkLoop_nodup bat bat.length first [first] (by simp)
      exact ⟨h1, by simp at h2; omega⟩

/-- **C18 (the model's chain walk is the `while not block.isLast()` loop of the source)**: the walk
    runs with a fuel of 160 steps; on every table the tools can load (a table of bytes, every status
    valid — the others are refused when the table is read) any larger fuel returns the same chain: the
    walk always ends on a last-block marker, a free or reserved block, or a block already visited, never
    because the fuel ran out -/
theorem disk_walk_complete (sd : Disk.Side) (bat : List Nat) (hb : Disk.getBat sd = .ok bat) (hbytes : ∀ s ∈ bat, s < 256)
    (first : Nat) (hfirst : first < 160) (hf : Disk.isFree (bat.getD first 0) = false) (hr : Disk.isReserved (bat.getD first 0) = false) (k : Nat) :
    Disk.walkLoop bat (bat.length + k) first [first] = Disk.walkLoop bat bat.length first [first] :=
  Disk.walk_fuel_enough sd bat hb hbytes first hfirst hf hr k

/-- a file never has more bytes than 160 blocks can hold plus one sector: memory is bounded -/
theorem catalog_scan_bounded (sd : Disk.Side) : (Disk.slots sd).length = 112 := by
  simp [Disk.slots, Disk.catalogSectors, Disk.slotStarts, List.range']

/-! ### confinement -/

/-- **C18 (tape confinement)**: whatever the archive bytes, every path written by tape extract is
    the destination directory joined with one component free of '/' that names an entry *inside* it — not empty, not `.`, not
    `..`, no NUL (`Tape.openable`) — never a path elsewhere. -/
theorem tape_confined (verbose : Bool) (archive : Str) (into : Option Str) (tape : Bytes) :
    ∀ w ∈ (Tape.extract verbose archive into tape).writes,
      ∃ f, w.1 = pathJoin (Tape.targetDirOf archive into) f ∧ f.contains 47 = false ∧ Tape.openable f = true :=
  C19.tape_extract_placement verbose archive into tape

/-- one side: every file written is `sidePath/NAME.EXT` with no '/' and no NUL in the name, and is
    not the path the extractor was told to keep (the archive) -/
theorem readEntries_writes (sd : Disk.Side) (bat : List Nat) (dir : Str) (entries : List Disk.Entry) : ∀ (st : Disk.RdState),
    ∀ w ∈ (Disk.readEntries sd bat (some dir) entries st).1.writes,
      w ∈ st.writes ∨ ∃ f, w.1 = pathJoin dir f ∧ f.contains 47 = false ∧ f.contains 0 = false ∧ f ≠ [46] ∧ f ≠ [46, 46] ∧ f ≠ [] ∧ Tape.collides st.keep w.1 = false := by
  induction entries with
  | nil => intro st w hw; simp [Disk.readEntries] at hw; exact Or.inl hw
  | cons e rest ih =>
    intro st w hw
    simp only [Disk.readEntries] at hw
    split at hw
    · exact Or.inl hw
    · split at hw
      · exact Or.inl hw
      · split at hw
        · exact Or.inl hw
        · split at hw
          · exact Or.inl hw
          · rename_i h47 hcol hdot
            rcases ih _ w hw with h | h
            · simp only [List.mem_append, List.mem_singleton] at h
              rcases h with h | h
              · exact Or.inl h
              · refine Or.inr ⟨Disk.fileNameOf e, by rw [h], ?_, ?_, ?_, ?_, ?_, ?_⟩
                · simp only [Bool.or_eq_true, not_or] at h47; simpa using h47.1
                · simp only [Bool.or_eq_true, not_or] at h47; simpa using h47.2
                · intro e1; apply hdot; simp [e1]
                · intro e1; apply hdot; simp [e1]
                · unfold Disk.fileNameOf; simp
                · rw [h]; simpa using hcol
            · exact Or.inr h

theorem readEntries_keep (sd : Disk.Side) (bat : List Nat) (sp : Option Str) (entries : List Disk.Entry) : ∀ (st : Disk.RdState),
    (Disk.readEntries sd bat sp entries st).1.keep = st.keep := by
  induction entries with
  | nil => intro st; rfl
  | cons e rest ih =>
    intro st
    simp only [Disk.readEntries]
    split
    · rfl
    · cases sp with
      | none => exact ih _
      | some dir =>
        dsimp only
        split
        · rfl
        · split
          · rfl
          · split
            · rfl
            · exact ih _

/-- a path the disk extractor may write: the destination, a `sideN` directory, one component
    without '/' and without NUL that is neither `.` nor `..` — an entry inside `sideN` -/
def DiskWritable (target : Str) (path : Str) : Prop :=
  ∃ k f, path = pathJoin (pathJoin target (Tape.str "side" ++ digits k)) f ∧ f.contains 47 = false ∧ f.contains 0 = false
    ∧ f ≠ [46] ∧ f ≠ [46, 46] ∧ f ≠ []

theorem readSides_writes (target : Str) : ∀ (sides : List Disk.Side) (i : Nat) (st : Disk.RdState),
    (∀ w ∈ st.writes, DiskWritable target w.1 ∧ Tape.collides st.keep w.1 = false) →
    ∀ w ∈ (Disk.readSides (some target) sides i st).1.writes, DiskWritable target w.1 ∧ Tape.collides st.keep w.1 = false := by
  intro sides
  induction sides with
  | nil => intro i st h w hw; simp only [Disk.readSides] at hw; exact h w hw
  | cons sd rest ih =>
    intro i st h w hw
    simp only [Disk.readSides, Option.map_some] at hw
    cases hb : Disk.getBat sd with
    | error e => rw [hb] at hw; exact h w hw
    | ok bat =>
      rw [hb] at hw
      dsimp only at hw
      cases hl : Disk.listFiles sd with
      | error e => rw [hl] at hw; exact h w hw
      | ok entries =>
        rw [hl] at hw
        dsimp only at hw
        have hside : ∀ w' ∈ (Disk.readEntries sd bat (some (pathJoin target (Tape.str "side" ++ digits i))) entries
            { l := Disk.onBeginOfSide st.l i, mkdirs := st.mkdirs ++ [pathJoin target (Tape.str "side" ++ digits i)], writes := st.writes, keep := st.keep }).1.writes,
            DiskWritable target w'.1 ∧ Tape.collides st.keep w'.1 = false := by
          intro w' hw'
          rcases readEntries_writes sd bat _ entries _ w' hw' with h1 | ⟨f, hf, h47, h0, hd1, hd2, hne, hc⟩
          · exact h w' h1
          · exact ⟨⟨i, f, hf, h47, h0, hd1, hd2, hne⟩, hc⟩
        have hkeep := readEntries_keep sd bat (some (pathJoin target (Tape.str "side" ++ digits i))) entries
            { l := Disk.onBeginOfSide st.l i, mkdirs := st.mkdirs ++ [pathJoin target (Tape.str "side" ++ digits i)], writes := st.writes, keep := st.keep }
        generalize hr : Disk.readEntries sd bat (some (pathJoin target (Tape.str "side" ++ digits i))) entries
            { l := Disk.onBeginOfSide st.l i, mkdirs := st.mkdirs ++ [pathJoin target (Tape.str "side" ++ digits i)], writes := st.writes, keep := st.keep } = r at hw hside hkeep
        obtain ⟨st', oe⟩ := r
        cases oe with
        | some e => exact hside w hw
        | none =>
          dsimp only at hw hside hkeep
          have := ih (i + 1) { st' with l := Disk.onEndOfSide st'.l (Disk.computeUsage bat) } (by dsimp only; rw [hkeep]; exact hside) w hw
          dsimp only at this
          rw [hkeep] at this
          exact this

/-- the same with the side index bounded: `sideK` with `K < n` -/
def DiskWritableB (target : Str) (n : Nat) (path : Str) : Prop :=
  ∃ k f, k < n ∧ path = pathJoin (pathJoin target (Tape.str "side" ++ digits k)) f ∧ f.contains 47 = false ∧ f.contains 0 = false
    ∧ f ≠ [46] ∧ f ≠ [46, 46] ∧ f ≠ []

theorem readSides_writesB (target : Str) : ∀ (sides : List Disk.Side) (i : Nat) (st : Disk.RdState),
    (∀ w ∈ st.writes, DiskWritableB target (i + sides.length) w.1 ∧ Tape.collides st.keep w.1 = false) →
    ∀ w ∈ (Disk.readSides (some target) sides i st).1.writes, DiskWritableB target (i + sides.length) w.1 ∧ Tape.collides st.keep w.1 = false := by
  intro sides
  induction sides with
  | nil => intro i st h w hw; simp only [Disk.readSides] at hw; exact h w hw
  | cons sd rest ih =>
    intro i st h w hw
    simp only [Disk.readSides, Option.map_some] at hw
    cases hb : Disk.getBat sd with
    | error e => rw [hb] at hw; exact h w hw
    | ok bat =>
      rw [hb] at hw
      dsimp only at hw
      cases hl : Disk.listFiles sd with
      | error e => rw [hl] at hw; exact h w hw
      | ok entries =>
        rw [hl] at hw
        dsimp only at hw
        have hside : ∀ w' ∈ (Disk.readEntries sd bat (some (pathJoin target (Tape.str "side" ++ digits i))) entries
            { l := Disk.onBeginOfSide st.l i, mkdirs := st.mkdirs ++ [pathJoin target (Tape.str "side" ++ digits i)], writes := st.writes, keep := st.keep }).1.writes,
            DiskWritableB target (i + (sd :: rest).length) w'.1 ∧ Tape.collides st.keep w'.1 = false := by
          intro w' hw'
          rcases readEntries_writes sd bat _ entries _ w' hw' with h1 | ⟨f, hf, h47, h0, hd1, hd2, hne, hc⟩
          · exact h w' h1
          · exact ⟨⟨i, f, by simp, hf, h47, h0, hd1, hd2, hne⟩, hc⟩
        have hkeep := readEntries_keep sd bat (some (pathJoin target (Tape.str "side" ++ digits i))) entries
            { l := Disk.onBeginOfSide st.l i, mkdirs := st.mkdirs ++ [pathJoin target (Tape.str "side" ++ digits i)], writes := st.writes, keep := st.keep }
        generalize hr : Disk.readEntries sd bat (some (pathJoin target (Tape.str "side" ++ digits i))) entries
            { l := Disk.onBeginOfSide st.l i, mkdirs := st.mkdirs ++ [pathJoin target (Tape.str "side" ++ digits i)], writes := st.writes, keep := st.keep } = r at hw hside hkeep
        obtain ⟨st', oe⟩ := r
        cases oe with
        | some e => exact hside w hw
        | none =>
          dsimp only at hw hside hkeep
          have hb' : i + 1 + rest.length = i + (sd :: rest).length := by simp; omega
          have := ih (i + 1) { st' with l := Disk.onEndOfSide st'.l (Disk.computeUsage bat) } (by dsimp only; rw [hkeep, hb']; exact hside) w hw
          dsimp only at this
          rw [hkeep, hb'] at this
          exact this

theorem load_length_le (fl : Disk.Flavour) (raw : Bytes) (img : Disk.Image) (h : Disk.load fl raw = .ok img) : img.length ≤ 4 := by
  unfold Disk.load at h
  dsimp only at h
  repeat' split at h
  all_goals first
    | (cases h; simp only [List.length_replicate]; omega)
    | (cases h; simp only [List.length_map, List.length_range]; exact Nat.min_le_right _ _)
    | cases h

/-- **C18 (disk confinement, the side directories are `side0` … `side3`)**: every path `--extract` writes is
    `destination/sideK/<entry>` with `K < 4`, whatever the bytes of the image -/
theorem disk_confined_four_sides (fl : Disk.Flavour) (verbose : Bool) (archive : Str) (into : Option Str) (raw : Bytes) :
    ∀ w ∈ (Disk.extract fl verbose archive into raw).writes, DiskWritableB (Tape.targetDirOf archive into) 4 w.1 := by
  intro w hw
  unfold Disk.extract at hw
  cases hl : Disk.load fl raw with
  | error e => rw [hl] at hw; simp at hw
  | ok img =>
    rw [hl] at hw
    dsimp only at hw
    have hfin : ∀ (r : Disk.RdState × Option PyErr), (Disk.finishRead r).writes = r.1.writes := by
      intro r; obtain ⟨s, o⟩ := r; cases o <;> rfl
    rw [hfin] at hw
    obtain ⟨k, f, hk, rest⟩ := (readSides_writesB _ img 0 _ (by intro w' hw'; simp at hw') w hw).1
    have := load_length_le fl raw img hl
    exact ⟨k, f, by omega, rest⟩

/-- **C18 (disk confinement)**: whatever the bytes of the image — any table, any catalog, any names —
    every path `--extract` writes is `destination/sideN/<one component without '/' and NUL, neither `.` nor `..`>` -/
theorem disk_confined (fl : Disk.Flavour) (verbose : Bool) (archive : Str) (into : Option Str) (raw : Bytes) :
    ∀ w ∈ (Disk.extract fl verbose archive into raw).writes, DiskWritable (Tape.targetDirOf archive into) w.1 := by
  intro w hw
  unfold Disk.extract at hw
  cases hl : Disk.load fl raw with
  | error e => rw [hl] at hw; simp at hw
  | ok img =>
    rw [hl] at hw
    dsimp only at hw
    have hfin : ∀ (r : Disk.RdState × Option PyErr), (Disk.finishRead r).writes = r.1.writes := by
      intro r; obtain ⟨s, o⟩ := r; cases o <;> rfl
    rw [hfin] at hw
    exact (readSides_writes _ img 0 _ (by intro w' hw'; simp at hw') w hw).1

/-- **C18 (listing is read-only)**: whatever the bytes of the image, `--list` writes nothing and
    creates no directory -/
theorem disk_list_readonly (fl : Disk.Flavour) (verbose : Bool) (raw : Bytes) :
    (Disk.list fl verbose raw).writes = [] ∧ (Disk.list fl verbose raw).mkdirs = [] := by
  have hent : ∀ (sd : Disk.Side) (bat : List Nat) (entries : List Disk.Entry) (st : Disk.RdState),
      (Disk.readEntries sd bat none entries st).1.writes = st.writes ∧ (Disk.readEntries sd bat none entries st).1.mkdirs = st.mkdirs := by
    intro sd bat entries
    induction entries with
    | nil => intro st; exact ⟨rfl, rfl⟩
    | cons e rest ih =>
      intro st
      simp only [Disk.readEntries]
      split
      · exact ⟨rfl, rfl⟩
      · exact ih _
  have hsides : ∀ (sides : List Disk.Side) (i : Nat) (st : Disk.RdState),
      (Disk.readSides none sides i st).1.writes = st.writes ∧ (Disk.readSides none sides i st).1.mkdirs = st.mkdirs := by
    intro sides
    induction sides with
    | nil => intro i st; exact ⟨rfl, rfl⟩
    | cons sd rest ih =>
      intro i st
      simp only [Disk.readSides, Option.map_none]
      cases Disk.getBat sd with
      | error e => exact ⟨rfl, rfl⟩
      | ok bat =>
        dsimp only
        cases Disk.listFiles sd with
        | error e => exact ⟨rfl, rfl⟩
        | ok entries =>
          dsimp only
          have he := hent sd bat entries { l := Disk.onBeginOfSide st.l i, mkdirs := st.mkdirs, writes := st.writes, keep := st.keep }
          generalize Disk.readEntries sd bat none entries { l := Disk.onBeginOfSide st.l i, mkdirs := st.mkdirs, writes := st.writes, keep := st.keep } = r at he
          obtain ⟨st', oe⟩ := r
          cases oe with
          | some e => exact he
          | none =>
            have := ih (i + 1) { st' with l := Disk.onEndOfSide st'.l (Disk.computeUsage bat) }
            exact ⟨this.1.trans he.1, this.2.trans he.2⟩
  unfold Disk.list
  cases Disk.load fl raw with
  | error e => exact ⟨rfl, rfl⟩
  | ok img =>
    dsimp only
    have := hsides img 0 { l := { processing := 0, verbose := verbose } }
    generalize Disk.readSides none img 0 { l := { processing := 0, verbose := verbose } } = r at this
    obtain ⟨s, o⟩ := r
    cases o <;> exact this

theorem readEntries_mkdirs (sd : Disk.Side) (bat : List Nat) (sp : Option Str) (entries : List Disk.Entry) : ∀ (st : Disk.RdState),
    (Disk.readEntries sd bat sp entries st).1.mkdirs = st.mkdirs := by
  induction entries with
  | nil => intro st; rfl
  | cons e rest ih =>
    intro st
    simp only [Disk.readEntries]
    split
    · rfl
    · cases sp with
      | none => exact ih _
      | some dir =>
        dsimp only
        split
        · rfl
        · split
          · rfl
          · split
            · rfl
            · exact ih _

/-- **C18 (directories)**: whatever the bytes of the image, the only directories `--extract` creates
    are `destination/sideN` -/
theorem disk_mkdirs_confined (fl : Disk.Flavour) (verbose : Bool) (archive : Str) (into : Option Str) (raw : Bytes) :
    ∀ d ∈ (Disk.extract fl verbose archive into raw).mkdirs, ∃ k, d = pathJoin (Tape.targetDirOf archive into) (Tape.str "side" ++ digits k) := by
  have hsides : ∀ (target : Str) (sides : List Disk.Side) (i : Nat) (st : Disk.RdState),
      (∀ d ∈ st.mkdirs, ∃ k, d = pathJoin target (Tape.str "side" ++ digits k)) →
      ∀ d ∈ (Disk.readSides (some target) sides i st).1.mkdirs, ∃ k, d = pathJoin target (Tape.str "side" ++ digits k) := by
    intro target sides
    induction sides with
    | nil => intro i st h d hd; simp only [Disk.readSides] at hd; exact h d hd
    | cons sd rest ih =>
      intro i st h d hd
      have hnew : ∀ d ∈ st.mkdirs ++ [pathJoin target (Tape.str "side" ++ digits i)], ∃ k, d = pathJoin target (Tape.str "side" ++ digits k) := by
        intro d hd
        rcases List.mem_append.mp hd with h1 | h1
        · exact h d h1
        · simp at h1; exact ⟨i, h1⟩
      simp only [Disk.readSides, Option.map_some] at hd
      cases hb : Disk.getBat sd with
      | error e => rw [hb] at hd; exact hnew d hd
      | ok bat =>
        rw [hb] at hd
        dsimp only at hd
        cases hl : Disk.listFiles sd with
        | error e => rw [hl] at hd; exact hnew d hd
        | ok entries =>
          rw [hl] at hd
          dsimp only at hd
          have hm := readEntries_mkdirs sd bat (some (pathJoin target (Tape.str "side" ++ digits i))) entries
            { l := Disk.onBeginOfSide st.l i, mkdirs := st.mkdirs ++ [pathJoin target (Tape.str "side" ++ digits i)], writes := st.writes, keep := st.keep }
          generalize Disk.readEntries sd bat (some (pathJoin target (Tape.str "side" ++ digits i))) entries
            { l := Disk.onBeginOfSide st.l i, mkdirs := st.mkdirs ++ [pathJoin target (Tape.str "side" ++ digits i)], writes := st.writes, keep := st.keep } = r at hd hm
          obtain ⟨st', oe⟩ := r
          dsimp only at hm
          cases oe with
          | some e => dsimp only at hd; rw [hm] at hd; exact hnew d hd
          | none =>
            dsimp only at hd
            exact ih (i + 1) { st' with l := Disk.onEndOfSide st'.l (Disk.computeUsage bat) } (by dsimp only; rw [hm]; exact hnew) d hd
  intro d hd
  unfold Disk.extract at hd
  cases hl : Disk.load fl raw with
  | error e => rw [hl] at hd; simp at hd
  | ok img =>
    rw [hl] at hd
    dsimp only at hd
    have hfin : ∀ (r : Disk.RdState × Option PyErr), (Disk.finishRead r).mkdirs = r.1.mkdirs := by
      intro r; obtain ⟨s, o⟩ := r; cases o <;> rfl
    rw [hfin] at hd
    exact hsides _ img 0 _ (by intro d' hd'; simp at hd') d hd

end Moto.C18
