/-
  C08 — any well-formed third-party tape is read exactly; list and extract agree.
-/
import MotoModel.Proofs.TapeRead
import MotoModel.Proofs.TapeFiles
namespace Moto.C08
open Moto Moto.Tape

theorem read_marker : Gen.Tape.readMarker = [1, 1, 1, 60, 90] := rfl

theorem render_length_ge (bs : List Spec.K7.WBlock) : bs.length ≤ (bs.flatMap Spec.K7.renderBlock).length := by
  induction bs with
  | nil => simp
  | cons b bs ih =>
    simp only [List.flatMap_cons, List.length_append, List.length_cons]
    have : 1 ≤ (Spec.K7.renderBlock b).length := by simp [Spec.K7.renderBlock, Spec.K7.frame]; omega
    omega

/-- **C08 (blocks)**: on any tape emitted by the independent writer — initial idle gap, leaders of
    three or more 01, payloads of 0..254 bytes whatever they contain (length byte 0 = 256), idle
    gaps of any length, any total length — the reader returns exactly the written blocks, in order. -/
theorem read_blocks (pre : Bytes) (bs : List Spec.K7.WBlock) (hpre : 60 ∉ pre) (hwf : ∀ b ∈ bs, b.wf) :
    readAll (Spec.K7.render pre bs) = bs.map (fun b => Spec.K7.frame b.ty b.payload) := by
  unfold readAll Spec.K7.render
  have := readAllFuel_render read_marker bs pre [] ((pre ++ bs.flatMap Spec.K7.renderBlock).length + 1)
    hpre (by simp) hwf (by have := render_length_ge bs; simp only [List.length_append]; omega)
  simpa using this

/-- the same with arbitrary padding after the last block (zeros, or anything without 3C) -/
theorem read_blocks_padded (pre tail : Bytes) (bs : List Spec.K7.WBlock) (hpre : 60 ∉ pre) (ht : 60 ∉ tail)
    (hwf : ∀ b ∈ bs, b.wf) :
    readAll (Spec.K7.render pre bs ++ tail) = bs.map (fun b => Spec.K7.frame b.ty b.payload) := by
  unfold readAll Spec.K7.render
  exact readAllFuel_render read_marker bs pre tail _ hpre ht hwf
    (by have := render_length_ge bs; simp only [List.length_append]; omega)

/-- payloads are opaque: a payload made of marker look-alikes is returned like any other -/
example : readAll (Spec.K7.render [] [⟨3, 1, [1, 1, 1, 60, 90, 255, 2, 0], [1, 1]⟩, ⟨3, 255, [], []⟩])
    = [Spec.K7.frame 1 [1, 1, 1, 60, 90, 255, 2, 0], Spec.K7.frame 255 []] := by decide

/-- one step: when the extractor's step succeeds, the enumerator's step succeeds with the same
    listener and the same report -/
theorem step_agree (dir : Str) (s1 s2 : RState) (raw : Bytes) (hl : s1.l = s2.l) (ho : s1.out = s2.out)
    (s2' : RState) (h : readStep true dir s2 raw = (s2', none)) :
    ∃ s1', readStep false [] s1 raw = (s1', none) ∧ s1'.l = s2'.l ∧ s1'.out = s2'.out := by
  unfold readStep at h ⊢
  cases hb : blockType raw with
  | invalid => simp [hb] at h
  | leader =>
    simp only [hb] at h ⊢
    cases hd : descOfBlock raw with
    | error e => simp [hd] at h
    | ok d =>
      simp only [hd] at h ⊢
      cases h
      exact ⟨_, rfl, by simp [hl], by simp [ho]⟩
  | data =>
    simp only [hb] at h ⊢
    rw [hl]
    cases hd : onDataBlock s2.l raw with
    | error e => simp [hd] at h
    | ok l' =>
      simp only [hd] at h ⊢
      cases h
      exact ⟨_, rfl, rfl, ho⟩
  | eof =>
    simp only [hb, if_true] at h ⊢
    simp only [Bool.false_eq_true, if_false]
    rw [hl]
    cases hdesc : s2.desc with
    | none => simp [hdesc] at h
    | some d =>
      simp only [hdesc] at h
      split at h
      · simp at h
      · split at h
        · simp at h
        · split at h
          · simp at h
          · split at h
            · simp at h
            · cases he : onEndBlock s2.l with
              | error e => simp [he] at h
              | ok r =>
                obtain ⟨line, l'⟩ := r
                simp only [he] at h ⊢
                cases h
                exact ⟨_, rfl, rfl, by simp [ho]⟩

/-- **C08 (list = extract)**: for every byte string offered as a tape, whenever extraction
    completes, listing completes too and both print the same report (names, sizes, block counts,
    block positions) — they fold the same listener over the same blocks. -/
theorem list_extract_agree_blocks (dir : Str) (blocks : List Bytes) : ∀ (s1 s2 : RState), s1.l = s2.l → s1.out = s2.out →
    ∀ s2', readLoop true dir s2 blocks = (.ret 0, s2') →
    ∃ s1', readLoop false [] s1 blocks = (.ret 0, s1') ∧ s1'.out = s2'.out := by
  induction blocks with
  | nil => intro s1 s2 _ ho s2' h; simp [readLoop] at h ⊢; rw [← h]; exact ho
  | cons raw rest ih =>
    intro s1 s2 hl ho s2' h
    simp only [readLoop] at h ⊢
    cases hs : readStep true dir s2 raw with
    | mk s2m err =>
      cases err with
      | some e => simp [hs] at h
      | none =>
        simp only [hs] at h
        obtain ⟨s1m, e1, hl', ho'⟩ := step_agree dir s1 s2 raw hl ho s2m hs
        simp only [e1]
        exact ih s1m s2m hl' ho' s2' h

theorem list_extract_agree_dir (verbose : Bool) (dir : Str) (tape : Bytes) (k : Option Str)
    (h : (readLoop true dir { l := { verbose := verbose }, keep := k } (readAll tape)).1 = .ret 0) :
    (enumerate verbose tape).status = .ret 0 ∧
    (enumerate verbose tape).out = (readLoop true dir { l := { verbose := verbose }, keep := k } (readAll tape)).2.out := by
  unfold enumerate
  cases hx : readLoop true dir { l := { verbose := verbose }, keep := k } (readAll tape) with
  | mk st s2' =>
    rw [hx] at h
    simp only at h
    subst h
    obtain ⟨s1', e1, ho⟩ := list_extract_agree_blocks dir (readAll tape) { l := { verbose := verbose } }
      { l := { verbose := verbose }, keep := k } rfl rfl s2' hx
    simp [e1, ho]

theorem list_extract_agree (verbose : Bool) (archive : Str) (into : Option Str) (tape : Bytes)
    (h : (extract verbose archive into tape).status = .ret 0) :
    (enumerate verbose tape).status = .ret 0 ∧ (enumerate verbose tape).out = (extract verbose archive into tape).out := by
  exact list_extract_agree_dir verbose (targetDirOf archive into) tape (some archive) h

/-! ### from blocks to files -/

/-- a file as a third-party writer may have cut it: any number of data blocks of any sizes -/
structure TFile where
  name : Str
  ext : Str
  kind : Nat
  mode : Nat
  chunks : List Bytes

def TFile.frames (f : TFile) : List Bytes := fileFrames f.name f.ext f.kind f.mode f.chunks
def TFile.path (f : TFile) : Str := f.name ++ [46] ++ f.ext

/-- the report of a listing / extraction: one line per file with its size (sum of its data blocks),
    its number of data blocks and the ordinal of its leader among all blocks; `bi` = blocks before -/
def readLines (v : Bool) : Nat → List TFile → List Str
  | _, [] => []
  | bi, f :: r => lineOf v ⟨f.name, f.ext, f.kind, f.mode⟩ (bi + 1) (f.chunks.map List.length).sum f.chunks.length
      :: readLines v (bi + (f.chunks.length + 2)) r

/-- the extractor over the blocks of a list of files, however each file was cut into data blocks:
    every file written once, in order, its content the concatenation of its data blocks -/
theorem readLoop_tfiles (dir : Str) (fs : List TFile) : ∀ (s : RState),
    (∀ f ∈ fs, NameOK f.name f.ext) → (∀ f ∈ fs, collides s.keep (pathJoin dir f.path) = false) →
    ∃ s', readLoop true dir s (fs.flatMap TFile.frames) = (.ret 0, s')
      ∧ s'.writes = s.writes ++ fs.map (fun f => (pathJoin dir f.path, f.chunks.flatten))
      ∧ s'.out = s.out ++ readLines s.l.verbose s.l.blockIndex fs := by
  induction fs with
  | nil => intro s _ _; exact ⟨s, by simp [readLoop], by simp, by simp [readLines]⟩
  | cons f rest ih =>
    intro s hn hk
    simp only [List.flatMap_cons, TFile.frames]
    obtain ⟨l', e, hv, hbi⟩ := readLoop_file dir f.name f.ext f.kind f.mode f.chunks (hn f (by simp)) s (rest.flatMap TFile.frames) (hk f (by simp))
    rw [e]
    obtain ⟨s', e2, hw, ho⟩ := ih
      { l := l', keep := s.keep,
        out := s.out ++ [lineOf s.l.verbose ⟨f.name, f.ext, f.kind, f.mode⟩ (s.l.blockIndex + 1) (f.chunks.map List.length).sum f.chunks.length],
        desc := some ⟨f.name, f.ext, f.kind, f.mode⟩, content := f.chunks.flatten,
        writes := s.writes ++ [(pathJoin dir (f.name ++ [46] ++ f.ext), f.chunks.flatten)] }
      (fun f' hf' => hn f' (by simp [hf'])) (fun f' hf' => hk f' (by simp [hf']))
    refine ⟨s', e2, ?_, ?_⟩
    · rw [hw]; simp [TFile.path]
    · rw [ho]
      simp only [hv, hbi, readLines, List.append_assoc, List.singleton_append]

theorem readLines_quiet : ∀ (fs : List TFile) (bi : Nat), readLines false bi fs = fs.map TFile.path := by
  intro fs
  induction fs with
  | nil => intro bi; rfl
  | cons f r ih => intro bi; simp [readLines, ih, lineOf, endLine, TFile.path]

/-- **C08 (list and extract recover exactly the files the tape encodes)**: a tape written by anyone —
    an idle gap, then for each file a leader block carrying its name, any number of data blocks of any
    sizes up to 254, an end block; every block behind a run of at least three 0x01 and the marker,
    followed by an idle gap of any length without 0x3C; anything without 0x3C after the last block —
    is extracted as exactly those files: names, order, and as content the concatenation of the data
    blocks; list and extract print the same report, `readLines`: per file its name, the sum of the
    sizes of its data blocks, their number and the position of its leader (quiet: the names). -/
theorem third_party_tape_read_exactly (pre tail : Bytes) (bs : List Spec.K7.WBlock) (fs : List TFile)
    (hpre : 60 ∉ pre) (ht : 60 ∉ tail) (hwf : ∀ b ∈ bs, b.wf)
    (hfiles : bs.map (fun b => Spec.K7.frame b.ty b.payload) = fs.flatMap TFile.frames)
    (hn : ∀ f ∈ fs, NameOK f.name f.ext) (v : Bool) (archive : Str) (into : Option Str)
    (hk : ∀ f ∈ fs, samePath (pathJoin (targetDirOf archive into) f.path) archive = false) :
    (extract v archive into (Spec.K7.render pre bs ++ tail)).status = .ret 0
    ∧ (extract v archive into (Spec.K7.render pre bs ++ tail)).writes
        = fs.map (fun f => (pathJoin (targetDirOf archive into) f.path, f.chunks.flatten))
    ∧ (extract v archive into (Spec.K7.render pre bs ++ tail)).out = readLines v 0 fs
    ∧ (enumerate v (Spec.K7.render pre bs ++ tail)).status = .ret 0
    ∧ (enumerate v (Spec.K7.render pre bs ++ tail)).out = readLines v 0 fs := by
  have hread := read_blocks_padded pre tail bs hpre ht hwf
  rw [hfiles] at hread
  obtain ⟨sx, ex, hwx, hox⟩ := readLoop_tfiles (targetDirOf archive into) fs { l := { verbose := v }, keep := some archive } hn hk
  rw [← hread] at ex
  have hl := list_extract_agree_dir v (targetDirOf archive into) _ (some archive) (by rw [ex])
  refine ⟨?_, ?_, ?_, hl.1, ?_⟩
  · simp only [extract]; rw [ex]
  · simp only [extract]; rw [ex]; simpa using hwx
  · simp only [extract]; rw [ex]; simpa using hox
  · rw [hl.2, ex]; simpa using hox

/-- non-vacuity: one file cut into blocks of 3, 0 and 1 bytes, leaders of 3 and 40 bytes, gaps -/
example : let f : TFile := ⟨str "A", str "BAS", 0, 0, [[1, 2, 3], [], [60]]⟩
    let bs : List Spec.K7.WBlock := [⟨3, 0, Spec.K7.pad 8 f.name ++ Spec.K7.pad 3 f.ext ++ [0, 0, 0], [0, 0]⟩, ⟨40, 1, [1, 2, 3], []⟩,
      ⟨3, 1, [], [7]⟩, ⟨5, 1, [60], []⟩, ⟨3, 255, [], [0]⟩]
    (∀ b ∈ bs, b.wf) ∧ bs.map (fun b => Spec.K7.frame b.ty b.payload) = [f].flatMap TFile.frames := by
  refine ⟨?_, by decide⟩
  intro b hb
  simp only [List.mem_cons, List.mem_nil_iff, or_false] at hb
  rcases hb with rfl | rfl | rfl | rfl | rfl <;> exact ⟨by decide, by decide, by decide⟩


/-! ### idle stretches that hold anything — 3C included — except the start-of-block pattern -/

/-- **C08 (blocks, weakest form of "idle gaps of any length")**: the stretches before the first block, between the blocks and
    after the last one may hold *any* bytes — 3C, 5A, runs of 01, `01 01 01 3C` not followed by 5A, `3C 5A` behind fewer than
    three 01 — as long as the five-byte start-of-block pattern `01 01 01 3C 5A` does not occur in them (`Spec.K7.idle`; if it
    did, a block would begin there).  What follows the last block is that block's idle stretch. -/
theorem read_blocks_any_idle (pre : Bytes) (bs : List Spec.K7.WBlock) (hpre : Spec.K7.idle pre = true) (hwf : ∀ b ∈ bs, b.wfIdle) :
    readAll (Spec.K7.render pre bs) = bs.map (fun b => Spec.K7.frame b.ty b.payload) := by
  unfold readAll Spec.K7.render
  exact readAllFuel_render_idle read_marker bs pre _ hpre hwf (by have := render_length_ge bs; simp only [List.length_append]; omega)

/-- the earlier hypothesis (no 3C at all in a gap) is a special case -/
theorem wf_implies_wfIdle (b : Spec.K7.WBlock) (h : b.wf) : b.wfIdle := ⟨h.1, h.2.1, idle_of_no_3C _ h.2.2⟩

/-- **C08 (files, any idle stretches)**: `third_party_tape_read_exactly` with idle stretches that may hold any bytes except
    the start-of-block pattern -/
theorem third_party_tape_any_idle_read_exactly (pre : Bytes) (bs : List Spec.K7.WBlock) (fs : List TFile)
    (hpre : Spec.K7.idle pre = true) (hwf : ∀ b ∈ bs, b.wfIdle)
    (hfiles : bs.map (fun b => Spec.K7.frame b.ty b.payload) = fs.flatMap TFile.frames)
    (hn : ∀ f ∈ fs, NameOK f.name f.ext) (v : Bool) (archive : Str) (into : Option Str)
    (hk : ∀ f ∈ fs, samePath (pathJoin (targetDirOf archive into) f.path) archive = false) :
    (extract v archive into (Spec.K7.render pre bs)).status = .ret 0
    ∧ (extract v archive into (Spec.K7.render pre bs)).writes
        = fs.map (fun f => (pathJoin (targetDirOf archive into) f.path, f.chunks.flatten))
    ∧ (extract v archive into (Spec.K7.render pre bs)).out = readLines v 0 fs
    ∧ (enumerate v (Spec.K7.render pre bs)).status = .ret 0
    ∧ (enumerate v (Spec.K7.render pre bs)).out = readLines v 0 fs := by
  have hread := read_blocks_any_idle pre bs hpre hwf
  rw [hfiles] at hread
  obtain ⟨sx, ex, hwx, hox⟩ := readLoop_tfiles (targetDirOf archive into) fs { l := { verbose := v }, keep := some archive } hn hk
  rw [← hread] at ex
  have hl := list_extract_agree_dir v (targetDirOf archive into) _ (some archive) (by rw [ex])
  refine ⟨?_, ?_, ?_, hl.1, ?_⟩
  · simp only [extract]; rw [ex]
  · simp only [extract]; rw [ex]; simpa using hwx
  · simp only [extract]; rw [ex]; simpa using hox
  · rw [hl.2, ex]; simpa using hox

/-- non-vacuity: gaps holding 3C, 3C 5A behind two 01 only, and 01 01 01 3C without 5A are idle; the pattern itself is not -/
example : Spec.K7.idle [60, 1, 1, 60, 90, 0, 1, 1, 1, 60, 0, 90, 1, 1, 1] = true ∧ Spec.K7.idle [0, 1, 1, 1, 60, 90] = false := by decide
example : readAll (Spec.K7.render [60, 90, 1, 1, 60, 90] [⟨3, 0, [1, 2], [1, 1, 1, 60, 7, 60, 90]⟩, ⟨4, 255, [], [60]⟩])
    = [Spec.K7.frame 0 [1, 2], Spec.K7.frame 255 []] := by decide

end Moto.C08
