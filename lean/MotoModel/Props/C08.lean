/-
  C08 — any well-formed third-party tape is read exactly; list and extract agree.
-/
import MotoModel.Proofs.TapeRead
namespace Moto.C08
open Moto Moto.Tape

theorem read_marker : Gen.Tape.readMarker = [1, 1, 1, 60, 90] := rfl

theorem render_length_ge (bs : List Spec.K7.WBlock) : bs.length ≤ (bs.flatMap Spec.K7.renderBlock).length := by
  induction bs with
  | nil => simp
  | cons b bs ih =>
    simp only [List.flatMap_cons, List.length_append, List.length_cons]
    have : 1 ≤ (Spec.K7.renderBlock b).length := by simp [Spec.K7.renderBlock, Spec.K7.frame]; omega
    omega

/-- **C08 (blocks)**: on any tape emitted by the independent writer — initial idle gap, leaders of
    three or more 01, payloads of 0..254 bytes whatever they contain (length byte 0 = 256), idle
    gaps of any length, any total length — the reader returns exactly the written blocks, in order. -/
theorem read_blocks (pre : Bytes) (bs : List Spec.K7.WBlock) (hpre : 60 ∉ pre) (hwf : ∀ b ∈ bs, b.wf) :
    readAll (Spec.K7.render pre bs) = bs.map (fun b => Spec.K7.frame b.ty b.payload) := by
  unfold readAll Spec.K7.render
  have := readAllFuel_render read_marker bs pre [] ((pre ++ bs.flatMap Spec.K7.renderBlock).length + 1)
    hpre (by simp) hwf (by have := render_length_ge bs; simp only [List.length_append]; omega)
  simpa using this

/-- the same with arbitrary padding after the last block (zeros, or anything without 3C) -/
theorem read_blocks_padded (pre tail : Bytes) (bs : List Spec.K7.WBlock) (hpre : 60 ∉ pre) (ht : 60 ∉ tail)
    (hwf : ∀ b ∈ bs, b.wf) :
    readAll (Spec.K7.render pre bs ++ tail) = bs.map (fun b => Spec.K7.frame b.ty b.payload) := by
  unfold readAll Spec.K7.render
  exact readAllFuel_render read_marker bs pre tail _ hpre ht hwf
    (by have := render_length_ge bs; simp only [List.length_append]; omega)

/-- payloads are opaque: a payload made of marker look-alikes is returned like any other -/
example : readAll (Spec.K7.render [] [⟨3, 1, [1, 1, 1, 60, 90, 255, 2, 0], [1, 1]⟩, ⟨3, 255, [], []⟩])
    = [Spec.K7.frame 1 [1, 1, 1, 60, 90, 255, 2, 0], Spec.K7.frame 255 []] := by decide

/-- one step: when the extractor's step succeeds, the enumerator's step succeeds with the same
    listener and the same report -/
theorem step_agree (dir : Str) (s1 s2 : RState) (raw : Bytes) (hl : s1.l = s2.l) (ho : s1.out = s2.out)
    (s2' : RState) (h : readStep true dir s2 raw = (s2', none)) :
    ∃ s1', readStep false [] s1 raw = (s1', none) ∧ s1'.l = s2'.l ∧ s1'.out = s2'.out := by
  unfold readStep at h ⊢
  cases hb : blockType raw with
  | invalid => simp [hb] at h
  | leader =>
    simp only [hb] at h ⊢
    cases hd : descOfBlock raw with
    | error e => simp [hd] at h
    | ok d =>
      simp only [hd] at h ⊢
      cases h
      exact ⟨_, rfl, by simp [hl], by simp [ho]⟩
  | data =>
    simp only [hb] at h ⊢
    rw [hl]
    cases hd : onDataBlock s2.l raw with
    | error e => simp [hd] at h
    | ok l' =>
      simp only [hd] at h ⊢
      cases h
      exact ⟨_, rfl, rfl, ho⟩
  | eof =>
    simp only [hb, if_true] at h ⊢
    simp only [Bool.false_eq_true, if_false]
    rw [hl]
    cases hdesc : s2.desc with
    | none => simp [hdesc] at h
    | some d =>
      simp only [hdesc] at h
      split at h
      · simp at h
      · split at h
        · simp at h
        · split at h
          · simp at h
          · cases he : onEndBlock s2.l with
            | error e => simp [he] at h
            | ok r =>
              obtain ⟨line, l'⟩ := r
              simp only [he] at h ⊢
              cases h
              exact ⟨_, rfl, rfl, by simp [ho]⟩

/-- **C08 (list = extract)**: for every byte string offered as a tape, whenever extraction
    completes, listing completes too and both print the same report (names, sizes, block counts,
    block positions) — they fold the same listener over the same blocks. -/
theorem list_extract_agree_blocks (dir : Str) (blocks : List Bytes) : ∀ (s1 s2 : RState), s1.l = s2.l → s1.out = s2.out →
    ∀ s2', readLoop true dir s2 blocks = (.ret 0, s2') →
    ∃ s1', readLoop false [] s1 blocks = (.ret 0, s1') ∧ s1'.out = s2'.out := by
  induction blocks with
  | nil => intro s1 s2 _ ho s2' h; simp [readLoop] at h ⊢; rw [← h]; exact ho
  | cons raw rest ih =>
    intro s1 s2 hl ho s2' h
    simp only [readLoop] at h ⊢
    cases hs : readStep true dir s2 raw with
    | mk s2m err =>
      cases err with
      | some e => simp [hs] at h
      | none =>
        simp only [hs] at h
        obtain ⟨s1m, e1, hl', ho'⟩ := step_agree dir s1 s2 raw hl ho s2m hs
        simp only [e1]
        exact ih s1m s2m hl' ho' s2' h

theorem list_extract_agree_dir (verbose : Bool) (dir : Str) (tape : Bytes)
    (h : (readLoop true dir { l := { verbose := verbose } } (readAll tape)).1 = .ret 0) :
    (enumerate verbose tape).status = .ret 0 ∧
    (enumerate verbose tape).out = (readLoop true dir { l := { verbose := verbose } } (readAll tape)).2.out := by
  unfold enumerate
  cases hx : readLoop true dir { l := { verbose := verbose } } (readAll tape) with
  | mk st s2' =>
    rw [hx] at h
    simp only at h
    subst h
    obtain ⟨s1', e1, ho⟩ := list_extract_agree_blocks dir (readAll tape) { l := { verbose := verbose } }
      { l := { verbose := verbose } } rfl rfl s2' hx
    simp [e1, ho]

theorem list_extract_agree (verbose : Bool) (archive : Str) (into : Option Str) (tape : Bytes)
    (h : (extract verbose archive into tape).status = .ret 0) :
    (enumerate verbose tape).status = .ret 0 ∧ (enumerate verbose tape).out = (extract verbose archive into tape).out := by
  exact list_extract_agree_dir verbose (targetDirOf archive into) tape h

end Moto.C08
