/-
  C14 — tokenizing a listing never loses, duplicates or reorders program text.
  Main theorem: `lossless` — for every ASCII line body, detokenizing what the tokenizer model
  emits gives back the text, upper-cased outside string literals (C17's automaton).
-/
import MotoModel.Proofs.BasicDecode
import MotoModel.Proofs.BasicProgram
import MotoModel.Props.C17
namespace Moto.C14
open Moto Moto.Basic Moto.Spec

theorem empty_not_token : isToken [] = false := by decide +kernel
theorem quote_not_token : isToken [34] = false := by decide +kernel

theorem single_no_colon (x : Nat) : requiresColon [x] = false := by
  simp [requiresColon, Gen.Tokens.requireColon]

/-- invariant outside a string literal; `T` is the text consumed so far, upper-cased outside literals -/
structure InvOut (c : Ctx) (T : Str) : Prop where
  done_closed : Closed false c.done false
  text : D false c.done ++ D false c.cand ++ c.bucket = T
  cand_ok : c.cand = [] ∨ ∃ k, isToken k = true ∧ c.cand = tokenBytes k
  bucket_ok : ∀ x ∈ c.bucket, x < 128 ∧ x ≠ 34
  seq_ok : c.seq = D false c.cand ++ c.bucket

/-- invariant inside a string literal -/
structure InvIn (c : Ctx) (T : Str) : Prop where
  done_closed : Closed false c.done true
  cand_nil : c.cand = []
  text : D false c.done ++ c.bucket = T
  bucket_ok : ∀ x ∈ c.bucket, x < 128 ∧ x ≠ 34

theorem decode_nil (b : Bool) : D b [] = [] := by simp [D, BasicRef.decode]

theorem cand_closed (c : Ctx) (h : c.cand = [] ∨ ∃ k, isToken k = true ∧ c.cand = tokenBytes k) :
    Closed false c.cand false ∧ c.cand.head? ≠ some 0x8F := by
  rcases h with h | ⟨k, hk, h⟩
  · rw [h]; exact ⟨closed_nil false, by simp⟩
  · rw [h]; have := closed_token k hk; exact ⟨this.1, this.2.2.1⟩

theorem text_head (t : Str) (h : ∀ x ∈ t, x < 128 ∧ x ≠ 34) : t.head? ≠ some 0x8F := by
  cases t with
  | nil => simp
  | cons a as => have := (h a (by simp)).1; simp; omega

/-- `commit` outside a literal: everything pending becomes closed output -/
theorem commit_out' (c : Ctx) (T : Str) (hd : Closed false c.done false) (ht : D false c.done ++ D false c.cand ++ c.bucket = T)
    (hc : c.cand = [] ∨ ∃ k, isToken k = true ∧ c.cand = tokenBytes k) (hb : ∀ x ∈ c.bucket, x < 128 ∧ x ≠ 34) :
    Closed false (commit c).done false ∧ D false (commit c).done = T ∧ (commit c).cand = [] ∧ (commit c).bucket = [] ∧ (commit c).seq = [] := by
  obtain ⟨hcc, hch⟩ := cand_closed c hc
  obtain ⟨hbc, hbd⟩ := closed_text c.bucket hb
  have hbh := text_head c.bucket hb
  have hcb : Closed false (c.cand ++ c.bucket) false := closed_append hcc hbc hbh
  have hcbh : (c.cand ++ c.bucket).head? ≠ some 0x8F := by
    cases hcand : c.cand with
    | nil => simpa using hbh
    | cons a as => rw [hcand] at hch; simpa using hch
  refine ⟨?_, ?_, rfl, rfl, rfl⟩
  · show Closed false (c.done ++ c.cand ++ c.bucket) false
    rw [List.append_assoc]; exact closed_append hd hcb hcbh
  · show D false (c.done ++ c.cand ++ c.bucket) = T
    rw [List.append_assoc, hd _ hcbh, hcc _ hbh, hbd, ← List.append_assoc]; exact ht

theorem commit_out (c : Ctx) (T : Str) (h : InvOut c T) :
    Closed false (commit c).done false ∧ D false (commit c).done = T ∧ (commit c).cand = [] ∧ (commit c).bucket = [] ∧ (commit c).seq = [] :=
  commit_out' c T h.done_closed h.text h.cand_ok h.bucket_ok

theorem commitAsToken_out (c : Ctx) (T : Str) (h : InvOut c T) :
    Closed false (commitAsToken c).done false ∧ D false (commitAsToken c).done = T ∧ (commitAsToken c).cand = []
      ∧ (commitAsToken c).bucket = [] ∧ (commitAsToken c).seq = [] := by
  unfold commitAsToken
  split
  · rename_i h2
    obtain ⟨hd, ht, hc, hb, hs⟩ := h
    obtain ⟨hcc, hch⟩ := cand_closed c hc
    obtain ⟨_, hdk, _, _⟩ := closed_token _ h2
    apply commit_out' ⟨c.done ++ c.cand, tokenBytes c.bucket, c.seq, []⟩ T (closed_append hd hcc hch) ?_ (Or.inr ⟨_, h2, rfl⟩) (by simp)
    simp only [hdk, List.append_nil]
    rw [hd _ hch]; exact ht
  · exact commit_out c T h

theorem invOut_of_commit' (c : Ctx) (T : Str) (hd : Closed false c.done false) (ht : D false c.done ++ D false c.cand ++ c.bucket = T)
    (hc : c.cand = [] ∨ ∃ k, isToken k = true ∧ c.cand = tokenBytes k) (hb : ∀ x ∈ c.bucket, x < 128 ∧ x ≠ 34) : InvOut (commit c) T := by
  obtain ⟨h1, h2, h3, h4, h5⟩ := commit_out' c T hd ht hc hb
  exact ⟨h1, by rw [h3, h4, h2]; simp [decode_nil], Or.inl h3, by rw [h4]; simp, by rw [h5, h3, h4]; simp [decode_nil]⟩

theorem invOut_of_commit (c : Ctx) (T : Str) (h : InvOut c T) : InvOut (commit c) T :=
  invOut_of_commit' c T h.done_closed h.text h.cand_ok h.bucket_ok

/-- one `appendAsToken` of an ASCII non-quote character keeps the invariant -/
theorem step_token (x : Nat) (hx : x < 128) (hq : x ≠ 34) (fuel : Nat) :
    ∀ (c : Ctx) (T : Str), InvOut c T → (if isToken c.bucket then 2 else 1) ≤ fuel →
      InvOut (appendAsTokenFuel fuel c [x]) (T ++ [x]) := by
  induction fuel with
  | zero => intro c T _ hf; split at hf <;> omega
  | succ f ih =>
    intro c T h hf
    obtain ⟨hd, ht, hc, hb, hs⟩ := h
    simp only [appendAsTokenFuel]
    by_cases h1 : isToken (c.seq ++ [x]) = true
    · -- the whole sequence is a keyword: it replaces what was pending
      simp only [h1, if_true]
      obtain ⟨_, hdk, _, _⟩ := closed_token _ h1
      refine ⟨hd, ?_, Or.inr ⟨_, h1, rfl⟩, by simp, by simp [hdk]⟩
      simp only [hdk, List.append_nil]
      rw [hs, ← ht]; simp [List.append_assoc]
    · simp only [h1, Bool.false_eq_true, if_false]
      by_cases h2 : isToken c.bucket = true
      · -- the bucket is a keyword: flush what was pending, restart at this keyword, process x again
        simp only [h2, if_true]
        obtain ⟨hcc, hch⟩ := cand_closed c hc
        obtain ⟨_, hdk, _, _⟩ := closed_token _ h2
        have hf' : 1 ≤ f := by simp only [h2, if_true] at hf; omega
        apply ih
        · refine ⟨closed_append hd hcc hch, ?_, Or.inr ⟨_, h2, rfl⟩, by simp, by simp [hdk]⟩
          simp only [hdk, List.append_nil]
          rw [hd _ hch]; exact ht
        · simp only [empty_not_token, Bool.false_eq_true, if_false]; exact hf'
      · simp only [h2, Bool.false_eq_true, if_false]
        by_cases h3 : isToken [x] = true
        · -- a one-character operator: commit, emit its token, commit
          simp only [h3, if_true]
          have hI' : InvOut c T := ⟨hd, ht, hc, hb, hs⟩
          obtain ⟨g1, g2, _, _, _⟩ := commit_out c T hI'
          have hcm : commit { c with seq := c.seq ++ [x] } = commit c := rfl
          rw [hcm]
          have htb : bytesFromUint ((tokenOf [x]).getD 0) = tokenBytes [x] := by
            simp [tokenBytes, single_no_colon]
          obtain ⟨_, k2, _, _⟩ := closed_token [x] h3
          apply invOut_of_commit' ⟨(commit c).done, [] ++ bytesFromUint ((tokenOf [x]).getD 0), [], []⟩ (T ++ [x]) g1
          · simp only [htb, List.nil_append, k2, g2, List.append_nil]
          · exact Or.inr ⟨[x], h3, by rw [htb]; rfl⟩
          · intro y hy; cases hy
        · -- plain character: goes to the bucket
          simp only [h3, Bool.false_eq_true, if_false]
          refine ⟨hd, ?_, hc, ?_, by simp [hs, List.append_assoc]⟩
          · simp only; rw [← ht]; simp [List.append_assoc]
          · intro y hy
            simp only [List.mem_append, List.mem_singleton] at hy
            rcases hy with hy | hy
            · exact hb y hy
            · subst hy; exact ⟨hx, hq⟩

theorem fuel_ok (c : Ctx) : (if isToken c.bucket then 2 else 1) ≤ 3 := by split <;> omega

theorem upperC_lt (ch : Nat) (h : ch < 128) : upperC ch < 128 := by unfold upperC; split <;> omega
theorem upperC_ne_quote (ch : Nat) (h : ch ≠ 34) : upperC ch ≠ 34 := by
  rw [Ne, C17.upperC_quote_iff]; exact h

theorem special_fixed (ch : Nat) (h : isSpecial ch = true) : upperC ch = ch ∧ ch < 128 ∧ ch ≠ 34 := by
  have : Gen.Tokens.specialChars = [46, 44, 40, 41, 58, 59, 32] := C13.special_chars
  simp only [isSpecial, this, List.contains_eq_mem, List.mem_cons, List.mem_singleton, List.not_mem_nil, or_false,
    decide_eq_true_eq] at h
  rcases h with h | h | h | h | h | h | h <;> subst h <;> decide

/-- invariant of the character loop: `p` is the part of the line already consumed -/
def Inv (st : Ctx × Bool) (p : Str) : Prop :=
  if st.2 then InvIn st.1 (specUpper false p) ∧ litAfter false p = true
  else InvOut st.1 (specUpper false p) ∧ litAfter false p = false

theorem litAfter_append (b : Bool) (l1 l2 : Str) : litAfter b (l1 ++ l2) = litAfter (litAfter b l1) l2 := by
  induction l1 generalizing b with
  | nil => rfl
  | cons c cs ih => simp [litAfter, ih]

theorem parseChar_inv (st : Ctx × Bool) (p : Str) (ch : Nat) (hch : ch < 128) (h : Inv st p) :
    Inv (parseChar st ch) (p ++ [ch]) := by
  obtain ⟨c, inLit⟩ := st
  cases inLit with
  | false =>
    simp only [Inv, Bool.false_eq_true, if_false] at h
    obtain ⟨hI, hl⟩ := h
    have hspec : specUpper false (p ++ [ch]) = specUpper false p ++ [if ch = 34 then ch else upperC ch] := by
      rw [C17.spec_append, hl]; simp only [specUpper]; split <;> simp
    simp only [parseChar]
    by_cases hq : ch = 34
    · -- opening quote
      subst hq
      simp only [if_true, Bool.not_false, Bool.false_eq_true, if_false]
      obtain ⟨g1, g2, g3, g4, g5⟩ := commitAsToken_out c _ hI
      generalize commitAsToken c = c' at g1 g2 g3 g4 g5
      simp only [Inv, if_true]
      constructor
      · have hc2 : commit (appendAsLiteral c' [34]) = { done := c'.done ++ [34], cand := [], seq := [], bucket := [] } := by
          simp [commit, appendAsLiteral, g3, g4]
        rw [hc2]
        refine ⟨closed_append g1 closed_quote_open (by simp), rfl, ?_, by simp⟩
        simp only [List.append_nil]
        rw [g1 [34] (by simp), g2, hspec]
        simp [D, BasicRef.decode]
      · rw [litAfter_append, hl]; simp [litAfter]
    · simp only [hq, if_false, Bool.false_eq_true]
      by_cases hs : isSpecial ch = true
      · simp only [hs, if_true]
        obtain ⟨hu, h128, hnq⟩ := special_fixed ch hs
        simp only [Inv, Bool.false_eq_true, if_false]
        constructor
        · have := step_token ch h128 hnq 3 c _ hI (fuel_ok c)
          rw [hspec]; simp only [hq, if_false, hu]
          exact invOut_of_commit _ _ this
        · rw [litAfter_append, hl]; simp [litAfter, hq]
      · simp only [hs, Bool.false_eq_true, if_false]
        simp only [Inv, Bool.false_eq_true, if_false]
        constructor
        · have := step_token (upperC ch) (upperC_lt ch hch) (upperC_ne_quote ch hq) 3 c _ hI (fuel_ok c)
          rw [hspec]; simp only [hq, if_false]
          exact this
        · rw [litAfter_append, hl]; simp [litAfter, hq]
  | true =>
    simp only [Inv, if_true] at h
    obtain ⟨hI, hl⟩ := h
    obtain ⟨hd, hcn, ht, hb⟩ := hI
    have hspec : specUpper false (p ++ [ch]) = specUpper false p ++ [ch] := by
      rw [C17.spec_append, hl]; simp only [specUpper]; split <;> simp
    simp only [parseChar]
    by_cases hq : ch = 34
    · -- closing quote
      subst hq
      simp only [if_true, Bool.not_true]
      have hnq : 34 ∉ c.bucket := fun hm => (hb 34 hm).2 rfl
      obtain ⟨hbc, hbd⟩ := closed_lit_text c.bucket hnq
      have hbh : c.bucket.head? ≠ some 0x8F := by
        cases hbk : c.bucket with
        | nil => simp
        | cons a as => have := (hb a (by rw [hbk]; simp)).1; simp; omega
      have hc1 : commit c = ⟨c.done ++ c.bucket, [], [], []⟩ := by simp [commit, hcn]
      have hc2 : appendAsToken ⟨c.done ++ c.bucket, [], [], []⟩ [34] = ⟨c.done ++ c.bucket, [], [34], [34]⟩ := by
        simp [appendAsToken, appendAsTokenFuel, quote_not_token, empty_not_token]
      have hc3 : commit ⟨c.done ++ c.bucket, [], [34], [34]⟩ = ⟨c.done ++ c.bucket ++ [34], [], [], []⟩ := by
        simp [commit]
      simp only [Inv, Bool.false_eq_true, if_false]
      rw [hc1, hc2, hc3]
      have hq34 : Closed true [34] false := closed_lit_char 34
      have hcl : Closed false (c.done ++ c.bucket ++ [34]) false :=
        closed_append (closed_append hd hbc hbh) hq34 (by simp)
      constructor
      · refine ⟨hcl, ?_, Or.inl rfl, by simp, by simp [decode_nil]⟩
        simp only [decode_nil, List.append_nil]
        rw [(closed_append hd hbc hbh) [34] (by simp), hd _ hbh, hbd, decode_lit_char, ht, hspec]
      · rw [litAfter_append, hl]; simp [litAfter]
    · -- a character of the literal
      simp only [hq, if_false, if_true]
      simp only [Inv, if_true]
      constructor
      · refine ⟨hd, hcn, ?_, ?_⟩
        · simp only [appendAsLiteral]; rw [hspec, ← ht]; simp [List.append_assoc]
        · intro y hy
          simp only [appendAsLiteral, List.mem_append, List.mem_singleton] at hy
          rcases hy with hy | hy
          · exact hb y hy
          · subst hy; exact ⟨hch, hq⟩
      · rw [litAfter_append, hl]; simp [litAfter, hq]

end Moto.C14

namespace Moto.C14
open Moto Moto.Basic Moto.Spec

theorem fold_inv (rest : Str) : ∀ (st : Ctx × Bool) (p : Str), (∀ ch ∈ rest, ch < 128) → Inv st p →
    Inv (rest.foldl parseChar st) (p ++ rest) := by
  induction rest with
  | nil => intro st p _ h; simpa using h
  | cons ch cs ih =>
    intro st p hr h
    simp only [List.foldl_cons]
    have := ih (parseChar st ch) (p ++ [ch]) (fun x hx => hr x (by simp [hx])) (parseChar_inv st p ch (hr ch (by simp)) h)
    simpa [List.append_assoc] using this

/-- **C14 (lossless)**: for every line body over ASCII — whatever its spacing, however keywords,
    identifiers and digits run together, whatever its quotes — detokenizing the bytes the tokenizer
    emits gives back the same text, upper-cased outside string literals; literal contents unchanged. -/
theorem lossless (body : Str) (h : ∀ ch ∈ body, ch < 128) :
    BasicRef.decode false (encodeBody body) = specUpper false body := by
  have h0 : Inv (({} : Ctx), false) [] := by
    simp only [Inv, Bool.false_eq_true, if_false]
    exact ⟨⟨closed_nil false, by simp [decode_nil, specUpper], Or.inl rfl, by simp, by simp [decode_nil]⟩, rfl⟩
  have hf := fold_inv body (({} : Ctx), false) [] h h0
  simp only [List.nil_append] at hf
  unfold encodeBody
  generalize body.foldl parseChar (({} : Ctx), false) = st at hf
  obtain ⟨c, inLit⟩ := st
  cases inLit with
  | false =>
    simp only [Inv, Bool.false_eq_true, if_false] at hf
    obtain ⟨_, g2, g3, g4, g5⟩ := commitAsToken_out c _ hf.1
    show D false (finish (c, false)).done = _
    unfold finish
    simp only [Bool.false_eq_true, if_false]
    rw [commit_of_clean _ ⟨g3, g5, g4⟩]
    exact g2
  | true =>
    simp only [Inv, if_true] at hf
    obtain ⟨⟨hd, hcn, ht, hb⟩, _⟩ := hf
    have hnq : 34 ∉ c.bucket := fun hm => (hb 34 hm).2 rfl
    obtain ⟨_, hbd⟩ := closed_lit_text c.bucket hnq
    have hbh : c.bucket.head? ≠ some 0x8F := by
      cases hbk : c.bucket with
      | nil => simp
      | cons a as => have := (hb a (by rw [hbk]; simp)).1; simp; omega
    show D false (c.done ++ c.cand ++ c.bucket) = _
    rw [hcn, List.append_nil, hd _ hbh, hbd]; exact ht

/-- the same for a whole record: the text bytes of a line decode to its body -/
theorem lossless_line (line : Str) (num : Nat) (body : Str) (hl : extractLineParts line = some (num, body))
    (h : ∀ ch ∈ body, ch < 128) : BasicRef.decode false (encodeBody body) = specUpper false body := lossless body h

/-- regression witnesses: the inputs that lost text before the repairs -/
example : BasicRef.decode false (encodeBody (Tape.str "GOTO 10")) = Tape.str "GOTO 10" := by decide
example : BasicRef.decode false (encodeBody (Tape.str "ONERRORGOTO5")) = Tape.str "ONERRORGOTO5" := by decide +kernel
example : BasicRef.decode false (encodeBody (Tape.str "toto=1:else print\"a:\"else")) = Tape.str "TOTO=1:ELSE PRINT\"a:\"ELSE" := by decide
example : extractLineParts (Tape.str "60 X=1") = some (60, Tape.str "X=1") := by decide

theorem recsOf_decoded : ∀ (parts : List (Nat × Str)) (ptr : Nat), (∀ p ∈ parts, ∀ ch ∈ p.2, ch < 128) →
    (recsOf ptr parts).map (fun r => (r.2.1, BasicRef.decode false r.2.2)) = parts.map (fun p => (p.1 % 65536, specUpper false p.2))
  | [], _, _ => rfl
  | (num, body) :: rest, ptr, h => by
    simp only [recsOf, List.map_cons]
    rw [lossless body (h (num, body) (by simp)), recsOf_decoded rest _ (fun p hp => h p (by simp [hp]))]

/-- **C14 (the tokenized *program* decodes back to the same line numbers and the same text)**: for every numbered ASCII listing
    without NUL characters whose image ends below address 65536 — whatever its spacing, however keywords, identifiers and digits
    run together, with or without a newline after the last line, LF / CR LF / CR line ends — the independent parser accepts the file
    the converter writes, and decoding each record (each token expanded to its keyword) gives back, line for line and in order, the
    line's number (modulo 65536: the two bytes of the record) and the line's text upper-cased outside string literals, literal
    contents unchanged. -/
theorem program_roundtrip (text : Str) (parts : List (Nat × Str)) (file : Bytes)
    (hc : convert text = some file) (hp : (readlines text).map extractLineParts = parts.map some)
    (hch : ∀ p ∈ parts, ∀ ch ∈ p.2, ch ≠ 0 ∧ ch < 128) (hsz : Gen.Tokens.programBase + file.length < 65536) :
    BasicRef.decodeProgram file = some (parts.map (fun p => (p.1 % 65536, specUpper false p.2))) := by
  unfold BasicRef.decodeProgram
  rw [parseProgram_convert text parts file hc hp (fun p hp' ch hch' => (hch p hp' ch hch').1) hsz]
  simp only [Option.map_some]
  rw [recsOf_decoded parts _ (fun p hp' ch hch' => (hch p hp' ch hch').2)]

/-- the hypotheses are met: a two-line listing with run-together keywords and a missing final newline -/
example : BasicRef.decodeProgram ((convert (Tape.str "10 fori=1to10:next\n20 goto10")).getD [])
    = some [(10, Tape.str "FORI=1TO10:NEXT"), (20, Tape.str "GOTO10")] := by decide +kernel


/-- **C14, stated on the listing as it is typed**: take any lines `N text` — numbers 1..65535, texts of ASCII characters other than
    NUL, CR, LF, anything else in any arrangement — joined by line feeds, the last line with or without one.  The converter accepts
    the listing, and if the image ends below address 65536 the independent parser and detokenizer give back exactly the numbers
    and the texts that were typed, upper-cased outside string literals: nothing lost, duplicated or reordered. -/
theorem typed_listing_roundtrip (finalLF : Bool) (ps : List (Nat × Str))
    (hn : ∀ p ∈ ps, 0 < p.1 ∧ p.1 < 65536)
    (hch : ∀ p ∈ ps, ∀ c ∈ p.2, c ≠ 0 ∧ c < 128 ∧ c ≠ 10 ∧ c ≠ 13) :
    ∃ file, convert (listingText finalLF ps) = some file ∧
      (Gen.Tokens.programBase + file.length < 65536 →
        BasicRef.decodeProgram file = some (ps.map (fun p => (p.1, specUpper false p.2)))) := by
  have hp := parts_of_listing finalLF ps (fun p hp => (hn p hp).1) (fun p hp c hc => ⟨(hch p hp c hc).2.2.1, (hch p hp c hc).2.2.2⟩)
  obtain ⟨bytes, hb⟩ := convertLines_of_parts _ ps Gen.Tokens.programBase hp
  have hconv : convert (listingText finalLF ps) = some ([0xFF] ++ u16 (bytes ++ [0, 0]).length ++ (bytes ++ [0, 0])) := by
    simp only [convert, hb]
  refine ⟨_, hconv, ?_⟩
  intro hsz
  have := program_roundtrip (listingText finalLF ps) ps _ hconv hp
    (fun p hp' c hc => ⟨(hch p hp' c hc).1, (hch p hp' c hc).2.1⟩) hsz
  rw [this]
  congr 1
  apply List.map_congr_left
  intro p hp'
  rw [Nat.mod_eq_of_lt (hn p hp').2]

/-- the hypotheses are met (three lines, the last without line feed; a literal, run-together keywords) -/
example : (convert (listingText false [(10, Tape.str "fori=1to3"), (20, Tape.str "print\"a b\";i"), (65535, Tape.str "nexti")])).isSome = true := by
  decide +kernel


/-- **C14, the same listing with CR LF line ends** (written on another system): text-mode reading turns it into the LF listing
    (`universalNewlines_crlf_listing`), so the converter accepts it and it decodes back to the same numbers and texts -/
theorem typed_listing_crlf_roundtrip (ps : List (Nat × Str))
    (hn : ∀ p ∈ ps, 0 < p.1 ∧ p.1 < 65536)
    (hch : ∀ p ∈ ps, ∀ c ∈ p.2, c ≠ 0 ∧ c < 128 ∧ c ≠ 10 ∧ c ≠ 13) :
    ∃ file, convert (listingTextCRLF ps) = some file ∧
      (Gen.Tokens.programBase + file.length < 65536 →
        BasicRef.decodeProgram file = some (ps.map (fun p => (p.1, specUpper false p.2)))) := by
  rw [convert_crlf_listing ps (fun p hp c hc => ⟨(hch p hp c hc).2.2.1, (hch p hp c hc).2.2.2⟩)]
  exact typed_listing_roundtrip true ps hn hch

example : (convert (listingTextCRLF [(10, Tape.str "print 1"), (20, Tape.str "end")])) = (convert (Tape.str "10 print 1\r\n20 end\r\n")) := by decide +kernel

end Moto.C14
