/-
  C06 — adding files to an existing disk image never disturbs what is already there.
  (first layer: sector-level frame of the model's writes; adding nothing is the identity)
-/
import MotoModel.Proofs.DiskSector
import MotoModel.Props.C07
import MotoModel.Proofs.DiskPreserve
import MotoModel.Proofs.DiskRuns
import MotoModel.Proofs.DiskUntouched
import MotoModel.Proofs.DiskCatalogFrame
import MotoModel.Proofs.DiskTrack20
namespace Moto.C06
open Moto Moto.Disk

/-- **C06 (one sector per write)**: a sector write changes no other sector of the side -/
theorem write_touches_one_sector (sd : Side) (t s t' s' : Nat) (v : Bytes) (h : idx t s ≠ idx t' s') :
    getSector (putSector sd t s v) t' s' = getSector sd t' s' := putSector_other sd t s t' s' v h

/-- data sectors of block `b` are the flat sectors `8 b .. 8 b + 7`: blocks never overlap, and the
    table / catalog (flat 321..335) lie in blocks 40 and 41 -/
theorem block_sectors_flat (b s : Nat) (hs : s < 8) : idx (blockTrack b) (blockFirstSector b + s) = 8 * b + s :=
  Disk.block_sectors_flat b s hs

theorem table_and_catalog_in_blocks_40_41 (s : Nat) (h1 : 1 ≤ s) (h16 : s < 16) :
    idx batTrack s = 8 * 40 + s ∧ (s < 8 ∨ idx batTrack s = 8 * 41 + (s - 8)) := by
  unfold idx batTrack
  have : Gen.Disk.sectorsPerTrack = 16 := rfl
  rw [this]; omega

/-- **C06 (table bytes)**: updating the table rewrites the status bytes 1..160 of its sector and
    keeps byte 0 and bytes 161..255 — whoever wrote them -/
theorem table_sector_frame (sd : Side) (bat : List Nat) (hw : C11.WFSide sd) (hb : bat.length = 160) :
    getSector (setBat sd bat) batTrack batSector
      = (getSector sd batTrack batSector).take 1 ++ bat ++ (getSector sd batTrack batSector).drop 161 :=
  setBat_sector sd bat hw hb

/-- … and statuses of blocks outside the new chain keep their value -/
theorem statuses_outside_new_chain (bat chain : List Nat) (u x : Nat) (hx : x ∉ chain) :
    (linkChain bat chain u).getD x 0 = bat.getD x 0 := linkChain_other chain bat u x 0 hx

theorem injTail_img (fuel : Nat) : ∀ (st st' : Inj), injTail fuel st = .ok st' → st'.img = st.img := by
  induction fuel with
  | zero => intro st st' h; simp [injTail] at h; rw [← h]
  | succ f ih =>
    intro st st' h
    simp only [injTail] at h
    split at h
    · cases hu : usageOfSide st.img (st.cur + 1) with
      | error e => rw [hu] at h; cases h
      | ok u =>
        rw [hu] at h; dsimp only at h
        have := ih _ st' h
        simpa using this
    · cases h; rfl

/-- **C06 (adding nothing)**: with an empty batch the model saves the very sides it loaded -/
theorem add_nothing_keeps_sides (w : Tape.World) (verbose : Bool) (img : Image) (st : Inj)
    (h : performCore w verbose img [] = .ok st) : st.img = img := by
  unfold performCore at h
  simp only [injLoop] at h
  split at h
  · cases hu : usageOfSide img 0 with
    | error e => rw [hu] at h; cases h
    | ok u =>
      rw [hu] at h
      simp only at h
      cases ht : injTail 4 _ with
      | error e => rw [ht] at h; cases h
      | ok st2 => rw [ht] at h; cases h; exact injTail_img 4 _ _ ht
  · cases h; rfl

/-- hence a no-op add of a valid emulator image rewrites it byte for byte (with C11's load/save identity) -/
theorem add_nothing_identity_fd (w : Tape.World) (verbose : Bool) (archive : Str) (raw : Bytes) (tape : Bytes)
    (hlen : raw.length = 327680 * 4) (h : (add .fd w verbose archive raw []).writes = [(archive, tape)]) : tape = raw := by
  unfold add at h
  obtain ⟨img, hl, hn⟩ := C07.load_fd_sides raw 4 (by omega) hlen
  rw [hl] at h
  unfold performOn at h
  simp only [hn, show ¬ (4 < 4) by omega, if_false] at h
  cases hp : performCore w verbose img [] with
  | error e => rw [hp] at h; obtain ⟨e1, o⟩ := e; simp at h
  | ok st =>
    rw [hp] at h
    simp only [List.cons.injEq, Prod.mk.injEq, and_true, true_and] at h
    rw [← h, add_nothing_keeps_sides w verbose img st hp]
    exact C11.load_save_fd raw img 4 (by omega) hlen hl

end Moto.C06

namespace Moto.C06
open Moto Moto.Disk

/-- **C06 (previously stored files are intact)**: after a successful `writeFile`, every entry whose
    chain shares no block with the newly allocated one (and does not sit on track 20) reads back
    exactly the bytes it read before — whoever wrote the image, however fragmented the chains. -/
theorem old_files_intact (sd sd' : Side) (bat : List Nat) (content : Bytes) (name ext : Str) (kind flag : Nat)
    (hw : C11.WFSide sd) (hb : getBat sd = .ok bat)
    (h40 : isFree (bat.getD 40 0) = false) (h41 : isFree (bat.getD 41 0) = false)
    (hres : writeFile sd content name ext kind flag = .ok sd') (e : Entry)
    (hdisj : ∀ b ∈ e.blocks, b ∉ chosen bat (reqBlocks content.length) ∧ b ≠ 40 ∧ b ≠ 41)
    (hlast : ∀ last, e.blocks.getLast? = some last → bat.getD last 0 ≤ 200) :
    readFile sd' (linkChain bat (chosen bat (reqBlocks content.length)) (lastSectorsOf content.length)) e = readFile sd bat e :=
  writeFile_preserves sd sd' bat content name ext kind flag hw hb h40 h41 hres e hdisj hlast

/-- blocks in use are never chosen for the new file: the disjointness hypothesis above holds for
    every chain made of non-free blocks -/
theorem used_blocks_not_chosen (bat : List Nat) (k : Nat) (b : Nat) (h : isFree (bat.getD b 0) = false) : b ∉ chosen bat k := by
  intro hm
  have := (chosen_free bat k b hm).2
  rw [h] at this; cases this

end Moto.C06

namespace Moto.C06
open Moto Moto.Disk

/-- **C06 (adding never disturbs what is there — the whole invocation)**: `--add` on the archive of
    any consistent image (whoever wrote it, however fragmented, with or without deleted entries),
    with any batch of sources, returns 0 and writes the archive of a consistent image in which every
    file that was stored is still stored in the same catalog slot of the same side with the same
    sixteen entry bytes (name, extension, kind, flag, first block, bytes in the last sector) and the
    same content; every other file of the new image is the exact data of one of the sources. -/
theorem add_keeps_every_file (fl : Flavour) (w : Tape.World) (verbose : Bool) (archive : Str) (img : Image) (srcs : List Str)
    (himg : ImgOk img) (hs : ∀ src ∈ srcs, CleanSrc src) :
    ∃ img', ImgOk img' ∧ (add fl w verbose archive (save fl img) srcs).status = .ret 0
      ∧ (add fl w verbose archive (save fl img) srcs).writes = [(archive, save fl img')]
      ∧ Keeps img img' ∧ OnlyFrom w srcs img img' := by
  obtain ⟨st, hst, hok, hk, hof⟩ := performCore_files w verbose img srcs himg hs
  rw [add_on_saved fl w verbose archive img srcs himg]
  refine ⟨st.img, hok, ?_, ?_, hk, hof⟩
  · unfold performOn; rw [if_neg (by rw [himg.1]; omega), hst]
  · unfold performOn; rw [if_neg (by rw [himg.1]; omega), hst]

/-- `Keeps`, spelled out -/
theorem keeps_means (a b : Image) (h : Keeps a b) (k j : Nat) (hk : k < 4) (hj : j < 112) (rec16 content : Bytes)
    (hf : fileAt (a.getD k []) j = some (rec16, content)) : fileAt (b.getD k []) j = some (rec16, content) :=
  h k j _ hk hj hf

/-- **C06 (no sector of a block that was in use or reserved is modified — the whole invocation)**:
    `--add` on the archive of any consistent image, with any batch of sources (stored, refused for
    lack of blocks or of a catalog entry, retried on the following sides, dropped): on every side, each
    of the eight sectors of every block that the side's table marked as not free before (in use or
    reserved; the two blocks of track 20 apart, which hold the table and the catalog) holds the same
    bytes in the written image, and the block is still not free. -/
theorem used_blocks_never_modified (fl : Flavour) (w : Tape.World) (verbose : Bool) (archive : Str) (img : Image) (srcs : List Str)
    (himg : ImgOk img) (hs : ∀ src ∈ srcs, CleanSrc src) :
    ∃ img', ImgOk img'
      ∧ (add fl w verbose archive (save fl img) srcs).writes = [(archive, save fl img')]
      ∧ ∀ k, k < 4 → ∀ bat, getBat (img.getD k []) = .ok bat → ∀ b, b ≠ 40 → b ≠ 41 → isFree (bat.getD b 0) = false →
          ∀ s, s < 8 → (img'.getD k []).getD (8 * b + s) [] = (img.getD k []).getD (8 * b + s) []
            ∧ ∃ bat', getBat (img'.getD k []) = .ok bat' ∧ isFree (bat'.getD b 0) = false := by
  obtain ⟨st, hst, hok, hkeep⟩ := batch_keeps_used_blocks w verbose img srcs himg hs
  rw [add_on_saved fl w verbose archive img srcs himg]
  refine ⟨st.img, hok, ?_, hkeep⟩
  unfold performOn; rw [if_neg (by rw [himg.1]; omega), hst]

/-- **C06 (… the allocation table and catalog sectors excepted, and there only the bytes describing the
    added files — the whole invocation)**: `--add` on the archive of any consistent image with any batch:
    on every side, each of the 112 catalog entries — together all the bytes of the fourteen catalog sectors,
    live, deleted and never-used entries alike — holds the same 32 bytes in the written image unless it was
    not a live entry and is one now (a file was stored in it); each status of the allocation table is the
    same unless the block was free and no longer is (it was handed to a stored file). (Byte 0 and bytes
    161..255 of the table sector: `table_sector_frame`.) -/
theorem catalog_and_table_change_only_for_added_files (fl : Flavour) (w : Tape.World) (verbose : Bool) (archive : Str) (img : Image)
    (srcs : List Str) (himg : ImgOk img) (hs : ∀ src ∈ srcs, CleanSrc src) :
    ∃ img', ImgOk img'
      ∧ (add fl w verbose archive (save fl img) srcs).writes = [(archive, save fl img')]
      ∧ (∀ k, k < 4 → ∀ j, j < 112 →
          slotData (img'.getD k []) j = slotData (img.getD k []) j
          ∨ (¬ liveData (slotData (img.getD k []) j) ∧ liveData (slotData (img'.getD k []) j)))
      ∧ (∀ k, k < 4 → ∀ bat, getBat (img.getD k []) = .ok bat → ∀ b, ∃ bat', getBat (img'.getD k []) = .ok bat'
          ∧ (bat'.getD b 0 = bat.getD b 0 ∨ (isFree (bat.getD b 0) = true ∧ isFree (bat'.getD b 0) = false))) := by
  obtain ⟨st, hst, hok, hcat, htab⟩ := batch_catalog_table_frame w verbose img srcs himg hs
  rw [add_on_saved fl w verbose archive img srcs himg]
  refine ⟨st.img, hok, ?_, hcat, htab⟩
  unfold performOn; rw [if_neg (by rw [himg.1]; omega), hst]

/-- **C06 (… the allocation table and catalog sectors excepted, and there only the bytes describing the added files — the rest
    of track 20, the whole invocation)**: `--add` on the archive of any consistent image with any batch: on every side the first
    sector of track 20 (it belongs to reserved block 40 and is neither the table nor the catalog) holds the same bytes in the
    written image, and so do byte 0 and bytes 161..255 of the table's sector — whoever wrote them.  With
    `used_blocks_never_modified` (every other block in use or reserved) and `catalog_and_table_change_only_for_added_files` (the
    statuses 1..160 and the fourteen catalog sectors) this covers every byte of every block that was in use or reserved: the bytes
    the defect F12 zeroed are these. -/
theorem table_edges_and_track20_kept (fl : Flavour) (w : Tape.World) (verbose : Bool) (archive : Str) (img : Image) (srcs : List Str)
    (himg : ImgOk img) (hs : ∀ src ∈ srcs, CleanSrc src) :
    ∃ img', ImgOk img'
      ∧ (add fl w verbose archive (save fl img) srcs).writes = [(archive, save fl img')]
      ∧ ∀ k, k < 4 → (img'.getD k []).getD 320 [] = (img.getD k []).getD 320 []
          ∧ (getSector (img'.getD k []) batTrack batSector).take 1 = (getSector (img.getD k []) batTrack batSector).take 1
          ∧ (getSector (img'.getD k []) batTrack batSector).drop 161 = (getSector (img.getD k []) batTrack batSector).drop 161 := by
  obtain ⟨st, hst, hok, hkeep⟩ := batch_keeps_track20_rest w verbose img srcs himg hs
  rw [add_on_saved fl w verbose archive img srcs himg]
  refine ⟨st.img, hok, ?_, ?_⟩
  · unfold performOn; rw [if_neg (by rw [himg.1]; omega), hst]
  · intro k hk
    obtain ⟨h1, h2⟩ := hkeep k hk
    unfold edgeOf at h2
    injection h2 with h2a h2b
    exact ⟨h1, h2a, h2b⟩

end Moto.C06
