/-
  C16 — moto_nl numbers exactly the unnumbered lines, consistently with their neighbours.
-/
import MotoModel.Model.LineTools
import MotoModel.Spec.LineTools
import MotoModel.Proofs.LinesConcat
import MotoModel.Proofs.Digits
namespace Moto.C16
open Moto Moto.Spec

/-- **C16 (what "begins with a number" means)**: the tool's test — the regular expression `^([1-9][0-9]*)`, value by
    `int()` — is the specification's: a non-empty leading run of digits that does not start with 0, valued as a decimal
    numeral (units, tens, hundreds from the right). -/
theorem leading_number_is_the_number_at_start (line : Str) : leadingNumber line = numberAtStart line := by
  unfold leadingNumber numberAtStart
  rw [digitRun_eq_takeWhile]
  cases line with
  | nil => rfl
  | cons c r =>
    simp only
    by_cases h : 49 ≤ c ∧ c ≤ 57
    · rw [if_pos h]
      have hd : isDigit c = true := by simp [isDigit]; omega
      simp only [List.takeWhile_cons, hd, if_true]
      rw [if_neg (by omega), parseNat_eq_decimal]
    · rw [if_neg h]
      by_cases hd : isDigit c = true
      · have hc : c = 48 := by simp [isDigit] at hd; omega
        subst hc
        simp [List.takeWhile_cons, isDigit]
      · have hd' : isDigit c = false := by simpa using hd
        simp [List.takeWhile_cons, hd']

/-- **C16 (one line per line)** -/
theorem length_preserved (cfg : NlCfg) (n : Nat) (ls : List Str) :
    (nlLines cfg n ls).length = ls.length := by
  induction ls generalizing n with
  | nil => rfl
  | cons l ls ih => simp [nlLines, ih]

/-- **C16 (numbered lines verbatim)** -/
theorem numbered_verbatim (cfg : NlCfg) (n k : Nat) (l : Str)
    (h : leadingNumber (rstripNL l) = some k) :
    nlLine cfg n l = (rstripNL l, k + cfg.incr) := by
  simp [nlLine, h]

/-- **C16 (unnumbered lines)**: number, padding to the width, one blank, the line. -/
theorem unnumbered (cfg : NlCfg) (n : Nat) (l : Str)
    (h : leadingNumber (rstripNL l) = none) :
    nlLine cfg n l = (padRight (digits n) cfg.width ++ [32] ++ rstripNL l, n + cfg.incr) := by
  simp [nlLine, h]

theorem lines_eq_spec_aux (cfg : NlCfg) (ls : List Str) : ∀ (n : Nat) (prev : Option Nat),
    (n = match prev with | none => cfg.start | some p => p + cfg.incr) →
    nlLines cfg n ls = specNl cfg.start cfg.incr cfg.width prev ls := by
  induction ls with
  | nil => intros; rfl
  | cons l ls ih =>
    intro n prev hn
    simp only [nlLines, specNl, nlLine, ← leading_number_is_the_number_at_start]
    cases h : leadingNumber (rstripNL l) with
    | none =>
      simp only
      rw [ih (n + cfg.incr) (some n) rfl]
      subst hn; rfl
    | some k =>
      simp only
      rw [ih (k + cfg.incr) (some k) rfl]

/-- **C16 (numbers follow their neighbours)**: the tool is the specification of the property:
    start value for the first line, previous line's number + increment otherwise. -/
theorem run_eq_spec (cfg : NlCfg) (files : List Str) :
    nlRun cfg files = specNl cfg.start cfg.incr cfg.width none (files.flatMap readlines) := by
  unfold nlRun
  exact lines_eq_spec_aux cfg _ cfg.start none rfl

/-- several files are processed as the sequence of their lines, with one counter -/
theorem files_as_line_sequence (cfg : NlCfg) (f g : List Str) :
    nlRun cfg (f ++ g) = nlLines cfg cfg.start (f.flatMap readlines ++ g.flatMap readlines) := by
  simp [nlRun]

/-- **C16 (several files behave as their concatenation)**: when every file ends with a line feed
    (or is empty), numbering the files one after the other gives exactly the numbering of the single
    text obtained by joining them. -/
theorem files_as_concatenation (cfg : NlCfg) (files : List Str) (h : ∀ f ∈ files, f = [] ∨ f.getLast? = some 10) :
    nlRun cfg files = nlRun cfg [files.flatten] := by
  unfold nlRun
  rw [List.flatMap_singleton, readlines_flatten files h]

/-- … and the hypothesis cannot be dropped: a file without its final line feed still ends a line
    (the tool prints one output line per line it read from each file), the joined text does not -/
example : nlRun ⟨10, 10, 0⟩ [[97], [98, 10]] = [[49, 48, 32, 97], [50, 48, 32, 98]]
    ∧ nlRun ⟨10, 10, 0⟩ [[97, 98, 10]] = [[49, 48, 32, 97, 98]] := by decide +kernel

/-! ### idempotence -/

theorem digits_ne_nil (n : Nat) : digits n ≠ [] := by
  rw [digits]; split <;> simp

theorem digits_head (n : Nat) (h : 1 ≤ n) : ∃ d rest, digits n = d :: rest ∧ 49 ≤ d ∧ d ≤ 57 := by
  induction n using Nat.strongRecOn with
  | _ n ih =>
    rw [digits]
    split
    · exact ⟨48 + n, [], rfl, by omega, by omega⟩
    · have h10 : 1 ≤ n / 10 := by omega
      obtain ⟨d, rest, he, h1, h2⟩ := ih (n / 10) (by omega) h10
      exact ⟨d, rest ++ [48 + n % 10], by rw [he]; rfl, h1, h2⟩

theorem rstripBy_append_keep (p : Nat → Bool) (a : Str) (x : Nat) (b : Str) (hx : p x = false) :
    rstripBy p (a ++ [x] ++ rstripBy p b) = a ++ [x] ++ rstripBy p b := by
  unfold rstripBy
  simp only [List.reverse_append, List.reverse_reverse, List.reverse_cons,
    List.nil_append, List.append_assoc, List.cons_append]
  -- dropWhile p (dropWhile p b.reverse ++ x :: a.reverse)
  generalize hb : b.reverse = rb
  have key : ∀ l : List Nat, List.dropWhile p (List.dropWhile p l ++ x :: a.reverse)
      = List.dropWhile p l ++ x :: a.reverse := by
    intro l
    induction l with
    | nil => simp [List.dropWhile, hx]
    | cons y ys ih =>
      by_cases hy : p y = true
      · simp [List.dropWhile, hy, ih]
      · have hy' : p y = false := by simpa using hy
        simp [List.dropWhile, hy']
  rw [key]
  simp

theorem rstripBy_idem (p : Nat → Bool) (b : Str) : rstripBy p (rstripBy p b) = rstripBy p b := by
  unfold rstripBy
  simp only [List.reverse_reverse]
  congr 1
  generalize b.reverse = l
  induction l with
  | nil => rfl
  | cons y ys ih =>
    by_cases hy : p y = true
    · simp [List.dropWhile, hy, ih]
    · have hy' : p y = false := by simpa using hy
      simp [List.dropWhile, hy']

/-- an output line is stable under a second pass, whatever the second configuration -/
theorem out_line_stable (cfg cfg' : NlCfg) (n n' : Nat) (l : Str) (hn : 1 ≤ n) :
    (nlLine cfg' n' (nlLine cfg n l).1).1 = (nlLine cfg n l).1 := by
  cases h : leadingNumber (rstripNL l) with
  | some k =>
    rw [numbered_verbatim cfg n k l h]
    simp only
    have : rstripNL (rstripNL l) = rstripNL l := rstripBy_idem _ _
    simp [nlLine, this, h]
  | none =>
    rw [unnumbered cfg n l h]
    simp only
    obtain ⟨d, rest, he, h1, h2⟩ := digits_head n hn
    have hs : rstripNL (padRight (digits n) cfg.width ++ [32] ++ rstripNL l)
        = padRight (digits n) cfg.width ++ [32] ++ rstripNL l := by
      unfold rstripNL
      exact rstripBy_append_keep _ _ 32 _ (by decide)
    have hl : ∃ k, leadingNumber (padRight (digits n) cfg.width ++ [32] ++ rstripNL l) = some k := by
      simp only [padRight, he, List.cons_append, leadingNumber]
      simp [h1, h2]
    obtain ⟨k, hk⟩ := hl
    rw [numbered_verbatim cfg' n' k _ (by rw [hs]; exact hk), hs]

theorem counter_pos (cfg : NlCfg) (n : Nat) (l : Str) (hi : 1 ≤ cfg.incr) : 1 ≤ (nlLine cfg n l).2 := by
  cases h : leadingNumber (rstripNL l) with
  | some k => rw [numbered_verbatim cfg n k l h]; simp only; omega
  | none => rw [unnumbered cfg n l h]; simp only; omega

/-- **C16 (idempotence)**: renumbering an already numbered output changes nothing, whatever the
    second start, increment and width. -/
theorem idempotent (cfg cfg' : NlCfg) (ls : List Str) : ∀ (n n' : Nat), 1 ≤ n → 1 ≤ cfg.incr →
    nlLines cfg' n' (nlLines cfg n ls) = nlLines cfg n ls := by
  induction ls with
  | nil => intros; rfl
  | cons l ls ih =>
    intro n n' hn hi
    simp only [nlLines]
    rw [out_line_stable cfg cfg' n n' l hn]
    rw [ih _ _ (counter_pos cfg n l hi) hi]

/-- non-vacuity: a concrete text exercises both branches -/
example : nlLines ⟨10, 10, 4⟩ 10 [[97, 10], [53, 48, 32, 98, 10], [99]]
    = [[49, 48, 32, 32, 32, 97], [53, 48, 32, 98], [54, 48, 32, 32, 32, 99]] := by
  simp [nlLines, nlLine, rstripNL, rstripBy, leadingNumber, padRight, digits, parseNat, isDigit,
    List.takeWhile, List.dropWhile]

/-- with standard input among the sources (its text is not newline-translated: only LF ends a line there): the same numbering rule
    over the lines the sources deliver -/
theorem run_src_eq_spec (cfg : NlCfg) (srcs : List (Bool × Str)) :
    nlRunSrc cfg srcs = specNl cfg.start cfg.incr cfg.width none (srcs.flatMap (fun p => sourceLines p.1 p.2)) := by
  unfold nlRunSrc
  exact lines_eq_spec_aux cfg _ cfg.start none rfl

/-- file arguments only: the run of the other theorems -/
theorem run_src_files (cfg : NlCfg) (files : List Str) : nlRunSrc cfg (files.map (fun f => (false, f))) = nlRun cfg files := by
  unfold nlRunSrc nlRun
  congr 1
  induction files with
  | nil => rfl
  | cons f fs ih =>
    simp only [List.map_cons, List.flatMap_cons, ih]
    rfl

end Moto.C16
