/-
  C02 — disk archive round trip (.sd and .fd): create, then list/extract, is lossless.
  (first layer: the catalog size law, the chain written is the chain read)
-/
import MotoModel.Proofs.GenFn
import MotoModel.Props.C05
import MotoModel.Props.C07
import MotoModel.Proofs.DiskWriteRead
import MotoModel.Proofs.DiskExtract
import MotoModel.Proofs.DiskSmall
import MotoModel.Props.C04
import MotoModel.Proofs.DiskOrder
import MotoModel.Proofs.DiskBatchOrder
import MotoModel.Proofs.Names
import MotoModel.Proofs.DiskNames
namespace Moto.C02
open Moto Moto.Disk

/-- **C02 (exact size)**: the numbers `writeFile` records for a content of `n` bytes — blocks,
    sectors used in the last block, bytes used in the last sector — decode to exactly `n` with the
    reader's formula, for every `n` including 0. -/
theorem recorded_size_is_exact (n : Nat) :
    (8 * (reqBlocks n - 1) + lastSectorsOf n - 1) * 255 + lastBytesOf n = n := by
  have := (size_law n).2.2.2.2.2.1
  rw [Nat.mul_comm]; exact this

theorem block_count (n : Nat) : reqBlocks n = (max 1 ((n + 254) / 255) + 7) / 8 := by
  obtain ⟨h1, h2, h3, h4, h5, h6, h7⟩ := size_law n
  by_cases hn : 0 < n
  · have := h7 hn
    omega
  · have : n = 0 := by omega
    subst this
    simp [reqBlocks, layoutOf, computeRequiredSlots]

/-- enough free blocks ⇒ the file's chain is read back block for block, and the reader computes
    the exact size from it -/
theorem chain_and_size_read_back (bat : List Nat) (hlen : bat.length = 160) (content : Bytes)
    (hfit : reqBlocks content.length ≤ (chosen bat (reqBlocks content.length)).length)
    (rec16 : Bytes) (hrec : rec16.getD 14 0 * 256 + rec16.getD 15 0 = lastBytesOf content.length) :
    let ch := chosen bat (reqBlocks content.length)
    let bat' := linkChain bat ch (lastSectorsOf content.length)
    walk bat' (ch.getD 0 0) = .ok ch ∧ ch.length = reqBlocks content.length ∧ sizeInBytes bat' ⟨1, rec16, ch⟩ = content.length := by
  intro ch bat'
  obtain ⟨hb1, hu1, hu8, _, _, _, _⟩ := size_law content.length
  have hwalk := C05.written_chain_reads_back bat hlen content.length hfit
  have hlen' : ch.length = reqBlocks content.length := by
    have : ch.length ≤ reqBlocks content.length := by
      simp only [ch, chosen]; exact List.length_take_le _ _
    have hfit' : reqBlocks content.length ≤ ch.length := hfit
    omega
  refine ⟨hwalk, hlen', ?_⟩
  have hne : ch ≠ [] := by intro h; rw [h] at hlen'; simp at hlen'; omega
  obtain ⟨last, hlast⟩ : ∃ last, ch.getLast? = some last := by
    cases h : ch.getLast? with
    | none => simp [List.getLast?_eq_none_iff] at h; exact absurd h hne
    | some l => exact ⟨l, rfl⟩
  have hnd : ch.Nodup := chosen_nodup bat _
  have hlt : ∀ b ∈ ch, b < bat.length := fun b hb => (chosen_free bat _ b hb).1
  have hl := linkChain_linked ch bat (lastSectorsOf content.length) hnd hlt
  -- the status of the last block is the marker
  have hs : bat'.getD last 0 = 0xC0 + lastSectorsOf content.length := by
    have key : ∀ (c : List Nat) (b : List Nat), Linked b c (lastSectorsOf content.length) → ∀ l, c.getLast? = some l →
        b.getD l 0 = 0xC0 + lastSectorsOf content.length := by
      intro c
      induction c with
      | nil => intro b _ l h; simp at h
      | cons x xs ih =>
        intro b hlk l hl'
        cases xs with
        | nil => simp at hl'; subst hl'; exact hlk
        | cons y ys => simp only [Linked] at hlk; exact ih b hlk.2 l (by simpa using hl')
    exact key ch bat' hl last hlast
  rw [C07.size_formula bat' rec16 ch last _ hu8 hlast hs, hrec, hlen']
  exact recorded_size_is_exact content.length

end Moto.C02

namespace Moto.C02
open Moto Moto.Disk

/-- **C02 (what is written is what is read)** — the controller-level round trip, for every content
    of every size (0 bytes to a full side): after a successful `writeFile` on a well-formed side,
    the side is still well-formed, its table is the old one with the new chain linked, and reading
    the entry that names this chain returns the content byte for byte.
    (Proof: Proofs/DiskWriteRead.lean — distinct flat sectors, prefix-overwrite of a sector, the
    fill loop of readFile is concatenation, chain walk over the linked statuses.) -/
theorem write_then_read (sd sd' : Side) (bat : List Nat) (content : Bytes) (name ext : Str) (kind flag : Nat)
    (hw : C11.WFSide sd) (hb : getBat sd = .ok bat)
    (h40 : isFree (bat.getD 40 0) = false) (h41 : isFree (bat.getD 41 0) = false)
    (hres : writeFile sd content name ext kind flag = .ok sd') :
    C11.WFSide sd'
    ∧ getBat sd' = .ok (linkChain bat (chosen bat (reqBlocks content.length)) (lastSectorsOf content.length))
    ∧ ∀ e : Entry, e.blocks = chosen bat (reqBlocks content.length) → e.lastBytes = lastBytesOf content.length →
        readFile sd' (linkChain bat (chosen bat (reqBlocks content.length)) (lastSectorsOf content.length)) e = content := by
  obtain ⟨h1, h2, _, h4⟩ := writeFile_read_back sd sd' bat content name ext kind flag hw hb h40 h41 hres
  exact ⟨h1, h2, h4⟩

/-- the hypotheses are met by the side `--create` starts from -/
example : C11.WFSide (initFileSystem blankSide) := C04.init_wf blankSide (by
  constructor
  · decide +kernel
  · intro s hs; simp [blankSide] at hs; rw [hs.2]; decide +kernel)

end Moto.C02

namespace Moto.C02
open Moto Moto.Disk

theorem fresh_has_no_file (k j : Nat) (hk : k < 4) (hj : j < 112) :
    imgFileAt ((List.replicate 4 blankSide).map initFileSystem) k j = none := by
  unfold imgFileAt
  have : ((List.replicate 4 blankSide).map initFileSystem).getD k [] = freshSide := by
    rw [List.getD_eq_getElem?_getD, List.getElem?_map, List.getElem?_replicate, if_pos hk]
    simp only [Option.map_some, Option.getD_some, freshSide]
  rw [this, fileAt_inv fresh_inv j hj]
  unfold entryAt
  rw [if_neg]
  · rfl
  · intro h
    exact absurd (fresh_slots_unused j hj) ((liveB_iff _).mp h).1

/-- **C02 (create, then extract: the whole round trip at the level of the command lines)**.
    For every list of sources with ordinary catalog names (`OrdinarySrc`: no code point 0xFF in the
    argument; the eleven name bytes the tool stores are 7-bit, without '/', not blank) — any
    contents, any sizes from 0 to beyond a side, any end-of-side markers, missing files, refusals:
    `--create` returns 0 and writes the archive of a consistent image `img`; `--extract` of that
    archive (either verbosity, with or without `--into`) returns 0 and writes exactly the files of
    `img`, side after side in catalog order, as `target/sideN/NAME.EXT` — provided none of those
    paths is the archive itself, which the extractor refuses to overwrite (C20); and every file of `img` is
    the exact data of one of the sources, under the entry the tool writes for that source. -/
theorem create_then_extract (fl : Flavour) (w : Tape.World) (verbose : Bool) (archive : Str) (srcs : List Str)
    (hs : ∀ src ∈ srcs, OrdinarySrc src) (verbose2 : Bool) (into : Option Str) :
    ∃ img, ImgOk img
      ∧ (create fl w verbose archive srcs).status = .ret 0
      ∧ (create fl w verbose archive srcs).writes = [(archive, save fl img)]
      ∧ ((∀ p ∈ sidesFiles (Tape.targetDirOf archive into) img 0, samePath p.1 archive = false) →
          (extract fl verbose2 archive into (save fl img)).status = .ret 0
          ∧ (extract fl verbose2 archive into (save fl img)).writes = sidesFiles (Tape.targetDirOf archive into) img 0)
      ∧ (∀ k j r c, k < 4 → j < 112 → imgFileAt img k j = some (r, c) →
          ∃ src ∈ srcs, ∃ name ext kind flag, Offers w src name ext kind flag c ∧ IsRecordOf r name ext kind flag c.length) := by
  obtain ⟨st, hst, hok, _, hof⟩ := performCore_files w verbose _ srcs fresh_img_ok (fun s h => (hs s h).1)
  have hnice : ∀ k, k < 4 → NiceSide (st.img.getD k []) := by
    apply nice_after hof _ hs
    intro k hk j f hj hf
    have := fresh_has_no_file k j hk hj
    unfold imgFileAt at this
    rw [this] at hf; cases hf
  refine ⟨st.img, hok, ?_, ?_, fun hk => extract_consistent fl verbose2 archive into st.img hok hnice hk, ?_⟩
  · unfold create performOn; rw [if_neg (by simp), hst]
  · unfold create performOn; rw [if_neg (by simp), hst]
  · intro k j r c hk hj hf
    rcases hof k j r c hk hj hf with h | h
    · rw [fresh_has_no_file k j hk hj] at h; cases h
    · exact h

/-- **C02 (create, then extract beside the archive)**: without `--into` the round trip needs no hypothesis
    on paths — the members are written under `dirname archive/sideN/`, none can be the archive: for every
    list of sources with ordinary catalog names `--create` returns 0 and writes the archive of a consistent
    image, and `--extract` of that archive returns 0 and writes exactly the files of the image. -/
theorem create_then_extract_beside_archive (fl : Flavour) (w : Tape.World) (verbose : Bool) (archive : Str) (srcs : List Str)
    (hs : ∀ src ∈ srcs, OrdinarySrc src) (verbose2 : Bool) :
    ∃ img, ImgOk img
      ∧ (create fl w verbose archive srcs).status = .ret 0
      ∧ (create fl w verbose archive srcs).writes = [(archive, save fl img)]
      ∧ (extract fl verbose2 archive none (save fl img)).status = .ret 0
      ∧ (extract fl verbose2 archive none (save fl img)).writes = sidesFiles (dirname archive) img 0 := by
  obtain ⟨st, hst, hok, _, hof⟩ := performCore_files w verbose _ srcs fresh_img_ok (fun s h => (hs s h).1)
  have hnice : ∀ k, k < 4 → NiceSide (st.img.getD k []) := by
    apply nice_after hof _ hs
    intro k hk j f hj hf
    have := fresh_has_no_file k j hk hj
    unfold imgFileAt at this
    rw [this] at hf; cases hf
  obtain ⟨hx1, hx2⟩ := extract_consistent_default fl verbose2 archive st.img hok hnice
  refine ⟨st.img, hok, ?_, ?_, hx1, hx2⟩
  · unfold create performOn; rw [if_neg (by simp), hst]
  · unfold create performOn; rw [if_neg (by simp), hst]

/-- non-vacuity: "a.bas" is an ordinary source -/
example : OrdinarySrc (Tape.str "a.bas") := by
  refine ⟨by unfold CleanSrc; decide, ?_⟩
  unfold NiceRec
  decide +kernel

/-- **C02 (sector and block arithmetic, tied by translation)**: `_computeRequiredSlots` of
    controller.py, translated from the source on every run, is the model's function for all sizes -/
theorem generated_required_slots (n k : Nat) : Gen.Fn.computeRequiredSlots n k = computeRequiredSlots n k :=
  GenFn.computeRequiredSlots_eq n k

/-- **C02 (sizes at the top of `writeFile`, tied by translation)**: the statements of `writeFile` that
    compute the number of sectors, the bytes in the last sector, the number of blocks and the sectors
    in the last block (an empty file still owns one sector), translated from the source on every run,
    are the model's `layoutOf` for every length -/
theorem generated_layout (n : Nat) : Gen.Fn.writeFileLayout n = layoutOf n := GenFn.writeFileLayout_eq n

/-- **C02 (a batch that fits on the first side: nothing is lost)**: when every source names a
    readable file with an ordinary 8.3 name, the blocks they need sum to at most 157 and there are
    at most 112 of them, `--create` returns 0 and stores every one of them on side 0; `--extract` of
    the archive then returns 0 and writes exactly as many files as there were sources, each holding
    the exact data of one of the sources -/
theorem small_batch_roundtrip (fl : Flavour) (w : Tape.World) (verbose : Bool) (archive : Str) (items : List (Str × Bytes))
    (hall : ∀ p ∈ items, Storable w p.1 p.2) (hord : ∀ p ∈ items, OrdinarySrc p.1)
    (hB : batchBlocks items ≤ 157) (hS : items.length ≤ 112) (verbose2 : Bool) (into : Option Str) :
    ∃ img, ImgOk img
      ∧ (create fl w verbose archive (items.map (·.1))).status = .ret 0
      ∧ (create fl w verbose archive (items.map (·.1))).writes = [(archive, save fl img)]
      ∧ fileCount img = items.length
      ∧ (∀ k, 1 ≤ k → k < 4 → img.getD k [] = freshSide)
      ∧ ((∀ p ∈ sidesFiles (Tape.targetDirOf archive into) img 0, samePath p.1 archive = false) →
          (extract fl verbose2 archive into (save fl img)).status = .ret 0
          ∧ (extract fl verbose2 archive into (save fl img)).writes.length = items.length)
      ∧ (∀ k j r c, k < 4 → j < 112 → imgFileAt img k j = some (r, c) →
          ∃ src ∈ items.map (·.1), ∃ name ext kind flag, Offers w src name ext kind flag c ∧ IsRecordOf r name ext kind flag c.length) := by
  obtain ⟨st, hst, hok, hcount, hsides⟩ := create_small_batch w verbose items hall hB hS
  have hclean : ∀ s ∈ items.map (·.1), CleanSrc s := fun s hs => by
    obtain ⟨p, hp, rfl⟩ := List.mem_map.mp hs; exact (hall p hp).2.2.2.2.1
  have hords : ∀ s ∈ items.map (·.1), OrdinarySrc s := fun s hs => by
    obtain ⟨p, hp, rfl⟩ := List.mem_map.mp hs; exact hord p hp
  obtain ⟨st2, hst2, _, _, hof⟩ := performCore_files w verbose _ (items.map (·.1)) fresh_img_ok hclean
  rw [hst] at hst2
  cases hst2
  have hnice : ∀ k, k < 4 → NiceSide (st.img.getD k []) := by
    apply nice_after hof _ hords
    intro k hk j f hj hf
    have := fresh_no_file k j hk hj
    unfold imgFileAt at this
    rw [this] at hf; cases hf
  refine ⟨st.img, hok, ?_, ?_, hcount, hsides, ?_, ?_⟩
  · unfold create performOn; rw [if_neg (by simp), hst]
  · unfold create performOn; rw [if_neg (by simp), hst]
  · intro hk
    obtain ⟨hx1, hx2⟩ := extract_consistent fl verbose2 archive into st.img hok hnice hk
    exact ⟨hx1, by rw [hx2, ← fileCount_eq_extracted st.img hok.1, hcount]⟩
  · intro k j r c hk hj hf
    rcases hof k j r c hk hj hf with h | h
    · rw [fresh_no_file k j hk hj] at h; cases h
    · exact h

/-- **C02 (… in the order stored, under its upper-cased 8.3 name, in the directory of its side)**: when
    every source names a readable file with an ordinary 8.3 name and the batch fits on the first side
    (at most 157 blocks, at most 112 files), the image `--create` writes holds source number `i` in
    catalog entry `i` of side 0 — so the listing shows the files in the order given — and `--extract`
    writes exactly `side0/NAME.EXT` for each source, in the order of the command line, with exactly
    its data (`diskName`: the name read back from the entry bytes written for the source); `hk`: none
    of these paths is the archive itself, which the extractor refuses to overwrite (C20). -/
theorem small_batch_in_order (fl : Flavour) (w : Tape.World) (verbose : Bool) (archive : Str) (items : List (Str × Bytes))
    (hall : ∀ p ∈ items, Storable w p.1 p.2) (hord : ∀ p ∈ items, OrdinarySrc p.1)
    (hB : batchBlocks items ≤ 157) (hS : items.length ≤ 112) (verbose2 : Bool) (into : Option Str)
    (hk : ∀ p ∈ items, samePath (pathJoin (pathJoin (Tape.targetDirOf archive into) (Tape.str "side" ++ digits 0)) (diskName p.1)) archive = false) :
    ∃ img, ImgOk img
      ∧ (create fl w verbose archive (items.map (·.1))).writes = [(archive, save fl img)]
      ∧ (∀ i, (hi : i < items.length) → ∃ r, imgFileAt img 0 i = some (r, (items[i]).2) ∧ RecOf (items[i]).1 r (items[i]).2.length)
      ∧ (extract fl verbose2 archive into (save fl img)).status = .ret 0
      ∧ (extract fl verbose2 archive into (save fl img)).writes
          = items.map (fun p => (pathJoin (pathJoin (Tape.targetDirOf archive into) (Tape.str "side" ++ digits 0)) (diskName p.1), p.2)) :=
  Disk.small_batch_in_order fl w verbose archive items hall hord hB hS verbose2 into hk

/-- the name a source is extracted under, on examples: upper case, 8.3, the `,a` option dropped -/
example : diskName (Tape.str "dir.d/prog.bas,a") = Tape.str "PROG.BAS" ∧ diskName (Tape.str "noext") = Tape.str "NOEXT."
    ∧ diskName (Tape.str "a.b") = Tape.str "A.B" := by decide +kernel

/-- **C02 (the created image holds, side by side, exactly the sources stored there, in the order given)**:
    for every list of source arguments (any contents, sizes, end-of-side markers, missing files, refusals,
    retries) there is a list `placed` of (side, source) — a sub-sequence of the command line in command-line
    order, the sides never decreasing — such that `--create` writes the archive of a consistent image whose
    side `k` holds, in catalog order, exactly the files of the sources placed on `k`, in that order: for each,
    the content the argument designates under the entry bytes written for that argument (`FileOf`). -/
theorem create_stores_sources_in_order (fl : Flavour) (w : Tape.World) (verbose : Bool) (archive : Str) (srcs : List Str)
    (hs : ∀ src ∈ srcs, CleanSrc src) :
    ∃ (img : Image) (placed : List (Nat × Str)), ImgOk img
      ∧ (create fl w verbose archive srcs).writes = [(archive, save fl img)]
      ∧ (placed.map (·.2)).Sublist srcs ∧ (placed.map (·.1)).Pairwise (· ≤ ·) ∧ (∀ p ∈ placed, p.1 < 4)
      ∧ ∀ k, k < 4 → FilesOf w (sideList (img.getD k [])) ((placed.filter (fun p => p.1 == k)).map (·.2)) := by
  obtain ⟨st, placed, hst, hok, h3, h4, h5, h6⟩ := create_ordered w verbose srcs hs
  refine ⟨st.img, placed, hok, ?_, h3, h4, h5, h6⟩
  unfold create performOn; rw [if_neg (by simp), hst]

/-- **C02 (… and `--list` / `--extract` show them in that order)**: the files `--extract` writes for a side
    (`sideFiles`, C07) are the side's files in catalog order under the names read from their entries; the
    lines of `--list` name them in the same order; a stored source is listed and extracted under `diskName`
    of its argument with the content the argument designates. -/
theorem listing_and_extraction_follow_catalog_order {sd : Side} {bat : List Nat} {own : Nat → List Nat} (inv : SideInv sd bat own) (dir : Str) :
    sideFiles sd dir = (sideList sd).map (fun f => (pathJoin dir (fileNameOf ⟨1, f.1, []⟩), f.2))
    ∧ (sideEvs sd).map (fun ev => (ev.name, ev.ext)) = (sideList sd).map (fun f => (slice f.1 0 8, slice f.1 8 11))
    ∧ ∀ (w : Tape.World) (src : Str) (f : Bytes × Bytes), FileOf w src f →
        fileNameOf ⟨1, f.1, []⟩ = diskName src ∧ w (splitSource src).2.2.2 = some f.2 :=
  ⟨sideFiles_eq_sideList sd dir, sideEvs_names inv, fun w src f h => fileOf_name w src f h⟩

/-- **C02 / C10 (adding to an image whose catalogs have no hole)**: `--add` with any batch appends, on every
    side, the files of the sources placed there after the files that were there, in command-line order. -/
theorem add_appends_sources_in_order (fl : Flavour) (w : Tape.World) (verbose : Bool) (archive : Str) (img : Image) (srcs : List Str)
    (himg : ImgOk img) (hp : ∀ k, k < 4 → ∃ n, n ≤ 112 ∧ Seq n (img.getD k [])) (hs : ∀ src ∈ srcs, CleanSrc src) :
    ∃ (img' : Image) (placed : List (Nat × Str)), ImgOk img'
      ∧ (add fl w verbose archive (save fl img) srcs).writes = [(archive, save fl img')]
      ∧ (placed.map (·.2)).Sublist srcs ∧ (placed.map (·.1)).Pairwise (· ≤ ·) ∧ (∀ p ∈ placed, p.1 < 4)
      ∧ ∀ k, k < 4 → ∃ fs, sideList (img'.getD k []) = sideList (img.getD k []) ++ fs
          ∧ FilesOf w fs ((placed.filter (fun p => p.1 == k)).map (·.2)) := by
  obtain ⟨st, placed, hst, hok, _, h4, h5, h6, h7⟩ := performCore_ordered w verbose img srcs himg hp hs
  rw [add_on_saved fl w verbose archive img srcs himg]
  refine ⟨st.img, placed, hok, ?_, h4, h5, h6, h7⟩
  unfold performOn; rw [if_neg (by rw [himg.1]; omega), hst]


/-- **C02 ("under its upper-cased 8.3 name")**: for *every* argument string, the name, the extension (with and without the
    option `,a`) and the file read that the disk archivers derive from a source argument are those of the naming rule
    `Spec.Names.diskSource` — the last path component cut at its last dot, both parts upper-cased — written without index
    arithmetic (Proofs/Names.lean).  These are the eleven name bytes of the catalog entry (`newRecord`), from which
    `diskName` — the name `--list` prints and `--extract` writes — is read back (`fileName_of_rec`). -/
theorem source_naming_rule (src : Str) :
    splitSource src = ((Spec.Names.diskSource src).name, (Spec.Names.diskSource src).ext,
                       (Spec.Names.diskSource src).extWithOption, (Spec.Names.diskSource src).path) :=
  splitSource_eq_spec src

example : Spec.Names.diskSource (Tape.str "dir.d/prog.bas,a")
    = ⟨Tape.str "PROG", Tape.str "BAS", Tape.str "BAS,A", Tape.str "dir.d/prog.bas"⟩ := by decide
example : Spec.Names.diskSource (Tape.str "x/noext") = ⟨Tape.str "NOEXT", [], [], Tape.str "x/noext"⟩ := by decide
example : Spec.Names.diskSource (Tape.str "prog.v2.bin") = ⟨Tape.str "PROG.V2", Tape.str "BIN", Tape.str "BIN", Tape.str "prog.v2.bin"⟩ := by decide


theorem upper_upper (s : Str) : upper (upper s) = upper s := by
  unfold upper
  rw [List.map_map]
  congr 1
  funext c
  simp only [Function.comp]
  unfold upperC; split <;> (try split) <;> omega

theorem diskSource_upper (src : Str) :
    upper (Spec.Names.diskSource src).name = (Spec.Names.diskSource src).name
    ∧ upper (Spec.Names.diskSource src).ext = (Spec.Names.diskSource src).ext := by
  unfold Spec.Names.diskSource
  dsimp only
  split
  · exact ⟨upper_upper _, rfl⟩
  · exact ⟨upper_upper _, upper_upper _⟩

/-- **C02 (from the naming rule to the name printed and extracted)**: for every source argument whose stem and extension
    (`Spec.Names.diskSource`: the last path component cut at its last dot, upper-cased, the option `,a` taken off) are plain printable
    characters (0x21..0x7E) that fit the 8 + 3 fields, the name under which the file is listed and extracted — `diskName`, read back
    from the eleven name bytes of the catalog entry the tool writes — is `STEM.EXT`.  The extension stored is the extension
    itself: the kind table forces an extension for `BAS,A` only, and there it forces `BAS` (`dispatch_stored_ext`, checked against
    the regenerated table; `dispatch_of_diskSource`). -/
theorem plain_source_is_listed_as_name_dot_ext (src : Str)
    (hn : Plain (Spec.Names.diskSource src).name) (hn8 : (Spec.Names.diskSource src).name.length ≤ 8)
    (he : Plain (Spec.Names.diskSource src).ext) (he3 : (Spec.Names.diskSource src).ext.length ≤ 3) :
    diskName src = (Spec.Names.diskSource src).name ++ [46] ++ (Spec.Names.diskSource src).ext := by
  unfold diskName
  rw [source_naming_rule src]
  simp only
  rw [dispatch_of_diskSource src, fileName_of_newRecord _ _ hn he hn8 he3 0 0 0 0, (diskSource_upper src).1, (diskSource_upper src).2]

/-- the stored extension, for every name, extension and option: the extension, or `BAS` for `BAS,A` -/
theorem stored_extension_rule (n e w : Str) :
    (dispatch n e w).2.2 = e ∨ (w = Tape.str "BAS,A" ∧ (dispatch n e w).2.2 = Tape.str "BAS") :=
  dispatch_stored_ext n e w

example : diskName (Tape.str "my.dir/prog.v2.bas,a") = Tape.str "PROG.V2.BAS" := by decide +kernel

end Moto.C02
