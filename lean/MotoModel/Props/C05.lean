/-
  C05 — disk file system stays consistent across every history of additions.
  (first layer: allocation arithmetic, refusal for lack of blocks, reserved blocks, chains)
-/
import MotoModel.Proofs.DiskChain
namespace Moto.C05
open Moto Moto.Disk

/-- **C05 (free + used + reserved = 160)** for the table of every side the tools can read -/
theorem usage_sum_160 (sd : Side) (bat : List Nat) (h : getBat sd = .ok bat) :
    (computeUsage bat).used + (computeUsage bat).reserved + (computeUsage bat).free = 160 := by
  rw [usage_sum, getBat_length sd bat h]

/-- **C05 (reserved blocks are never handed out)**: whatever the table, the blocks chosen for a
    new file are free blocks, hence never a reserved one (table, catalog, extra reserved blocks) -/
theorem never_reserved (bat : List Nat) (k : Nat) : ∀ b ∈ chosen bat k, isFree (bat.getD b 0) = true ∧ isReserved (bat.getD b 0) = false :=
  fun b hb => ⟨(chosen_free bat k b hb).2, chosen_never_reserved bat k b hb⟩

theorem reserved_blocks_of_the_tool : 40 ∈ Gen.Disk.reservedBlocks ∧ 41 ∈ Gen.Disk.reservedBlocks := by decide

/-- **C05 (refused for lack of blocks ⇒ nothing changes)**: when `writeFile` refuses a file
    because the side has too few free blocks, it leaves the side exactly as it was. -/
theorem refused_blocks_unchanged (sd sd' : Side) (content : Bytes) (name ext : Str) (kind flag : Nat)
    (h : writeFile sd content name ext kind flag = .raised (.valueError "not.enough.blocks") sd') : sd' = sd := by
  unfold writeFile at h
  cases hb : getBat sd with
  | error e => rw [hb] at h; cases h; rfl
  | ok bat =>
    rw [hb] at h
    simp only [writeFileWith] at h
    split at h
    · cases h; rfl
    · unfold placeFile at h
      simp only at h
      cases hf : findSlot _ _ with
      | error e =>
        rw [hf] at h
        simp only [WriteResult.raised.injEq] at h
        have := findSlot_error _ _ e hf
        rw [this] at h
        exact absurd h.1 (by decide)
      | ok o =>
        rw [hf] at h
        cases o with
        | none =>
          simp only [WriteResult.raised.injEq, PyErr.valueError.injEq] at h
          exact absurd h.1 (by decide)
        | some p => cases h

/-- a file is refused for lack of blocks exactly when fewer free blocks remain than it needs -/
theorem refused_when_too_few_blocks (sd : Side) (bat : List Nat) (content : Bytes) (name ext : Str) (kind flag : Nat)
    (hb : getBat sd = .ok bat)
    (h : (chosen bat (reqBlocks content.length)).length < reqBlocks content.length) :
    writeFile sd content name ext kind flag = .raised (.valueError "not.enough.blocks") sd := by
  unfold writeFile
  rw [hb]
  simp only [writeFileWith, h, if_true]

/-- the written chain reads back: the statuses `writeFile` links are followed by `walk` exactly -/
theorem written_chain_reads_back (bat : List Nat) (hlen : bat.length = 160) (n : Nat)
    (hfit : reqBlocks n ≤ (chosen bat (reqBlocks n)).length) :
    walk (linkChain bat (chosen bat (reqBlocks n)) (lastSectorsOf n)) ((chosen bat (reqBlocks n)).getD 0 0)
      = .ok (chosen bat (reqBlocks n)) := by
  obtain ⟨hb1, hu1, hu8, _, _, _, _⟩ := size_law n
  generalize hch : chosen bat (reqBlocks n) = ch at hfit ⊢
  have hne : ch ≠ [] := by
    intro h; have : ch.length = 0 := by rw [h]; rfl
    omega
  obtain ⟨first, rest, hfr⟩ := List.exists_cons_of_ne_nil hne
  have hlt : ∀ x ∈ ch, x < 160 := fun x hx => hlen ▸ (chosen_free bat _ x (hch ▸ hx)).1
  have hnd : ch.Nodup := hch ▸ chosen_nodup bat _
  have hl := linkChain_linked ch bat (lastSectorsOf n) hnd (fun b hb => hlen ▸ hlt b hb)
  rw [hfr] at hl hlt hnd ⊢
  simp only [List.getD_cons_zero]
  exact walk_linked _ first rest _ hu1 hu8 (by rw [linkChain_length]; exact hlen) hl hlt hnd

end Moto.C05
