/-
  C05 — disk file system stays consistent across every history of additions.
  (first layer: allocation arithmetic, refusal for lack of blocks, reserved blocks, chains)
-/
import MotoModel.Proofs.DiskChain
import MotoModel.Proofs.DiskPreserve
namespace Moto.C05
open Moto Moto.Disk

/-- **C05 (free + used + reserved = 160)** for the table of every side the tools can read -/
theorem usage_sum_160 (sd : Side) (bat : List Nat) (h : getBat sd = .ok bat) :
    (computeUsage bat).used + (computeUsage bat).reserved + (computeUsage bat).free = 160 := by
  rw [usage_sum, getBat_length sd bat h]

/-- **C05 (reserved blocks are never handed out)**: whatever the table, the blocks chosen for a
    new file are free blocks, hence never a reserved one (table, catalog, extra reserved blocks) -/
theorem never_reserved (bat : List Nat) (k : Nat) : ∀ b ∈ chosen bat k, isFree (bat.getD b 0) = true ∧ isReserved (bat.getD b 0) = false :=
  fun b hb => ⟨(chosen_free bat k b hb).2, chosen_never_reserved bat k b hb⟩

theorem reserved_blocks_of_the_tool : 40 ∈ Gen.Disk.reservedBlocks ∧ 41 ∈ Gen.Disk.reservedBlocks := by decide

/-- **C05 (refused for lack of blocks ⇒ nothing changes)**: when `writeFile` refuses a file
    because the side has too few free blocks, it leaves the side exactly as it was. -/
theorem refused_blocks_unchanged (sd sd' : Side) (content : Bytes) (name ext : Str) (kind flag : Nat)
    (h : writeFile sd content name ext kind flag = .raised (.valueError "not.enough.blocks") sd') : sd' = sd := by
  unfold writeFile at h
  cases hb : getBat sd with
  | error e => rw [hb] at h; cases h; rfl
  | ok bat =>
    rw [hb] at h
    simp only [writeFileWith] at h
    split at h
    · cases h; rfl
    · unfold placeFile at h
      simp only at h
      cases hf : findSlot _ _ with
      | error e =>
        rw [hf] at h
        simp only [WriteResult.raised.injEq] at h
        have := findSlot_error _ _ e hf
        rw [this] at h
        exact absurd h.1 (by decide)
      | ok o =>
        rw [hf] at h
        cases o with
        | none =>
          simp only [WriteResult.raised.injEq, PyErr.valueError.injEq] at h
          exact absurd h.1 (by decide)
        | some p => cases h

/-- a file is refused for lack of blocks exactly when fewer free blocks remain than it needs -/
theorem refused_when_too_few_blocks (sd : Side) (bat : List Nat) (content : Bytes) (name ext : Str) (kind flag : Nat)
    (hb : getBat sd = .ok bat)
    (h : (chosen bat (reqBlocks content.length)).length < reqBlocks content.length) :
    writeFile sd content name ext kind flag = .raised (.valueError "not.enough.blocks") sd := by
  unfold writeFile
  rw [hb]
  simp only [writeFileWith, h, if_true]

/-- the written chain reads back: the statuses `writeFile` links are followed by `walk` exactly -/
theorem written_chain_reads_back (bat : List Nat) (hlen : bat.length = 160) (n : Nat)
    (hfit : reqBlocks n ≤ (chosen bat (reqBlocks n)).length) :
    walk (linkChain bat (chosen bat (reqBlocks n)) (lastSectorsOf n)) ((chosen bat (reqBlocks n)).getD 0 0)
      = .ok (chosen bat (reqBlocks n)) := by
  obtain ⟨hb1, hu1, hu8, _, _, _, _⟩ := size_law n
  generalize hch : chosen bat (reqBlocks n) = ch at hfit ⊢
  have hne : ch ≠ [] := by
    intro h; have : ch.length = 0 := by rw [h]; rfl
    omega
  obtain ⟨first, rest, hfr⟩ := List.exists_cons_of_ne_nil hne
  have hlt : ∀ x ∈ ch, x < 160 := fun x hx => hlen ▸ (chosen_free bat _ x (hch ▸ hx)).1
  have hnd : ch.Nodup := hch ▸ chosen_nodup bat _
  have hl := linkChain_linked ch bat (lastSectorsOf n) hnd (fun b hb => hlen ▸ hlt b hb)
  rw [hfr] at hl hlt hnd ⊢
  simp only [List.getD_cons_zero]
  exact walk_linked _ first rest _ hu1 hu8 (by rw [linkChain_length]; exact hlen) hl hlt hnd

end Moto.C05

namespace Moto.C05
open Moto Moto.Disk

/-- **C05 (refused for lack of a catalog entry ⇒ table and catalog unchanged)**: when every
    catalog entry of the side is taken, `writeFile` gives the blocks back: the allocation-table
    sector and the fourteen catalog sectors are byte-identical to what they were, so the side has
    the same free-block count, the same catalog and the same files. -/
theorem refused_catalog_restores (sd sd' : Side) (bat : List Nat) (content : Bytes) (name ext : Str) (kind flag : Nat)
    (hw : C11.WFSide sd) (hb : getBat sd = .ok bat)
    (h40 : isFree (bat.getD 40 0) = false) (h41 : isFree (bat.getD 41 0) = false)
    (h : writeFile sd content name ext kind flag = .raised (.valueError "no.more.space.in.catalog") sd') :
    getSector sd' batTrack batSector = getSector sd batTrack batSector
    ∧ ∀ s, 1 ≤ s → s ≤ 15 → getSector sd' batTrack s = getSector sd batTrack s := by
  obtain ⟨hb1, hu1, hu8, hlb, hS, hsize, _⟩ := size_law content.length
  have hblen := getBat_length sd bat hb
  unfold writeFile at h
  rw [hb] at h
  simp only [writeFileWith] at h
  split at h
  · simp only [WriteResult.raised.injEq, PyErr.valueError.injEq] at h
    exact absurd h.1 (by decide)
  · rename_i hfit
    generalize hfree : chosen bat (reqBlocks content.length) = free at h hfit
    have hflen : free.length = reqBlocks content.length := by
      have : free.length ≤ reqBlocks content.length := by rw [← hfree]; simp only [chosen]; exact List.length_take_le _ _
      omega
    have hnd : free.Nodup := hfree ▸ chosen_nodup bat _
    have hlt : ∀ b ∈ free, b < 160 := fun b hb' => hblen ▸ (chosen_free bat _ b (hfree ▸ hb')).1
    have hisfree : ∀ b ∈ free, isFree (bat.getD b 0) = true := fun b hb' => (chosen_free bat _ b (hfree ▸ hb')).2
    have hnot4x : ∀ b ∈ free, b ≠ 40 ∧ b ≠ 41 := by
      intro b hb'
      have := hisfree b hb'
      constructor
      · intro e; subst e; rw [h40] at this; cases this
      · intro e; subst e; rw [h41] at this; cases this
    unfold placeFile at h
    dsimp only at h
    cases hf : findSlot _ _ with
    | error err =>
      rw [hf] at h
      simp only [WriteResult.raised.injEq] at h
      have := findSlot_error _ _ err hf
      rw [this] at h; exact absurd h.1 (by decide)
    | ok o =>
      rw [hf] at h
      cases o with
      | some p => cases h
      | none =>
        simp only [WriteResult.raised.injEq, true_and] at h
        rw [restore_table bat free _ hisfree] at h
        subst h
        -- sectors of track 20 are not data sectors of the chosen blocks
        have hspec := (writeSectors_spec free hnd content (reqSectors content.length) 0 sd (by omega)
          (fun j _ h2 => by
            rw [hw.1]; unfold flatOf
            have hj8 : j / 8 < free.length := by omega
            have hm : free.getD (j / 8) 0 ∈ free := by
              rw [List.getD_eq_getElem?_getD, List.getElem?_eq_getElem hj8]; simp
            have := hlt _ hm
            omega)).1
        have huntouched : ∀ s, 1 ≤ s → s ≤ 15 →
            getSector (writeSectors free content (reqSectors content.length) 0 sd) batTrack s = getSector sd batTrack s := by
          intro s h1 h15
          unfold getSector
          apply hspec
          intro j _ hj he
          unfold flatOf at he
          have hj8 : j / 8 < free.length := by omega
          have hm : free.getD (j / 8) 0 ∈ free := by
            rw [List.getD_eq_getElem?_getD, List.getElem?_eq_getElem hj8]; simp
          have := hnot4x _ hm
          unfold idx batTrack at he
          have e16 : Gen.Disk.sectorsPerTrack = 16 := rfl
          rw [e16] at he
          have := Nat.mod_lt j (show 0 < 8 by omega)
          omega
        have hw1 : C11.WFSide (writeSectors free content (reqSectors content.length) 0 sd) := writeSectors_wf _ _ _ _ _ hw
        have hb'len : (linkChain bat free (lastSectorsOf content.length)).length = 160 := by rw [linkChain_length]; exact hblen
        have hun1 : getSector (writeSectors free content (reqSectors content.length) 0 sd) batTrack batSector
            = getSector sd batTrack batSector := huntouched 1 (Nat.le_refl _) (by omega)
        constructor
        · rw [setBat_setBat_sector _ _ _ hw1 hb'len hblen, hun1]
          exact getBat_sector sd bat hw hb
        · intro s h1 h15
          by_cases hs1 : s = 1
          · subst hs1
            show getSector _ batTrack batSector = getSector sd batTrack batSector
            rw [setBat_setBat_sector _ _ _ hw1 hb'len hblen, hun1]
            exact getBat_sector sd bat hw hb
          · rw [setBat_other _ _ _ _ (by unfold idx batSector; omega), setBat_other _ _ _ _ (by unfold idx batSector; omega)]
            exact huntouched s h1 h15

end Moto.C05
