/-
  C05 — disk file system stays consistent across every history of additions.
  (first layer: allocation arithmetic, refusal for lack of blocks, reserved blocks, chains)
-/
import MotoModel.Proofs.DiskChain
import MotoModel.Proofs.DiskPreserve
import MotoModel.Proofs.DiskHistory
import MotoModel.Proofs.DiskPlace
import MotoModel.Props.C10
import MotoModel.Proofs.GenFn
namespace Moto.C05
open Moto Moto.Disk

/-- **C05 (free + used + reserved = 160)** for the table of every side the tools can read -/
theorem usage_sum_160 (sd : Side) (bat : List Nat) (h : getBat sd = .ok bat) :
    (computeUsage bat).used + (computeUsage bat).reserved + (computeUsage bat).free = 160 := by
  rw [usage_sum, getBat_length sd bat h]

/-- **C05 (the usage count, tied by translation)**: `computeUsage` of controller.py — one pass over
    the table with three counters — translated from the source on every run, counts what the model
    counts, for every table -/
theorem generated_usage (bat : List Nat) :
    Gen.Fn.computeUsage bat = ((computeUsage bat).used, (computeUsage bat).reserved, (computeUsage bat).free) :=
  GenFn.computeUsage_eq bat

/-- **C05 (reserved blocks are never handed out)**: whatever the table, the blocks chosen for a
    new file are free blocks, hence never a reserved one (table, catalog, extra reserved blocks) -/
theorem never_reserved (bat : List Nat) (k : Nat) : ∀ b ∈ chosen bat k, isFree (bat.getD b 0) = true ∧ isReserved (bat.getD b 0) = false :=
  fun b hb => ⟨(chosen_free bat k b hb).2, chosen_never_reserved bat k b hb⟩

/-- **C05 (the table and the catalog are never handed to a file — also on a side that was never
    formatted)**: `writeFile` chooses the blocks of a new file in `protect bat`, the table it read with
    the two blocks of track 20 marked reserved whatever it said about them: whatever the table holds
    (a blank side reads as 160 free blocks), blocks 40 and 41 are not among the chosen ones -/
theorem track20_never_handed_out (bat : List Nat) (hlen : bat.length = 160) (k : Nat) :
    ∀ b ∈ chosen (protect bat) k, b ≠ 40 ∧ b ≠ 41 := by
  intro b hb
  obtain ⟨h40, h41⟩ := protect_track20 bat (by omega)
  have hf := (chosen_free (protect bat) k b hb).2
  constructor
  · intro e; subst e; rw [h40] at hf; cases hf
  · intro e; subst e; rw [h41] at hf; cases hf

/-- on a table that already reserves track 20 — every formatted side — `protect` changes nothing -/
theorem protect_formatted (bat : List Nat) (h40 : bat.getD 40 0 = 0xFE) (h41 : bat.getD 41 0 = 0xFE) : protect bat = bat :=
  protect_id bat (by rw [h40]; rfl) (by rw [h41]; rfl)

theorem reserved_blocks_of_the_tool : 40 ∈ Gen.Disk.reservedBlocks ∧ 41 ∈ Gen.Disk.reservedBlocks := by decide

/-- **C05 (refused for lack of blocks ⇒ nothing changes)**: when `writeFile` refuses a file
    because the side has too few free blocks, it leaves the side exactly as it was. -/
theorem refused_blocks_unchanged (sd sd' : Side) (content : Bytes) (name ext : Str) (kind flag : Nat)
    (h : writeFile sd content name ext kind flag = .raised (.valueError "not.enough.blocks") sd') : sd' = sd := by
  unfold writeFile at h
  cases hb : getBat sd with
  | error e => rw [hb] at h; cases h; rfl
  | ok bat =>
    rw [hb] at h
    simp only [writeFileWith] at h
    split at h
    · cases h; rfl
    · unfold placeFile at h
      simp only at h
      cases hf : findSlot _ _ with
      | error e =>
        rw [hf] at h
        simp only [WriteResult.raised.injEq] at h
        have := findSlot_error _ _ e hf
        rw [this] at h
        exact absurd h.1 (by decide)
      | ok o =>
        rw [hf] at h
        cases o with
        | none =>
          simp only [WriteResult.raised.injEq, PyErr.valueError.injEq] at h
          exact absurd h.1 (by decide)
        | some p => cases h

/-- a file is refused for lack of blocks exactly when fewer free blocks remain than it needs -/
theorem refused_when_too_few_blocks (sd : Side) (bat : List Nat) (content : Bytes) (name ext : Str) (kind flag : Nat)
    (hb : getBat sd = .ok bat) (h40 : isFree (bat.getD 40 0) = false) (h41 : isFree (bat.getD 41 0) = false)
    (h : (chosen bat (reqBlocks content.length)).length < reqBlocks content.length) :
    writeFile sd content name ext kind flag = .raised (.valueError "not.enough.blocks") sd := by
  unfold writeFile
  rw [hb]
  dsimp only
  rw [protect_id bat h40 h41]
  simp only [writeFileWith, h, if_true]

/-- the written chain reads back: the statuses `writeFile` links are followed by `walk` exactly -/
theorem written_chain_reads_back (bat : List Nat) (hlen : bat.length = 160) (n : Nat)
    (hfit : reqBlocks n ≤ (chosen bat (reqBlocks n)).length) :
    walk (linkChain bat (chosen bat (reqBlocks n)) (lastSectorsOf n)) ((chosen bat (reqBlocks n)).getD 0 0)
      = .ok (chosen bat (reqBlocks n)) := by
  obtain ⟨hb1, hu1, hu8, _, _, _, _⟩ := size_law n
  generalize hch : chosen bat (reqBlocks n) = ch at hfit ⊢
  have hne : ch ≠ [] := by
    intro h; have : ch.length = 0 := by rw [h]; rfl
    omega
  obtain ⟨first, rest, hfr⟩ := List.exists_cons_of_ne_nil hne
  have hlt : ∀ x ∈ ch, x < 160 := fun x hx => hlen ▸ (chosen_free bat _ x (hch ▸ hx)).1
  have hnd : ch.Nodup := hch ▸ chosen_nodup bat _
  have hl := linkChain_linked ch bat (lastSectorsOf n) hnd (fun b hb => hlen ▸ hlt b hb)
  rw [hfr] at hl hlt hnd ⊢
  simp only [List.getD_cons_zero]
  exact walk_linked _ first rest _ hu1 hu8 (by rw [linkChain_length]; exact hlen) hl hlt hnd

end Moto.C05

namespace Moto.C05
open Moto Moto.Disk

/-- **C05 (refused for lack of a catalog entry ⇒ table and catalog unchanged)**: when every
    catalog entry of the side is taken, `writeFile` gives the blocks back: the allocation-table
    sector and the fourteen catalog sectors are byte-identical to what they were, so the side has
    the same free-block count, the same catalog and the same files. -/
theorem refused_catalog_restores (sd sd' : Side) (bat : List Nat) (content : Bytes) (name ext : Str) (kind flag : Nat)
    (hw : C11.WFSide sd) (hb : getBat sd = .ok bat)
    (h40 : isFree (bat.getD 40 0) = false) (h41 : isFree (bat.getD 41 0) = false)
    (h : writeFile sd content name ext kind flag = .raised (.valueError "no.more.space.in.catalog") sd') :
    getSector sd' batTrack batSector = getSector sd batTrack batSector
    ∧ ∀ s, 1 ≤ s → s ≤ 15 → getSector sd' batTrack s = getSector sd batTrack s := by
  obtain ⟨hb1, hu1, hu8, hlb, hS, hsize, _⟩ := size_law content.length
  have hblen := getBat_length sd bat hb
  unfold writeFile at h
  rw [hb] at h
  dsimp only at h
  rw [protect_id bat h40 h41] at h
  simp only [writeFileWith] at h
  split at h
  · simp only [WriteResult.raised.injEq, PyErr.valueError.injEq] at h
    exact absurd h.1 (by decide)
  · rename_i hfit
    generalize hfree : chosen bat (reqBlocks content.length) = free at h hfit
    have hflen : free.length = reqBlocks content.length := by
      have : free.length ≤ reqBlocks content.length := by rw [← hfree]; simp only [chosen]; exact List.length_take_le _ _
      omega
    have hnd : free.Nodup := hfree ▸ chosen_nodup bat _
    have hlt : ∀ b ∈ free, b < 160 := fun b hb' => hblen ▸ (chosen_free bat _ b (hfree ▸ hb')).1
    have hisfree : ∀ b ∈ free, isFree (bat.getD b 0) = true := fun b hb' => (chosen_free bat _ b (hfree ▸ hb')).2
    have hnot4x : ∀ b ∈ free, b ≠ 40 ∧ b ≠ 41 := by
      intro b hb'
      have := hisfree b hb'
      constructor
      · intro e; subst e; rw [h40] at this; cases this
      · intro e; subst e; rw [h41] at this; cases this
    unfold placeFile at h
    dsimp only at h
    cases hf : findSlot _ _ with
    | error err =>
      rw [hf] at h
      simp only [WriteResult.raised.injEq] at h
      have := findSlot_error _ _ err hf
      rw [this] at h; exact absurd h.1 (by decide)
    | ok o =>
      rw [hf] at h
      cases o with
      | some p => cases h
      | none =>
        simp only [WriteResult.raised.injEq, true_and] at h
        rw [restore_table bat free _ hisfree] at h
        subst h
        -- sectors of track 20 are not data sectors of the chosen blocks
        have hspec := (writeSectors_spec free hnd content (reqSectors content.length) 0 sd (by omega)
          (fun j _ h2 => by
            rw [hw.1]; unfold flatOf
            have hj8 : j / 8 < free.length := by omega
            have hm : free.getD (j / 8) 0 ∈ free := by
              rw [List.getD_eq_getElem?_getD, List.getElem?_eq_getElem hj8]; simp
            have := hlt _ hm
            omega)).1
        have huntouched : ∀ s, 1 ≤ s → s ≤ 15 →
            getSector (writeSectors free content (reqSectors content.length) 0 sd) batTrack s = getSector sd batTrack s := by
          intro s h1 h15
          unfold getSector
          apply hspec
          intro j _ hj he
          unfold flatOf at he
          have hj8 : j / 8 < free.length := by omega
          have hm : free.getD (j / 8) 0 ∈ free := by
            rw [List.getD_eq_getElem?_getD, List.getElem?_eq_getElem hj8]; simp
          have := hnot4x _ hm
          unfold idx batTrack at he
          have e16 : Gen.Disk.sectorsPerTrack = 16 := rfl
          rw [e16] at he
          have := Nat.mod_lt j (show 0 < 8 by omega)
          omega
        have hw1 : C11.WFSide (writeSectors free content (reqSectors content.length) 0 sd) := writeSectors_wf _ _ _ _ _ hw
        have hb'len : (linkChain bat free (lastSectorsOf content.length)).length = 160 := by rw [linkChain_length]; exact hblen
        have hun1 : getSector (writeSectors free content (reqSectors content.length) 0 sd) batTrack batSector
            = getSector sd batTrack batSector := huntouched 1 (Nat.le_refl _) (by omega)
        constructor
        · rw [setBat_setBat_sector _ _ _ hw1 hb'len hblen, hun1]
          exact getBat_sector sd bat hw hb
        · intro s h1 h15
          by_cases hs1 : s = 1
          · subst hs1
            show getSector _ batTrack batSector = getSector sd batTrack batSector
            rw [setBat_setBat_sector _ _ _ hw1 hb'len hblen, hun1]
            exact getBat_sector sd bat hw hb
          · rw [setBat_other _ _ _ _ (by unfold idx batSector; omega), setBat_other _ _ _ _ (by unfold idx batSector; omega)]
            exact huntouched s h1 h15

/-! ### every history

`SideInv sd bat own` (Proofs/DiskInv.lean) says that `sd` is a consistent file system whose
table is `bat` and whose catalog slot `i` owns the chain `own i`: well-formed geometry, readable
table, track 20 reserved, every live entry names a proper chain (starting at its first-block byte,
no block twice, all inside the table, linked up to a marker C1..C8), at most 255 bytes in a last
sector, chains of different entries disjoint, and *a block is in use exactly when some live entry
owns it*.  `ImgOk img`: four sides, each with some such `bat` and `own`. -/

/-- what consistency gives, spelled out in the terms of the property -/
theorem consistent_side_facts (sd : Side) (bat : List Nat) (own : Nat → List Nat) (inv : SideInv sd bat own) :
    -- free + used + reserved = 160
    (computeUsage bat).used + (computeUsage bat).reserved + (computeUsage bat).free = 160
    -- the used blocks are exactly the blocks of the chains of the live entries
    ∧ (∀ b, b < 160 → ((isFree (bat.getD b 0) = false ∧ isReserved (bat.getD b 0) = false) ↔
          ∃ i, i < 112 ∧ liveData (slotData sd i) ∧ b ∈ own i))
    -- chains of two files share no block
    ∧ (∀ i j, i < 112 → j < 112 → i ≠ j → liveData (slotData sd i) → liveData (slotData sd j) → ∀ b ∈ own i, b ∉ own j)
    -- no file owns a reserved block; the table and the catalog (blocks 40, 41) in particular
    ∧ (∀ i, i < 112 → liveData (slotData sd i) → ∀ b ∈ own i, isReserved (bat.getD b 0) = false ∧ b ≠ 40 ∧ b ≠ 41)
    -- the catalog decoder finds exactly that chain for every live entry
    ∧ (∀ i, i < 112 → liveData (slotData sd i) →
          entryOfBytes (slotData sd i) bat = .ok ⟨1, recordOfBytes (slotData sd i), own i⟩) := by
  refine ⟨usage_sum_160 sd bat inv.hbat, inv.used, inv.disj, ?_, fun i hi hl => inv.entry i hi hl⟩
  intro i hi hl b hb
  obtain ⟨_, _, _, _, _, _, _, hlt⟩ := inv.chain i hi hl
  have hu := (inv.used b (hlt b hb)).mpr ⟨i, hi, hl, hb⟩
  refine ⟨hu.2, ?_, ?_⟩
  · intro h; subst h; have := hu.2; rw [inv.res40] at this; cases this
  · intro h; subst h; have := hu.2; rw [inv.res41] at this; cases this

/-- **C05 (one `writeFile`, every outcome)**: on a consistent side, `writeFile` either stores the
    file — in a catalog slot that was not live, owning exactly the blocks chosen among the free
    ones — and the side is consistent again; or refuses it with a `ValueError` and the side is
    consistent with the *same table and the same catalog entries* as before.  There is no third
    outcome: no other exception, no half-done state. -/
theorem one_write_keeps_consistency {sd : Side} {bat : List Nat} {own : Nat → List Nat} (inv : SideInv sd bat own)
    (content : Bytes) (name ext : Str) (kind flag : Nat) (hname : ∀ c ∈ name, c ≠ 0xFF) :
    (∃ sd' i0, writeFile sd content name ext kind flag = .ok sd' ∧ i0 < 112 ∧ ¬ liveData (slotData sd i0)
        ∧ SideInv sd' (newBat bat content) (fun i => if i = i0 then chosen bat (reqBlocks content.length) else own i)
        ∧ slotData sd' i0 = newRecord name ext kind flag ((chosen bat (reqBlocks content.length)).getD 0 0) (lastBytesOf content.length)
        ∧ (∀ j, j < 112 → j ≠ i0 → slotData sd' j = slotData sd j)
        ∧ (chosen bat (reqBlocks content.length)).length = reqBlocks content.length)
    ∨ (∃ sd' msg, writeFile sd content name ext kind flag = .raised (.valueError msg) sd' ∧ SideInv sd' bat own
        ∧ ∀ j, j < 112 → slotData sd' j = slotData sd j) :=
  writeFile_inv inv content name ext kind flag hname

/-- **C05 (every stored file still reads back intact)** after any `writeFile`, stored or refused -/
theorem stored_files_survive {sd : Side} {bat : List Nat} {own : Nat → List Nat} (inv : SideInv sd bat own)
    (content : Bytes) (name ext : Str) (kind flag : Nat) (hname : ∀ c ∈ name, c ≠ 0xFF)
    (i : Nat) (hi : i < 112) (hl : liveData (slotData sd i)) :
    (∃ sd' i0, writeFile sd content name ext kind flag = .ok sd' ∧ i0 ≠ i ∧ slotData sd' i = slotData sd i
        ∧ fileOf sd' (newBat bat content) (fun j => if j = i0 then chosen bat (reqBlocks content.length) else own j) i = fileOf sd bat own i)
    ∨ (∃ sd' msg, writeFile sd content name ext kind flag = .raised (.valueError msg) sd' ∧ slotData sd' i = slotData sd i
        ∧ getBat sd' = .ok bat ∧ fileOf sd' bat own i = fileOf sd bat own i) :=
  writeFile_keeps_files inv content name ext kind flag hname i hi hl

/-- the image `--create` starts from is consistent -/
theorem fresh_image_consistent : ImgOk ((List.replicate 4 blankSide).map initFileSystem) := fresh_img_ok

/-- **C05 (one invocation)**: on a consistent image, a create/add batch — any sources, found or
    not, of any size, any number of end-of-side markers, any number of refusals — runs to its end
    without an exception and leaves four consistent sides. -/
theorem every_run_keeps_consistency (w : Tape.World) (verbose : Bool) (img : Image) (srcs : List Str)
    (himg : ImgOk img) (hs : ∀ src ∈ srcs, CleanSrc src) :
    ∃ st, performCore w verbose img srcs = .ok st ∧ ImgOk st.img :=
  performCore_ok w verbose img srcs himg hs

/-- the image after a history of invocations, each with its own files on disk, verbosity and sources -/
def imageAfter (img : Image) : List (Tape.World × Bool × List Str) → Image
  | [] => img
  | (w, v, srcs) :: rest =>
    match performCore w v img srcs with
    | .ok st => imageAfter st.img rest
    | .error _ => imageAfter img rest

/-- **C05 (every history)**: after `--create` and any sequence of `--add` invocations, every side of
    the image is a consistent file system. -/
theorem every_history_consistent (hist : List (Tape.World × Bool × List Str))
    (hs : ∀ r ∈ hist, ∀ src ∈ r.2.2, CleanSrc src) :
    ImgOk (imageAfter ((List.replicate 4 blankSide).map initFileSystem) hist) := by
  have key : ∀ (hist : List (Tape.World × Bool × List Str)) (img : Image), ImgOk img →
      (∀ r ∈ hist, ∀ src ∈ r.2.2, CleanSrc src) → ImgOk (imageAfter img hist) := by
    intro hist
    induction hist with
    | nil => intro img h _; exact h
    | cons r rest ih =>
      intro img h hs
      obtain ⟨w, v, srcs⟩ := r
      obtain ⟨st, hst, hok⟩ := performCore_ok w v img srcs h (hs (w, v, srcs) (by simp))
      simp only [imageAfter, hst]
      exact ih st.img hok (fun r hr => hs r (by simp [hr]))
  exact key hist _ fresh_img_ok hs

/-- non-vacuity: the fresh side satisfies the invariant, with an empty catalog -/
example : SideInv freshSide freshBat (fun _ => []) := fresh_inv

/-- the archive after a history of invocations: `--create`, then `--add`s, each on the bytes the
    previous invocation wrote (`none` if some invocation did not write its archive) -/
def archiveAfter (fl : Flavour) (archive : Str) : List (Tape.World × Bool × List Str) → Option Bytes
  | [] => none
  | (w, v, srcs) :: rest =>
    let step (prev : Option Bytes) (r : Tape.World × Bool × List Str) : Option Bytes :=
      match prev with
      | none => none
      | some raw => match (add fl r.1 r.2.1 archive raw r.2.2).writes with
        | [(_, bytes)] => some bytes
        | _ => none
    rest.foldl step (match (create fl w v archive srcs).writes with | [(_, bytes)] => some bytes | _ => none)

/-- **C05 (every history, at the level of the archive file)**: after `--create` and any sequence
    of `--add` invocations on the file, the archive exists and is the serialisation of four
    consistent sides. -/
theorem every_archive_consistent (fl : Flavour) (archive : Str) (hist : List (Tape.World × Bool × List Str))
    (hne : hist ≠ []) (hs : ∀ r ∈ hist, ∀ src ∈ r.2.2, CleanSrc src) :
    ∃ img, ImgOk img ∧ archiveAfter fl archive hist = some (save fl img) := by
  obtain ⟨r0, rest, rfl⟩ := List.exists_cons_of_ne_nil hne
  obtain ⟨w, v, srcs⟩ := r0
  simp only [archiveAfter]
  obtain ⟨img1, hok1, _, hw1⟩ := C10.create_always_completes fl w v archive srcs (hs (w, v, srcs) (by simp))
  rw [hw1]
  dsimp only
  have key : ∀ (rest : List (Tape.World × Bool × List Str)) (img : Image), ImgOk img →
      (∀ r ∈ rest, ∀ src ∈ r.2.2, CleanSrc src) →
      ∃ img', ImgOk img' ∧ rest.foldl (fun (prev : Option Bytes) (r : Tape.World × Bool × List Str) =>
        match prev with
        | none => none
        | some raw => match (add fl r.1 r.2.1 archive raw r.2.2).writes with
          | [(_, bytes)] => some bytes
          | _ => none) (some (save fl img)) = some (save fl img') := by
    intro rest
    induction rest with
    | nil => intro img h _; exact ⟨img, h, rfl⟩
    | cons r rest ih =>
      intro img h hs'
      simp only [List.foldl_cons]
      rw [add_on_saved fl r.1 r.2.1 archive img r.2.2 h]
      obtain ⟨img2, hok2, _, hw2⟩ := C10.always_completes fl r.1 r.2.1 archive img r.2.2 h (hs' r (by simp))
      rw [hw2]
      exact ih img2 hok2 (fun r' hr' => hs' r' (by simp [hr']))
  exact key rest img1 hok1 (fun r hr => hs r (by simp [hr]))

/-- **C05 (free-block count)**: on a consistent side a stored file takes exactly the blocks it needs
    from the free ones — the table afterwards has `reqBlocks` fewer free blocks — and a refused file
    leaves the table, hence the free-block count, as it was -/
theorem free_block_count {sd : Side} {bat : List Nat} {own : Nat → List Nat} (inv : SideInv sd bat own)
    (content : Bytes) (name ext : Str) (kind flag : Nat) (hname : ∀ c ∈ name, c ≠ 0xFF) :
    (∃ sd', writeFile sd content name ext kind flag = .ok sd' ∧ getBat sd' = .ok (newBat bat content)
        ∧ freeBlocks (newBat bat content) = freeBlocks bat - reqBlocks content.length ∧ reqBlocks content.length ≤ freeBlocks bat)
    ∨ (∃ sd' msg, writeFile sd content name ext kind flag = .raised (.valueError msg) sd' ∧ getBat sd' = .ok bat) := by
  rcases writeFile_inv inv content name ext kind flag hname with ⟨sd', i0, hw, _, _, inv', _⟩ | ⟨sd', msg, hw, inv', _⟩
  · left
    have hfit := ((writeFile_ok_iff inv content name ext kind flag).mp ⟨sd', hw⟩).1
    exact ⟨sd', hw, inv'.hbat, freeBlocks_newBat bat content (getBat_length sd bat inv.hbat), hfit⟩
  · right
    exact ⟨sd', msg, hw, inv'.hbat⟩

end Moto.C05
