/-
  C15 — ASCII BASIC conversion round-trips listings line for line.
-/
import MotoModel.Model.LineTools
import MotoModel.Spec.LineTools
import MotoModel.Proofs.ConvCli
namespace Moto.C15
open Moto Moto.Spec

/-- normal form of one listing line: right-trimmed (Python's whitespace set), 7-bit only -/
def norm (line : Str) : Bytes := (rstripBy isSpacePy line).filter (· < 128)

/-- **C15 (to ASCII BASIC)**: CR, then each source line right-trimmed, 7-bit filtered, plus CR. -/
theorem to_basic_shape (text : Str) :
    toAsciiBasic text = 13 :: (readlines text).flatMap (fun l => norm l ++ [13]) := rfl

/-- every byte of the result is 7-bit -/
theorem to_basic_seven_bit (text : Str) : ∀ b ∈ toAsciiBasic text, b < 128 := by
  intro b hb
  rw [to_basic_shape] at hb
  simp only [List.mem_cons, List.mem_flatMap, List.mem_append] at hb
  rcases hb with h | ⟨l, _, h | h⟩
  · omega
  · simp [norm] at h; exact h.2
  · simp at h; omega

theorem loop_eq_spec (eol : Bytes) (bs : Bytes) : ∀ cur : Bytes,
    cur ++ toListingLoop eol cur.length bs
      = ((splitCRLF cur bs).filter (· ≠ [])).flatMap (· ++ eol) := by
  induction bs with
  | nil =>
    intro cur
    cases cur with
    | nil => simp [toListingLoop, splitCRLF]
    | cons c cs => simp [toListingLoop, splitCRLF]
  | cons b bs ih =>
    intro cur
    by_cases hb : b = 13 ∨ b = 10
    · simp only [toListingLoop, splitCRLF, if_pos hb]
      have := ih []
      simp only [List.nil_append, List.length_nil] at this
      rw [this]
      cases cur with
      | nil => simp
      | cons c cs => simp
    · simp only [toListingLoop, splitCRLF, if_neg hb]
      have := ih (cur ++ [b])
      simp only [List.length_append, List.length_cons, List.length_nil, List.append_assoc,
        List.cons_append, List.nil_append] at this
      exact this

/-- **C15 (to listing)**: the non-empty lines of the file, in order, each followed by the
    selected line ending. -/
theorem to_listing_eq_spec (dos : Bool) (data : Bytes) :
    toListing dos data = specToListing (if dos then [13, 10] else [10]) data := by
  unfold toListing specToListing
  have := loop_eq_spec (if dos then [13, 10] else [10]) data []
  simpa using this

theorem splitCRLF_clean (bs : Bytes) : ∀ cur : Bytes, (∀ b ∈ cur, b ≠ 13 ∧ b ≠ 10) →
    ∀ l ∈ splitCRLF cur bs, ∀ b ∈ l, b ≠ 13 ∧ b ≠ 10 := by
  induction bs with
  | nil => intro cur hc l hl; simp [splitCRLF] at hl; subst hl; exact hc
  | cons x xs ih =>
    intro cur hc l hl
    by_cases hx : x = 13 ∨ x = 10
    · simp only [splitCRLF, if_pos hx, List.mem_cons] at hl
      rcases hl with h | h
      · subst h; exact hc
      · exact ih [] (by simp) l h
    · simp only [splitCRLF, if_neg hx] at hl
      refine ih (cur ++ [x]) ?_ l hl
      intro b hb
      simp only [List.mem_append, List.mem_singleton] at hb
      rcases hb with h | h
      · exact hc b h
      · subst h; omega

/-- **C15 (never an empty line)**: the listing is a sequence of non-empty lines without CR/LF
    inside, each followed by the line ending. -/
theorem no_empty_line (dos : Bool) (data : Bytes) :
    ∃ lines : List Bytes, toListing dos data = lines.flatMap (· ++ (if dos then [13, 10] else [10]))
      ∧ ∀ l ∈ lines, l ≠ [] ∧ ∀ b ∈ l, b ≠ 13 ∧ b ≠ 10 := by
  refine ⟨(splitCRLF [] data).filter (· ≠ []), ?_, ?_⟩
  · rw [to_listing_eq_spec]; rfl
  · intro l hl
    simp only [List.mem_filter, decide_eq_true_eq] at hl
    exact ⟨hl.2, splitCRLF_clean data [] (by simp) l hl.1⟩

/-! ### round trip -/

/-- splitting `cur`, then clean lines each followed by CR -/
theorem split_of_lines (ls : List Bytes) (h : ∀ l ∈ ls, ∀ b ∈ l, b ≠ 13 ∧ b ≠ 10) : ∀ cur : Bytes,
    splitCRLF cur (ls.flatMap (· ++ [13])) = match ls with
      | [] => [cur]
      | l :: rest => (cur ++ l) :: (rest ++ [[]]) := by
  induction ls with
  | nil => intro cur; simp [splitCRLF]
  | cons l rest ih =>
    intro cur
    simp only [List.flatMap_cons]
    have hl := h l (by simp)
    have hrest : ∀ l ∈ rest, ∀ b ∈ l, b ≠ 13 ∧ b ≠ 10 := fun l' hl' => h l' (by simp [hl'])
    -- consume the clean bytes of l
    have step : ∀ (l : Bytes) (cur tail : Bytes), (∀ b ∈ l, b ≠ 13 ∧ b ≠ 10) →
        splitCRLF cur (l ++ [13] ++ tail) = (cur ++ l) :: splitCRLF [] tail := by
      intro l
      induction l with
      | nil => intro cur tail _; simp [splitCRLF]
      | cons x xs ihx =>
        intro cur tail hx
        have hx0 := hx x (by simp)
        have : ¬ (x = 13 ∨ x = 10) := by omega
        simp only [List.cons_append, splitCRLF, if_neg this]
        have := ihx (cur ++ [x]) tail (fun b hb => hx b (by simp [hb]))
        simp only [List.append_assoc, List.cons_append, List.nil_append] at this ⊢
        exact this
    rw [step l cur _ hl, ih hrest []]
    cases rest with
    | nil => simp
    | cons r rs => simp

theorem universal_no_cr : ∀ (s : Str), 13 ∉ universalNewlines s := by
  intro s
  induction s using universalNewlines.induct with
  | case1 => simp [universalNewlines]
  | case2 rest ih => simp [universalNewlines, ih]
  | case3 rest _ ih => simp [universalNewlines, ih]
  | case4 c rest h1 h2 ih =>
    have hc : c ≠ 13 := h2
    rw [universalNewlines.eq_4 c rest h1 h2]
    simp [ih]; omega

theorem isSpacePy_lf : isSpacePy 10 = true := by decide
theorem isSpacePy_cr : isSpacePy 13 = true := by decide

/-- lines produced by `splitKeepNL` hold LF at most as their last element -/
theorem splitKeepNL_go_shape (s : Str) : ∀ (cur : Str), 10 ∉ cur →
    ∀ l ∈ splitKeepNL.go cur s, ∃ body, 10 ∉ body ∧ (l = body ∨ l = body ++ [10]) ∧ (∀ b ∈ body, b ∈ cur ∨ b ∈ s) := by
  induction s with
  | nil =>
    intro cur hc l hl
    simp only [splitKeepNL.go] at hl
    split at hl
    · simp at hl
    · simp only [List.mem_singleton] at hl
      exact ⟨cur.reverse, by simpa using hc, Or.inl hl, by intro b hb; left; simpa using hb⟩
  | cons c cs ih =>
    intro cur hc l hl
    simp only [splitKeepNL.go] at hl
    by_cases h10 : c = 10
    · simp only [h10, beq_self_eq_true, if_true, List.mem_cons] at hl
      rcases hl with h | h
      · refine ⟨cur.reverse, by simpa using hc, Or.inr ?_, by intro b hb; left; simpa using hb⟩
        rw [h]; simp
      · obtain ⟨body, hb1, hb2, hb3⟩ := ih [] (by simp) l h
        exact ⟨body, hb1, hb2, by intro b hb; rcases hb3 b hb with h | h; simp at h; right; simp [h]⟩
    · have : (c == 10) = false := by simpa using h10
      simp only [this] at hl
      obtain ⟨body, hb1, hb2, hb3⟩ := ih (c :: cur) (by simp; exact ⟨fun h => h10 h.symm, hc⟩) l hl
      refine ⟨body, hb1, hb2, ?_⟩
      intro b hb
      rcases hb3 b hb with h | h
      · simp only [List.mem_cons] at h
        rcases h with h | h
        · right; simp [h]
        · left; exact h
      · right; simp [h]

theorem rstrip_clean (body : Str) (hb : 10 ∉ body) (hr : 13 ∉ body) (l : Str)
    (hl : l = body ∨ l = body ++ [10]) : ∀ b ∈ norm l, b ≠ 13 ∧ b ≠ 10 := by
  have hsub : ∀ b ∈ rstripBy isSpacePy l, b ∈ body := by
    intro b hbm
    unfold rstripBy at hbm
    rcases hl with h | h
    · rw [h] at hbm
      have := List.dropWhile_sublist (p := isSpacePy) (l := body.reverse)
      have := this.subset (by simpa using hbm)
      simpa using this
    · rw [h] at hbm
      simp only [List.reverse_append, List.reverse_cons, List.reverse_nil, List.nil_append,
        List.cons_append, List.dropWhile, isSpacePy_lf, List.mem_reverse] at hbm
      have := (List.dropWhile_sublist (p := isSpacePy) (l := body.reverse)).subset hbm
      simpa using this
  intro b hbm
  simp only [norm, List.mem_filter] at hbm
  have := hsub b hbm.1
  constructor
  · intro h; subst h; exact hr this
  · intro h; subst h; exact hb this

theorem norm_lines_clean (text : Str) : ∀ l ∈ (readlines text).map norm, ∀ b ∈ l, b ≠ 13 ∧ b ≠ 10 := by
  intro l hl
  simp only [List.mem_map] at hl
  obtain ⟨line, hline, rfl⟩ := hl
  unfold readlines splitKeepNL at hline
  obtain ⟨body, hb1, hb2, hb3⟩ := splitKeepNL_go_shape (universalNewlines text) [] (by simp) line hline
  have hr : 13 ∉ body := by
    intro h
    rcases hb3 13 h with h' | h'
    · simp at h'
    · exact universal_no_cr text h'
  exact rstrip_clean body hb1 hr line hb2

/-- **C15 (round trip)**: listing → ASCII BASIC → listing returns the listing's non-blank
    lines (right-trimmed, 7-bit), in order, each followed by the line ending. -/
theorem roundtrip (dos : Bool) (text : Str) :
    toListing dos (toAsciiBasic text)
      = (((readlines text).map norm).filter (· ≠ [])).flatMap (· ++ (if dos then [13, 10] else [10])) := by
  rw [to_listing_eq_spec, to_basic_shape]
  unfold specToListing
  have hclean := norm_lines_clean text
  have e : (readlines text).flatMap (fun l => norm l ++ [13]) = ((readlines text).map norm).flatMap (· ++ [13]) := by
    simp [List.flatMap_map]
  rw [e]
  generalize (readlines text).map norm = ls at hclean ⊢
  have h13 : splitCRLF [] (13 :: ls.flatMap (· ++ [13])) = [] :: splitCRLF [] (ls.flatMap (· ++ [13])) := by
    simp [splitCRLF]
  rw [h13, split_of_lines ls hclean []]
  cases ls with
  | nil => simp
  | cons l rest =>
    simp only [List.nil_append]
    rw [show [] :: l :: (rest ++ [[]]) = ([] :: l :: rest) ++ [[]] from rfl, List.filter_append]
    simp


/-! ### at the command line (Model/ConvCli.lean: the `run()` of the two converters) -/

/-- **C15 (the two commands, file to file)**: `moto_lst2bas name.lst,a` reads the listing `name.lst` and writes `name.bas` beside
    it — the ASCII BASIC form: a 7-bit file that starts with CR and holds each source line, right-trimmed, followed by CR — and
    nothing else; `moto_bas2lst name.bas,a [--dos]` on that file then writes `name.lst` — the listing's non-blank lines, in order,
    each followed by the selected line ending.  Extension and option in either letter case; `stem` is any path prefix, dots and
    directories included. -/
theorem cli_roundtrip (w : Str → Option Conv.Listing) (stem lst optA bas optB text : Str) (dos : Bool)
    (hlst : upper lst = Conv.str "LST") (hA : upper optA = Conv.str ",A") (hbas : upper bas = Conv.str "BAS") (hB : upper optB = Conv.str ",A")
    (hw : w (stem ++ 46 :: lst) = some (.text text)) :
    Conv.lst2basOne w (stem ++ 46 :: (lst ++ optA)) = { writes := [(stem ++ 46 :: Conv.str "bas", toAsciiBasic text)] }
    ∧ ∀ wb : Str → Option Bytes, wb (stem ++ [46] ++ bas) = some (toAsciiBasic text) →
        Conv.bas2lstOne wb dos (stem ++ [46] ++ (bas ++ optB))
          = { writes := [(stem ++ [46] ++ Conv.str "lst",
                (((readlines text).map norm).filter (· ≠ [])).flatMap (· ++ (if dos then [13, 10] else [10])))] } := by
  refine ⟨Conv.lst2bas_ascii w stem lst optA text hlst hA hw, ?_⟩
  intro wb hwb
  rw [Conv.bas2lst_ascii wb dos (stem ++ [46]) bas optB (toAsciiBasic text) hbas hB hwb, roundtrip]

/-- **several sources** (the loop of either converter): when every source converts, the run writes the results of all of them in the
    order given and returns 0; otherwise the first source that fails ends the run — the results of the sources before it stay, what
    the failing one left (an empty target when the listing could not be read or numbered) stays, the sources after it are not
    touched -/
theorem cli_sources_in_order (one : Str → Conv.Out) :
    (∀ srcs : List Str, (∀ s ∈ srcs, (one s).err = none) →
        Conv.runSeq one srcs = { writes := srcs.flatMap (fun s => (one s).writes), err := none })
    ∧ (∀ (pre post : List Str) (s : Str) (e : PyErr), (∀ x ∈ pre, (one x).err = none) → (one s).err = some e →
        Conv.runSeq one (pre ++ s :: post) = { writes := pre.flatMap (fun x => (one x).writes) ++ (one s).writes, err := some e }) :=
  ⟨Conv.runSeq_all_ok one, fun pre post s e hpre hs => Conv.runSeq_first_failure one s e post hs pre hpre⟩

/-- the hypotheses are met -/
example : Conv.lst2basRun (fun p => if p = Conv.str "d.x/p.Lst" then some (.text (Conv.str "10 a  \n\n20 b\n")) else none) [Conv.str "d.x/p.Lst,A"]
    = { writes := [(Conv.str "d.x/p.bas", [13, 49, 48, 32, 97, 13, 13, 50, 48, 32, 98, 13])] } := by decide +kernel

end Moto.C15
