/-
  C11 — both disk flavours hold the same disk; load/save is identity; geometry is fixed.
  (the geometry, setter and load-then-save theorems are in Proofs/DiskGeometry.lean, namespace Moto.C11)
-/
import MotoModel.Proofs.DiskGeometry
import MotoModel.Proofs.DiskSaveLoad
import MotoModel.Proofs.DiskLoadSaveSd
namespace Moto.C11
open Moto Moto.Disk

/-- **C11 (save then load)**: a four-sided image in memory, serialised in either flavour and
    loaded again, is the same image: the archive carries the sector payloads and nothing else. -/
theorem save_then_load (fl : Flavour) (img : Image) (hw : WFImage img) (h4 : img.length = 4) :
    load fl (save fl img) = .ok img := load_save fl img hw h4

/-- **C11 (flavours hold the same disk)**: what is loaded back from the .fd serialisation and from
    the .sd serialisation of the same image is the same image. -/
theorem both_flavours_same_disk (img : Image) (hw : WFImage img) (h4 : img.length = 4) :
    load .fd (save .fd img) = load .sd (save .sd img) := by
  rw [load_save .fd img hw h4, load_save .sd img hw h4]

end Moto.C11
