/-
  C10 — disk side placement (--eos, overflow to next side) matches report and image.
  (first layer: the cursor of the injector state machine)
-/
import MotoModel.Proofs.DiskSector
import MotoModel.Proofs.DiskHistory
import MotoModel.Proofs.DiskRuns
import MotoModel.Proofs.DiskPlace
import MotoModel.Proofs.DiskSections
import MotoModel.Proofs.DiskPerSide
import MotoModel.Proofs.DiskOrder
import MotoModel.Proofs.DiskSectionsOrder
namespace Moto.C10
open Moto Moto.Disk

/-- sides strictly before `k` are the same in both images -/
def SidesBeforeKept (k : Nat) (a b : Image) : Prop := ∀ i < k, b.getD i [] = a.getD i []

/-- **C10 (a file moves forward only)**: storing one file never moves the cursor back, keeps the
    image length, and never touches a side the cursor has left. -/
theorem injWriteFile_cursor (name ext : Str) (kind flag : Nat) (data : Bytes) (fuel : Nat) :
    ∀ (st st' : Inj), injWriteFile name ext kind flag data fuel st = .ok st' →
      st.cur ≤ st'.cur ∧ st'.img.length = st.img.length ∧ SidesBeforeKept st.cur st.img st'.img := by
  induction fuel with
  | zero => intro st st' h; simp [injWriteFile] at h; subst h; exact ⟨Nat.le_refl _, rfl, fun _ _ => rfl⟩
  | succ f ih =>
    intro st st' h
    simp only [injWriteFile] at h
    split at h
    · cases h; exact ⟨Nat.le_refl _, rfl, fun _ _ => rfl⟩
    · split at h
      · cases h
        refine ⟨Nat.le_refl _, by simp, ?_⟩
        intro i hi
        simp only [List.getD_eq_getElem?_getD]
        rw [List.getElem?_set_ne (by omega)]
      · rename_i sd _
        cases hu : usageOfSide (st.img.set st.cur sd) st.cur with
        | error e => rw [hu] at h; cases h
        | ok u =>
          rw [hu] at h
          simp only at h
          split at h
          · cases h
            refine ⟨by simp, by simp, ?_⟩
            intro i hi
            simp only [List.getD_eq_getElem?_getD]
            rw [List.getElem?_set_ne (by omega)]
          · obtain ⟨h1, h2, h3⟩ := ih _ st' h
            simp only at h1 h2 h3
            refine ⟨by omega, by rw [h2]; simp, ?_⟩
            intro i hi
            rw [h3 i (by omega)]
            simp only [List.getD_eq_getElem?_getD]
            rw [List.getElem?_set_ne (by omega)]
      · cases h

theorem injFile_cursor (w : Tape.World) (src : Str) (st st' : Inj) (p : Bool) (h : injFile w src st = .ok (st', p)) :
    st.cur ≤ st'.cur ∧ st'.img.length = st.img.length ∧ SidesBeforeKept st.cur st.img st'.img := by
  unfold injFile at h
  dsimp only at h
  cases hw : w (splitSource src).2.2.2 with
  | none => rw [hw] at h; cases h; exact ⟨Nat.le_refl _, rfl, fun _ _ => rfl⟩
  | some data =>
    rw [hw] at h
    dsimp only at h
    split at h
    · cases h; exact ⟨Nat.le_refl _, rfl, fun _ _ => rfl⟩
    · split at h
      · cases h; exact ⟨Nat.le_refl _, rfl, fun _ _ => rfl⟩
      · split at h
        · cases h; exact ⟨Nat.le_refl _, rfl, fun _ _ => rfl⟩
        · cases hf : injWriteFile (splitSource src).1 _ _ _ data 4 st with
          | error e => rw [hf] at h; cases h
          | ok st1 =>
            rw [hf] at h
            cases h
            exact injWriteFile_cursor _ _ _ _ _ 4 st st' hf

/-- **C10 (cursor monotone over a whole batch)** -/
theorem injLoop_cursor (w : Tape.World) (srcs : List Str) : ∀ (st st' : Inj), injLoop w srcs st = .ok st' →
    st.cur ≤ st'.cur ∧ st'.img.length = st.img.length ∧ SidesBeforeKept st.cur st.img st'.img := by
  induction srcs with
  | nil => intro st st' h; simp [injLoop] at h; subst h; exact ⟨Nat.le_refl _, rfl, fun _ _ => rfl⟩
  | cons src rest ih =>
    intro st st' h
    simp only [injLoop] at h
    split at h
    · -- end-of-side marker
      cases hu : usageOfSide st.img st.cur with
      | error e => rw [hu] at h; cases h
      | ok u =>
        rw [hu] at h
        dsimp only at h
        split at h
        · cases h; exact ⟨by simp, rfl, fun _ _ => rfl⟩
        · obtain ⟨h1, h2, h3⟩ := ih _ st' h
          exact ⟨by simp only at h1; omega, h2, fun i hi => h3 i (by simp only; omega)⟩
    · cases hf : injFile w src st with
      | error e => rw [hf] at h; cases h
      | ok r =>
        obtain ⟨st1, p⟩ := r
        rw [hf] at h
        dsimp only at h
        obtain ⟨a1, a2, a3⟩ := injFile_cursor w src st st1 p hf
        split at h
        · cases h; exact ⟨a1, a2, a3⟩
        · obtain ⟨b1, b2, b3⟩ := ih st1 st' h
          exact ⟨by omega, by rw [b2, a2], fun i hi => by rw [b3 i (by omega), a3 i hi]⟩

/-- **C10 (the image is always written)**: whenever the batch is processed to its end — however
    many files were refused or dropped after the fourth side — exactly one archive write happens. -/
theorem always_saved (fl : Flavour) (w : Tape.World) (verbose : Bool) (archive : Str) (img : Image) (srcs : List Str)
    (h : (performOn fl w verbose archive img srcs).status = .ret 0) :
    ∃ bytes, (performOn fl w verbose archive img srcs).writes = [(archive, bytes)] := by
  unfold performOn at h ⊢
  by_cases hlt : img.length < 4
  · simp [hlt] at h
  · simp only [hlt, if_false] at h ⊢
    cases hp : performCore w verbose img srcs with
    | error e => rw [hp] at h; obtain ⟨e1, o⟩ := e; simp at h
    | ok st => exact ⟨_, rfl⟩

/-- **C10 (the image is still written and every side remains a valid file system)**: on a
    consistent four-sided image, whatever the batch — sources dropped after the fourth side, files
    refused on every side, markers beyond the last side — the invocation returns 0 and writes
    exactly one archive, the serialisation of four consistent sides. -/
theorem always_completes (fl : Flavour) (w : Tape.World) (verbose : Bool) (archive : Str) (img : Image) (srcs : List Str)
    (himg : ImgOk img) (hs : ∀ src ∈ srcs, CleanSrc src) :
    ∃ img', ImgOk img' ∧ (performOn fl w verbose archive img srcs).status = .ret 0
      ∧ (performOn fl w verbose archive img srcs).writes = [(archive, save fl img')] := by
  obtain ⟨st, hst, hok⟩ := performCore_ok w verbose img srcs himg hs
  refine ⟨st.img, hok, ?_, ?_⟩
  · unfold performOn
    rw [if_neg (by rw [himg.1]; omega), hst]
  · unfold performOn
    rw [if_neg (by rw [himg.1]; omega), hst]

theorem create_always_completes (fl : Flavour) (w : Tape.World) (verbose : Bool) (archive : Str) (srcs : List Str)
    (hs : ∀ src ∈ srcs, CleanSrc src) :
    ∃ img', ImgOk img' ∧ (create fl w verbose archive srcs).status = .ret 0
      ∧ (create fl w verbose archive srcs).writes = [(archive, save fl img')] :=
  always_completes fl w verbose archive _ srcs fresh_img_ok hs

/-- **C10 (never split across sides, never stored twice)**: one file offered to the injector — with
    all its retries on the following sides — either leaves every catalog slot of every side as it
    was (it fitted nowhere), or appears in exactly one slot of one side, which held nothing, with
    its whole content; every other slot of every side is as it was. -/
theorem file_stored_in_one_place (name ext : Str) (kind flag : Nat) (data : Bytes) (hname : ∀ c ∈ name, c ≠ 0xFF)
    (st : Inj) (h : ImgOk st.img) :
    ∃ st', injWriteFile name ext kind flag data 4 st = .ok st' ∧ ImgOk st'.img ∧ OneStep st.img st'.img name ext kind flag data :=
  injWriteFile_step name ext kind flag data hname 4 st h

/-- **C10 (the placement rule)**: a file offered while the cursor is on side `cur` is stored on
    the first side `k ≥ cur` that has enough free blocks *and* a free catalog entry (`ImgFits`), the
    cursor stops on `k`, and the file is there with its whole content; when no side from `cur` on
    can take it, it is stored nowhere, every catalog slot of every side is as before, and the cursor
    ends past the fourth side (the remaining sources are dropped). -/
theorem placement_rule (name ext : Str) (kind flag : Nat) (data : Bytes) (hname : ∀ c ∈ name, c ≠ 0xFF) (st : Inj) (h : ImgOk st.img) :
    ∃ st', injWriteFile name ext kind flag data 4 st = .ok st' ∧
      ((∃ k, st.cur ≤ k ∧ k < 4 ∧ ImgFits st.img k data.length
          ∧ (∀ k', st.cur ≤ k' → k' < k → ¬ ImgFits st.img k' data.length) ∧ st'.cur = k
          ∧ ∃ i0 r, i0 < 112 ∧ imgFileAt st.img k i0 = none ∧ imgFileAt st'.img k i0 = some (r, data))
       ∨ ((∀ k', st.cur ≤ k' → k' < 4 → ¬ ImgFits st.img k' data.length) ∧ 4 ≤ st'.cur
          ∧ ∀ k j, k < 4 → j < 112 → imgFileAt st'.img k j = imgFileAt st.img k j)) :=
  injWriteFile_place name ext kind flag data hname 4 st h (by omega)

/-- a side can take a file exactly when it has as many free blocks as the file needs and a catalog
    entry that is not live -/
theorem fits_means (sd : Side) (bat : List Nat) (n : Nat) :
    Fits sd bat n ↔ (reqBlocks n ≤ freeBlocks bat ∧ ∃ i, i < 112 ∧ ¬ liveData (slotData sd i)) := by
  unfold Fits CatalogFull
  constructor
  · rintro ⟨h1, h2⟩
    refine ⟨h1, ?_⟩
    apply Classical.byContradiction
    intro hne
    apply h2
    intro i hi
    apply Classical.byContradiction
    intro hl
    exact hne ⟨i, hi, hl⟩
  · rintro ⟨h1, i, hi, hl⟩
    exact ⟨h1, fun hfull => hl (hfull i hi)⟩

/-- **C10 (end-of-side marker)**: a marker moves the cursor to the next side and touches no side -/
theorem end_of_side_marker (w : Tape.World) (src : Str) (rest : List Str) (st : Inj) (h : ImgOk st.img)
    (hm : basename (upper src) = Tape.str "--EOS") (hn : st.cur + 1 < 4) :
    ∃ l', injLoop w (src :: rest) st = injLoop w rest { img := st.img, cur := st.cur + 1, l := l' } := by
  simp only [injLoop]
  rw [if_pos hm]
  obtain ⟨u, hu⟩ := usageOfSide_any h st.cur
  rw [hu]
  dsimp only
  rw [if_neg (by omega)]
  exact ⟨_, rfl⟩

/-- **C10 (the per-side sections of the report list files that the image holds on that side)**:
    `storedOn 0 (batchEvents …)` is the list of (side of the section, announcement) pairs of the
    create/add report, in order; every pair is honoured by the image the batch leaves: side `k` holds
    the file, in a slot that held nothing before, with the announced size and block count, under the
    entry bytes the tool writes for the announced name and extension (`IsRecordOf`) -/
theorem report_sections_match_image (w : Tape.World) (verbose : Bool) (img : Image) (srcs : List Str)
    (himg : ImgOk img) (hs : ∀ src ∈ srcs, CleanSrc src) :
    ∃ st, performCore w verbose img srcs = .ok st ∧ ImgOk st.img
      ∧ st.l = play (onBeginOfSide { processing := 2, verbose := verbose } 0) (batchEvents w srcs img)
      ∧ ∀ p ∈ storedOn 0 (batchEvents w srcs img), Honoured img st.img p := by
  obtain ⟨st, hst, hok, hhon⟩ := batch_sections w verbose img srcs himg hs
  exact ⟨st, hst, hok, performCore_events w verbose img srcs st hst, hhon⟩

/-- one offered file: announced stored in the section of side `k` exactly when the image receives
    it on side `k`; announced nowhere exactly when no slot of any side changes -/
theorem file_announced_where_stored (name ext : Str) (kind flag : Nat) (data : Bytes) (hname : ∀ c ∈ name, c ≠ 0xFF)
    (st : Inj) (h : ImgOk st.img) (hc : st.cur < 4) :
    ∃ st', injWriteFile name ext kind flag data 4 st = .ok st' ∧
      ((∃ k i0 r, k < 4 ∧ i0 < 112
          ∧ storedOn st.cur (fileEvents name ext kind flag data 4 st.img st.cur) = [(k, evOf name ext kind flag data)]
          ∧ imgFileAt st.img k i0 = none ∧ imgFileAt st'.img k i0 = some (r, data) ∧ st'.cur = k
          ∧ sideAfter st.cur (fileEvents name ext kind flag data 4 st.img st.cur) = k)
       ∨ (storedOn st.cur (fileEvents name ext kind flag data 4 st.img st.cur) = []
          ∧ ∀ k j, k < 4 → j < 112 → imgFileAt st'.img k j = imgFileAt st.img k j)) :=
  announced_where_stored name ext kind flag data hname st h hc

/-- **C10 (…exactly the files: nothing is stored without being announced)**: for every side, the
    number of announcements in that side's section of the create/add report equals the number of
    files the image gained on that side — catalog slots that held no file before the batch and hold
    one after it.  With `report_sections_match_image` (every announcement is a file of that side, in
    a slot that was empty): the section of a side lists the files the side received, and no other. -/
theorem sections_count_match_image (w : Tape.World) (verbose : Bool) (img : Image) (srcs : List Str)
    (himg : ImgOk img) (hs : ∀ src ∈ srcs, CleanSrc src) :
    ∃ st, performCore w verbose img srcs = .ok st ∧ ImgOk st.img
      ∧ ∀ k, k < 4 → announcedOn k (storedOn 0 (batchEvents w srcs img)) = newOn img st.img k :=
  batch_count w verbose img srcs himg hs

/-- **C10 (files are stored on the current side in the order given — one file)**: on a side whose live
    catalog entries are exactly the first `n`, a stored file takes entry `n`, right after the files stored
    before it (the live entries are then the first `n + 1`); a refused file leaves the first `n`. -/
theorem stored_file_is_appended {sd : Side} {bat : List Nat} {own : Nat → List Nat} (inv : SideInv sd bat own) (n : Nat) (hn : n ≤ 112)
    (hseq : Seq n sd) (content : Bytes) (name ext : Str) (kind flag : Nat) (hname : ∀ c ∈ name, c ≠ 0xFF) :
    (∃ sd', writeFile sd content name ext kind flag = .ok sd' ∧ n < 112 ∧ Seq (n + 1) sd'
        ∧ slotData sd' n = newRecord name ext kind flag ((chosen bat (reqBlocks content.length)).getD 0 0) (lastBytesOf content.length))
    ∨ (∃ sd' msg, writeFile sd content name ext kind flag = .raised (.valueError msg) sd' ∧ Seq n sd') :=
  writeFile_appends inv n hn hseq content name ext kind flag hname

/-- **C10 (… the whole `--create`)**: whatever the batch (any sources, sizes, markers, refusals, retries on
    the following sides), on every side of the image `--create` writes the live catalog entries are exactly
    the first `n` entries: no hole, every file appended after those stored before it on that side — catalog
    order, which is the order of `--list` and `--extract`, is the order in which the files were stored. -/
theorem created_catalogs_follow_storage_order (fl : Flavour) (w : Tape.World) (verbose : Bool) (archive : Str) (srcs : List Str)
    (hs : ∀ src ∈ srcs, CleanSrc src) :
    ∃ img, ImgOk img ∧ (create fl w verbose archive srcs).writes = [(archive, save fl img)]
      ∧ ∀ k, k < 4 → ∃ n, n ≤ 112 ∧ Seq n (img.getD k []) := by
  obtain ⟨st, hst, hok, hp⟩ := create_prefix w verbose srcs hs
  refine ⟨st.img, hok, ?_, hp⟩
  unfold create performOn; rw [if_neg (by simp), hst]

/-- **C10 (… and every later `--add`)**: adding any batch to the archive of an image whose catalogs have no
    hole (a created image, an image produced by earlier additions) yields an image whose catalogs have no
    hole: the files added are appended, on each side, after everything stored before. -/
theorem added_files_are_appended (fl : Flavour) (w : Tape.World) (verbose : Bool) (archive : Str) (img : Image) (srcs : List Str)
    (himg : ImgOk img) (hp : ∀ k, k < 4 → ∃ n, n ≤ 112 ∧ Seq n (img.getD k [])) (hs : ∀ src ∈ srcs, CleanSrc src) :
    ∃ img', ImgOk img' ∧ (add fl w verbose archive (save fl img) srcs).writes = [(archive, save fl img')]
      ∧ ∀ k, k < 4 → ∃ n, n ≤ 112 ∧ Seq n (img'.getD k []) := by
  obtain ⟨st, hst, hok, hp'⟩ := batch_prefix w verbose img srcs himg hp hs
  rw [add_on_saved fl w verbose archive img srcs himg]
  refine ⟨st.img, hok, ?_, hp'⟩
  unfold performOn; rw [if_neg (by rw [himg.1]; omega), hst]

/-- **C10 (the per-side sections of the report list exactly the files that the image holds on that side —
    as lists, in order)**: for `--create` with any source list there is a list `placed` of (side, source),
    a sub-sequence of the command line in its order with sides never decreasing, such that
    * the announcements of the report — the `endFile` events of `batchEvents`, of which the printed report is
      the replay (`C12.update_report_is_replay`), each taken with the side of the section it is printed in,
      in the order of the report — are exactly the sources of `placed`, with their sides, in that order;
    * side `k` of the written image holds, in catalog order, exactly the files of the sources placed on `k`,
      in that order.
    So section `k` of the report and side `k` of the image list the same sources in the same order. -/
theorem report_sections_list_the_files_in_order (fl : Flavour) (w : Tape.World) (verbose : Bool) (archive : Str) (srcs : List Str)
    (hs : ∀ src ∈ srcs, CleanSrc src) :
    ∃ (img : Image) (placed : List (Nat × Str)), ImgOk img
      ∧ (create fl w verbose archive srcs).writes = [(archive, save fl img)]
      ∧ (placed.map (·.2)).Sublist srcs ∧ (placed.map (·.1)).Pairwise (· ≤ ·) ∧ (∀ p ∈ placed, p.1 < 4)
      ∧ storedOn 0 (batchEvents w srcs ((List.replicate 4 blankSide).map initFileSystem)) = placed.map (fun p => (p.1, evSrc w p.2))
      ∧ ∀ k, k < 4 → FilesOf w (sideList (img.getD k [])) ((placed.filter (fun p => p.1 == k)).map (·.2)) := by
  have hp0 : AllPrefix ((List.replicate 4 blankSide).map initFileSystem) := by
    intro k hk
    rw [fresh_getD k hk]
    exact ⟨0, by omega, fresh_seq⟩
  obtain ⟨st, placed, hst, hok, _, h4, h5, h6, h7, h8⟩ := performCore_ordered_ev w verbose _ srcs fresh_img_ok hp0 hs
  refine ⟨st.img, placed, hok, ?_, h4, h5, h6, h8, ?_⟩
  · unfold create performOn; rw [if_neg (by simp), hst]
  · intro k hk
    obtain ⟨fs, hfs, hall⟩ := h7 k hk
    rw [fresh_getD k hk, sideList_fresh, List.nil_append] at hfs
    rw [hfs]; exact hall

/-- … and for `--add` on the archive of an image whose catalogs have no hole: the sections list, in order,
    the sources whose files each side gains after the files it held -/
theorem add_report_sections_list_the_files_in_order (fl : Flavour) (w : Tape.World) (verbose : Bool) (archive : Str) (img : Image)
    (srcs : List Str) (himg : ImgOk img) (hp : ∀ k, k < 4 → ∃ n, n ≤ 112 ∧ Seq n (img.getD k [])) (hs : ∀ src ∈ srcs, CleanSrc src) :
    ∃ (img' : Image) (placed : List (Nat × Str)), ImgOk img'
      ∧ (add fl w verbose archive (save fl img) srcs).writes = [(archive, save fl img')]
      ∧ (placed.map (·.2)).Sublist srcs ∧ (placed.map (·.1)).Pairwise (· ≤ ·) ∧ (∀ p ∈ placed, p.1 < 4)
      ∧ storedOn 0 (batchEvents w srcs img) = placed.map (fun p => (p.1, evSrc w p.2))
      ∧ ∀ k, k < 4 → ∃ fs, sideList (img'.getD k []) = sideList (img.getD k []) ++ fs
          ∧ FilesOf w fs ((placed.filter (fun p => p.1 == k)).map (·.2)) := by
  obtain ⟨st, placed, hst, hok, _, h4, h5, h6, h7, h8⟩ := performCore_ordered_ev w verbose img srcs himg hp hs
  rw [add_on_saved fl w verbose archive img srcs himg]
  refine ⟨st.img, placed, hok, ?_, h4, h5, h6, h8, h7⟩
  unfold performOn; rw [if_neg (by rw [himg.1]; omega), hst]

end Moto.C10
