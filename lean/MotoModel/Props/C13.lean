/-
  C13 — tokenized BASIC output is a well-formed MO5 program with the right token codes.
-/
import MotoModel.Model.Basic
import MotoModel.Model.Tape
import MotoModel.Spec.BasicRef
import MotoModel.Proofs.BasicCompose
import MotoModel.Proofs.BasicWords
import MotoModel.Proofs.BasicReference
import MotoModel.Proofs.BasicProgram
import MotoModel.Proofs.ConvCli
import MotoModel.Proofs.GenFn
namespace Moto.C13
open Moto Moto.Basic Moto.Spec

/-- the tool's token table (regenerated from the source on every run) is the MO5 table -/
theorem table_is_mo5 : Gen.Tokens.tokens = BasicRef.mo5Tokens := by decide +kernel

theorem else_needs_colon : Gen.Tokens.requireColon = [BasicRef.elseKw] := by decide

theorem program_base : Gen.Tokens.programBase = 0x25A4 := rfl

theorem special_chars : Gen.Tokens.specialChars = [46, 44, 40, 41, 58, 59, 32] := by decide

theorem literal_db_empty : Gen.Tokens.literalDbEmpty = true := rfl

/-- every code is a token byte (>= 0x80) or a two-byte FFxx function token -/
theorem codes_are_tokens : ∀ e ∈ BasicRef.mo5Tokens, (0x80 ≤ e.2 ∧ e.2 < 0xFF) ∨ (0xFF80 ≤ e.2 ∧ e.2 ≤ 0xFFFF) := by decide +kernel

/-- no two keywords share a code, no keyword is listed twice, none is empty -/
theorem codes_injective : (BasicRef.mo5Tokens.map (·.2)).Nodup := by decide +kernel
theorem keywords_distinct : (BasicRef.mo5Tokens.map (·.1)).Nodup := by decide +kernel
theorem no_empty_keyword : ∀ e ∈ BasicRef.mo5Tokens, e.1 ≠ [] := by decide +kernel

/-- keywords are printable upper-case ASCII without blank, quote or punctuation of the tokenizer -/
theorem keyword_chars : ∀ e ∈ BasicRef.mo5Tokens, ∀ c ∈ e.1, 33 ≤ c ∧ c < 97 ∧ c ≠ 34 ∧ (e.1.length > 1 → ¬ BasicRef.isPunct c = true) := by
  decide +kernel

/-- **C13 (every keyword alone)**: typed on its own, every keyword of the table is stored as its
    token — ELSE with the colon before it.  Finite check over the whole table, running the model. -/
theorem every_keyword_alone : ∀ e ∈ Gen.Tokens.tokens, encodeBody e.1 = BasicRef.keywordBytes e.1 := by decide +kernel

/-- … also in lower case -/
theorem every_keyword_alone_lower : ∀ e ∈ Gen.Tokens.tokens,
    encodeBody (e.1.map fun c => if 65 ≤ c ∧ c ≤ 90 then c + 32 else c) = BasicRef.keywordBytes e.1 := by decide +kernel

/-- … and the reference encoder agrees on them -/
theorem reference_on_keywords : ∀ e ∈ BasicRef.mo5Tokens, BasicRef.encodeRef e.1 = BasicRef.keywordBytes e.1 := by decide +kernel

/-! ### record structure -/

theorem u16_length (v : Nat) : (u16 v).length = 2 := rfl

/-- **C13 (structure)**: the file is FF, the 16-bit length of what follows, the records and a
    zero link. -/
theorem convert_shape (text : Str) (file : Bytes) (h : convert text = some file) :
    ∃ records, convertLines Gen.Tokens.programBase (readlines text) = some records
      ∧ file = 0xFF :: (u16 (records.length + 2) ++ records ++ [0, 0]) := by
  unfold convert at h
  cases hc : convertLines Gen.Tokens.programBase (readlines text) with
  | none => simp [hc] at h
  | some records =>
    simp only [hc, Option.some.injEq] at h
    exact ⟨records, rfl, by rw [← h]; simp [List.append_assoc]⟩

/-- one record: link = previous pointer + size of this record; line number; encoded text; zero -/
theorem convertLines_cons (ptr : Nat) (line : Str) (rest : List Str) (num : Nat) (body : Str) (more : Bytes)
    (hl : extractLineParts line = some (num, body))
    (hr : convertLines (ptr + (encodeBody body).length + 5) rest = some more) :
    convertLines ptr (line :: rest)
      = some (u16 (ptr + (encodeBody body).length + 5) ++ u16 num ++ encodeBody body ++ [0] ++ more) := by
  simp only [convertLines, hl, List.length_append, List.length_cons, List.length_nil]
  have e : ptr + ((encodeBody body).length + (0 + 1)) + 4 = ptr + (encodeBody body).length + 5 := by omega
  rw [e, hr]
  simp [List.append_assoc]

/-- the records appear in source order and there is one per line: the number of zero-terminated
    records equals the number of lines -/
theorem convertLines_none_iff (ptr : Nat) (lines : List Str) :
    (convertLines ptr lines).isSome ↔ ∀ l ∈ lines, (extractLineParts l).isSome := by
  induction lines generalizing ptr with
  | nil => simp [convertLines]
  | cons l ls ih =>
    simp only [convertLines, List.mem_cons, forall_eq_or_imp]
    cases hl : extractLineParts l with
    | none => simp
    | some p =>
      obtain ⟨num, body⟩ := p
      simp only [Option.isSome_some, true_and]
      rw [← ih (ptr + (encodeBody body ++ [0]).length + 4)]
      cases convertLines (ptr + (encodeBody body ++ [0]).length + 4) ls <;> simp

/-- regression witnesses of the repaired defects, and non-vacuity -/
example : convert (Tape.str "10 GOTO 10\n") = some [0xFF, 0, 12, 0x25, 0xAE, 0, 10, 0x87, 0xBB, 0x20, 0x31, 0x30, 0, 0, 0] := by decide
example : encodeBody (Tape.str "TOTO=1") = [0xBB, 0xBB, 0xD4, 0x31] := by decide

/-! ### statements and delimited keywords -/

/-- every keyword followed by any of the special characters (. , ( ) : blank) is stored as its token
    followed by that character — whole table x all six characters, running the model in the kernel -/
theorem keyword_then_separator : ∀ e ∈ Gen.Tokens.tokens, ∀ s ∈ Gen.Tokens.specialChars,
    encodeBody (e.1 ++ [s]) = BasicRef.keywordBytes e.1 ++ [s] := by decide +kernel

theorem no_quote_stays_outside (s : Str) (h : 34 ∉ s) : ∀ (c : Ctx), (s.foldl parseChar (c, false)).2 = false := by
  induction s with
  | nil => intro c; rfl
  | cons ch rest ih =>
    intro c
    simp only [List.foldl_cons]
    have hq : ch ≠ 34 := fun e => h (by simp [e])
    have h2 := special_lit c ch hq false
    have : parseChar (c, false) ch = ((parseChar (c, false) ch).1, false) := Prod.ext rfl h2
    rw [this]
    exact ih (fun hm => h (by simp [hm])) _

/-- a piece of a line that ends, outside a string literal, with a special character -/
def Segment (seg : Str) : Prop :=
  ∃ a0 s, seg = a0 ++ [s] ∧ isSpecial s = true ∧ s ≠ 34 ∧ (a0.foldl parseChar ({}, false)).2 = false

/-- **C13 (compositionality)**: a line cut into pieces that each end, outside a string literal, with
    a special character — in particular the statements of a line, which end with ':' — is encoded
    piece by piece: nothing already encoded is revisited, no token straddles a special character. -/
theorem pieces_encode_independently (segs : List Str) (last : Str) (h : ∀ seg ∈ segs, Segment seg) :
    encodeBody (segs.flatten ++ last) = (segs.map encodeBody).flatten ++ encodeBody last := by
  induction segs with
  | nil => simp
  | cons seg rest ih =>
    obtain ⟨a0, s, rfl, hs, hq, hlit⟩ := h seg (by simp)
    simp only [List.flatten_cons, List.map_cons, List.append_assoc]
    have := encodeBody_append a0 s (rest.flatten ++ last) hs hq hlit
    simp only [List.append_assoc] at this
    rw [this, ih (fun seg hseg => h seg (by simp [hseg]))]

theorem keyword_no_quote : ∀ e ∈ Gen.Tokens.tokens, 34 ∉ e.1 := by decide +kernel

/-- **C13 (delimited keywords)**: any sequence of keywords, each followed by a special character, is
    stored as the sequence of their tokens, each followed by that character -/
theorem delimited_keywords (kws : List (Str × Nat)) (h : ∀ p ∈ kws, (∃ e ∈ Gen.Tokens.tokens, e.1 = p.1) ∧ p.2 ∈ Gen.Tokens.specialChars) :
    encodeBody (kws.flatMap fun p => p.1 ++ [p.2]) = kws.flatMap fun p => BasicRef.keywordBytes p.1 ++ [p.2] := by
  have hseg : ∀ seg ∈ kws.map (fun p => p.1 ++ [p.2]), Segment seg := by
    intro seg hm
    obtain ⟨p, hp, rfl⟩ := List.mem_map.mp hm
    obtain ⟨⟨e, he, hep⟩, hsp⟩ := h p hp
    refine ⟨p.1, p.2, rfl, ?_, ?_, ?_⟩
    · unfold isSpecial; simpa using hsp
    · intro e34
      rw [e34] at hsp
      revert hsp; decide
    · exact no_quote_stays_outside p.1 (hep ▸ keyword_no_quote e he) _
  have := pieces_encode_independently (kws.map (fun p => p.1 ++ [p.2])) [] hseg
  simp only [List.append_nil, List.map_map] at this
  rw [List.flatMap_def, this]
  have hnil : encodeBody [] = [] := by decide
  rw [hnil, List.append_nil, List.flatMap_def]
  congr 1
  apply List.map_congr_left
  intro p hp
  obtain ⟨⟨e, he, hep⟩, hsp⟩ := h p hp
  simp only [Function.comp]
  rw [← hep]
  exact keyword_then_separator e he p.2 hsp

/-! ### lines made of keywords, inert words and string literals -/

/-- a piece of a line, each followed by a special character: a keyword; a word made of characters
    that occur in no keyword (numbers, `J`, `Z`, `#`, `%`, `&`, `!`, `@`, `_` …); a string literal -/
inductive Piece where
  | kw (k : Str) (s : Nat)
  | word (w : Str) (s : Nat)
  | lit (l : Str) (s : Nat)

def Piece.text : Piece → Str
  | .kw k s => k ++ [s]
  | .word w s => w ++ [s]
  | .lit l s => [34] ++ l ++ [34] ++ [s]

/-- what the reference stores for the piece: the token of the keyword, the word in upper case, the
    literal verbatim -/
def Piece.code : Piece → Bytes
  | .kw k s => BasicRef.keywordBytes k ++ [s]
  | .word w s => upper w ++ [s]
  | .lit l s => [34] ++ l ++ [34] ++ [s]

def Piece.ok : Piece → Prop
  | .kw k s => (∃ e ∈ Gen.Tokens.tokens, e.1 = k) ∧ s ∈ Gen.Tokens.specialChars
  | .word w s => (∀ c ∈ w, InertChar c) ∧ s ∈ Gen.Tokens.specialChars
  | .lit l s => 34 ∉ l ∧ s ∈ Gen.Tokens.specialChars

theorem special_facts (s : Nat) (hs : s ∈ Gen.Tokens.specialChars) : isSpecial s = true ∧ s ≠ 34 := by
  constructor
  · unfold isSpecial; simpa using hs
  · intro e; rw [e] at hs; revert hs; decide

theorem piece_segment (p : Piece) (h : p.ok) : Segment p.text := by
  cases p with
  | kw k s =>
    obtain ⟨⟨e, he, hek⟩, hs⟩ := h
    obtain ⟨h1, h2⟩ := special_facts s hs
    exact ⟨k, s, rfl, h1, h2, no_quote_stays_outside k (hek ▸ keyword_no_quote e he) _⟩
  | word w s =>
    obtain ⟨hw, hs⟩ := h
    obtain ⟨h1, h2⟩ := special_facts s hs
    exact ⟨w, s, rfl, h1, h2, no_quote_stays_outside w (fun hm => (hw 34 hm).1 rfl) _⟩
  | lit l s =>
    obtain ⟨hl, hs⟩ := h
    obtain ⟨h1, h2⟩ := special_facts s hs
    exact ⟨[34] ++ l ++ [34], s, rfl, h1, h2, literal_closed l hl⟩

theorem piece_code (p : Piece) (h : p.ok) : encodeBody p.text = p.code := by
  cases p with
  | kw k s =>
    obtain ⟨⟨e, he, hek⟩, hs⟩ := h
    subst hek
    exact keyword_then_separator e he s hs
  | word w s => exact inert_word w h.1 s h.2
  | lit l s => exact literal_then_separator l h.1 s h.2

/-- **C13 (simple lines)**: every line made of keywords, words of characters that occur in no
    keyword (numbers in particular) and string literals, each followed by a special character, is
    stored as: the token of each keyword, each word in upper case, each literal verbatim, the
    special characters in between -/
theorem simple_line (ps : List Piece) (h : ∀ p ∈ ps, p.ok) :
    encodeBody (ps.flatMap Piece.text) = ps.flatMap Piece.code := by
  have := pieces_encode_independently (ps.map Piece.text) [] (by
    intro seg hseg
    obtain ⟨p, hp, rfl⟩ := List.mem_map.mp hseg
    exact piece_segment p (h p hp))
  simp only [List.append_nil, List.map_map] at this
  have hnil : encodeBody [] = [] := by decide
  rw [List.flatMap_def, this, hnil, List.append_nil, List.flatMap_def]
  congr 1
  apply List.map_congr_left
  intro p hp
  exact piece_code p (h p hp)

/-- non-vacuity: `NEXT 100:PRINT "a:b" ` is such a line (without its line number) -/
example : (∀ p ∈ [Piece.kw (Tape.str "NEXT") 32, Piece.word (Tape.str "100") 58, Piece.kw (Tape.str "PRINT") 32, Piece.lit (Tape.str "a:b") 32], p.ok) := by
  intro p hp
  simp only [List.mem_cons, List.mem_nil_iff, or_false] at hp
  rcases hp with rfl | rfl | rfl | rfl
  · exact ⟨isToken_mem' _ (by decide +kernel), by decide⟩
  · refine ⟨?_, by decide⟩
    intro c hc
    have : c = 49 ∨ c = 48 := by revert hc; simp [Tape.str]
    rcases this with rfl | rfl <;> exact ⟨by decide, by decide, by decide +kernel⟩
  · exact ⟨isToken_mem' _ (by decide +kernel), by decide⟩
  · exact ⟨by decide, by decide⟩

/-! ### every delimited line -/

/-- **C13 (the bytes equal those of the reference encoder)**: for *every* line text in the domain of
    the property — every word outside string literals (maximal run of characters other than
    . , ( ) : blank, the one-character operator tokens and the double quote, taken in upper case) is
    exactly a keyword or contains no keyword — the tokenizer stores exactly what the reference
    encoder `Spec.BasicRef.encodeRef` stores: the token of each keyword (ELSE after a colon), every
    other word in upper case, the operators as their tokens, punctuation and blanks as they are,
    string literals verbatim (an unterminated one up to the end of the line).  No bound on the length,
    the number of words, the spacing, or the kind of separator on either side of a word.
    (Proofs/BasicDelimited.lean, Proofs/BasicReference.lean: the states of the tokenizer at the start
    and at the end of a word, what each separator does from there; the five keywords that begin
    with a shorter keyword are evaluated in the kernel.) -/
theorem delimited_line (body : Str) (h : BasicRef.delimited body = true) : encodeBody body = BasicRef.encodeRef body :=
  encodeBody_eq_encodeRef body h

/-- the record of a delimited line holds the reference encoding of its text -/
theorem delimited_record (ptr : Nat) (line : Str) (rest : List Str) (num : Nat) (body : Str) (more : Bytes)
    (hl : extractLineParts line = some (num, body)) (hd : BasicRef.delimited body = true)
    (hr : convertLines (ptr + (BasicRef.encodeRef body).length + 5) rest = some more) :
    convertLines ptr (line :: rest)
      = some (u16 (ptr + (BasicRef.encodeRef body).length + 5) ++ u16 num ++ BasicRef.encodeRef body ++ [0] ++ more) := by
  rw [← delimited_line body hd] at hr ⊢
  exact convertLines_cons ptr line rest num body more hl hr

/-- non-vacuity: lines of the domain, with keywords after a pending operator, before a literal, at
    the end of the line, identifiers that hold keyword letters, an unterminated literal -/
example : BasicRef.delimited (Tape.str "if a$=\"x\"+inkey$ then b= -len\"ab\":next else print \"bye") = true := by decide +kernel
example : BasicRef.delimited (Tape.str "TOTAL=1") = false := by decide +kernel

/-- regression witnesses of the defect repaired by `commitAsToken` (F17): a keyword behind a pending
    operator, at the end of the line and before a literal -/
example : encodeBody (Tape.str "A =PRINT") = [0x41, 0x20, 0xD4, 0xAB] := by decide +kernel
example : encodeBody (Tape.str "A$=\"X\"+INKEY$") = [0x41, 0x24, 0xD4, 0x22, 0x58, 0x22, 0xC7, 0xFF, 0xA0] := by decide +kernel
example : encodeBody (Tape.str "(+PRINT\"X\"") = [0x28, 0xC7, 0xAB, 0x22, 0x58, 0x22] := by decide +kernel

/-- the model's bounded recursion is the source's recursion: `appendAsToken` calls itself at most once
    (after the early-match branch the pending text is empty), so the fuel of the model is never what
    stops it -/
theorem tokenizer_recursion_bounded (k : Nat) (c : Ctx) (inp : Str) : appendAsTokenFuel (3 + k) c inp = appendAsToken c inp :=
  appendAsToken_fuel_enough k c inp

/-- **C13 (a structurally valid program image — the whole file, read by the independent parser)**: for every ASCII listing (code points 1..127: beyond ASCII the tool writes UTF-8 bytes, the model one element per code point)
    whose lines all carry a number, and whose image ends below address 65536 (the 16-bit address space of the machine:
    `programBase` + the file's length), the file `convert` writes is accepted by `Spec.BasicRef.parseProgram` — marker FF, a 16-bit
    length equal to the number of bytes that follow, records whose link pointers advance by each record's size from the program
    base, a final zero link — and its records are, in order, one per source line: the line's number (modulo 65536) and the encoded
    text of the line, the zero byte that ends a record being the first zero after its number (`encodeBody_nz`: the encoded text holds
    none).  Beyond 64 KB the two-byte fields of `convert_shape` wrap: the hypothesis is needed. -/
theorem convert_is_a_valid_program (text : Str) (parts : List (Nat × Str)) (file : Bytes)
    (hc : convert text = some file) (hp : (readlines text).map extractLineParts = parts.map some)
    (hnz : ∀ p ∈ parts, ∀ ch ∈ p.2, ch ≠ 0 ∧ ch < 128) (hsz : Gen.Tokens.programBase + file.length < 65536) :
    BasicRef.parseProgram file = some ⟨recsOf Gen.Tokens.programBase parts⟩ :=
  parseProgram_convert text parts file hc hp (fun p hp' ch hch => (hnz p hp' ch hch).1) hsz

/-- the hypotheses are met by an ordinary listing, and the parser does read it back -/
example : BasicRef.parseProgram ((convert (Tape.str "10 PRINT \"A\"\n20 GOTO 10\n")).getD [])
    = some ⟨recsOf Gen.Tokens.programBase [(10, Tape.str "PRINT \"A\""), (20, Tape.str "GOTO 10")]⟩ := by decide +kernel


/-- **C13, structure clause on the listing as it is typed**: lines `N text` (numbers 1..65535 — so that `recsOf`'s `N % 65536` is the number typed —, ASCII texts without NUL, CR, LF) joined by
    line feeds, the last with or without one: the converter accepts the listing and, while the image ends below address 65536, the
    file passes the independent structural validator `Spec.BasicRef.parseProgram` with one record per typed line, in order — link
    = address of the next record, the number typed, the encoded text. -/
theorem typed_listing_is_a_valid_program (finalLF : Bool) (ps : List (Nat × Str))
    (hn : ∀ p ∈ ps, 0 < p.1 ∧ p.1 < 65536) (hch : ∀ p ∈ ps, ∀ c ∈ p.2, c ≠ 0 ∧ c ≠ 10 ∧ c ≠ 13 ∧ c < 128) :
    ∃ file, convert (listingText finalLF ps) = some file ∧
      (Gen.Tokens.programBase + file.length < 65536 →
        BasicRef.parseProgram file = some ⟨recsOf Gen.Tokens.programBase ps⟩) := by
  have hp := parts_of_listing finalLF ps (fun p hp => (hn p hp).1) (fun p hp c hc => ⟨(hch p hp c hc).2.1, (hch p hp c hc).2.2.1⟩)
  obtain ⟨bytes, hb⟩ := convertLines_of_parts _ ps Gen.Tokens.programBase hp
  have hconv : convert (listingText finalLF ps) = some ([0xFF] ++ u16 (bytes ++ [0, 0]).length ++ (bytes ++ [0, 0])) := by
    simp only [convert, hb]
  refine ⟨_, hconv, ?_⟩
  intro hsz
  exact parseProgram_convert (listingText finalLF ps) ps _ hconv hp
    (fun p hp' c hc => (hch p hp' c hc).1) hsz


/-- **C13 (the file `moto_lst2bas x.lst` writes)**: for a listing the converter accepts, the command writes exactly one file —
    `x.bas` beside the listing, same stem as typed, extension `lst` in either letter case — whose bytes are `convert text`: the
    program image of `convert_is_a_valid_program`; a listing with a line that carries no number ends the run with a `ValueError`
    and an empty `x.bas` (`Conv.lst2bas_tokenized_refused`). -/
theorem cli_writes_the_program_beside_the_listing (w : Str → Option Conv.Listing) (stem ext text : Str) (file : Bytes)
    (hext : upper ext = Conv.str "LST") (hw : w (stem ++ 46 :: ext) = some (.text text)) (hc : convert text = some file) :
    Conv.lst2basOne w (stem ++ 46 :: ext) = { writes := [(stem ++ 46 :: Conv.str "bas", file)] } :=
  Conv.lst2bas_tokenized w stem ext text file hext hw hc


/-- **the integer encoders of the source are the model's** — `bytesFromUint` / `toUint8` / `toUint16` of tokenizer.py (token codes:
    one byte below 256, two bytes otherwise) and `ListingToTokenizedBasicConverter.toUint16` (link pointers, line numbers, the length
    field), translated expression by expression from their AST on every run (Gen/Fn.lean), equal `Basic.bytesFromUint` / `Basic.u16`
    for every argument -/
theorem generated_uint_encoders (v : Nat) :
    Gen.Fn.bytesFromUint v = bytesFromUint v ∧ Gen.Fn.toUint16 v = u16 v ∧ Gen.Fn.convToUint16 v = u16 v ∧ Gen.Fn.toUint8 v = [v % 256] :=
  ⟨GenFn.bytesFromUint_eq v, GenFn.toUint16_eq v, GenFn.convToUint16_eq v, GenFn.toUint8_eq v⟩

end Moto.C13
