import MotoModel.Model.Basic
import MotoModel.Spec.BasicRef
namespace Moto.C13
open Moto Moto.Basic
theorem placeholder : u16 0x25A4 = [0x25, 0xA4] := by decide
end Moto.C13
