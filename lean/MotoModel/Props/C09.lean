/-
  C09 — tape creation is all-or-nothing and never over- or under-estimates capacity.
-/
import MotoModel.Props.C03
import MotoModel.Proofs.TapeAny
namespace Moto.C09
open Moto Moto.Tape

theorem marker_length : Gen.Tape.writeMarker.length = 18 := by decide
theorem tape_size : Gen.Tape.tapeSize = 21504 := rfl

theorem frame_length (ty : Nat) (p : Bytes) : (Spec.K7.frame ty p).length = p.length + 3 := by
  simp [Spec.K7.frame]

theorem totalLen_frames (bs : List (Nat × Bytes)) :
    totalLen (bs.map (fun b => Spec.K7.frame b.1 b.2)) = (bs.map (fun b => 21 + b.2.length)).sum := by
  induction bs with
  | nil => rfl
  | cons b bs ih =>
    simp only [List.map_cons, totalLen_cons, List.sum_cons, ih, frame_length, marker_length]
    omega

/-- bytes needed on the tape = the property's count: 35 per leader, 21 per data / end block
    plus the payload -/
theorem needed_eq_encSize (w : World) (srcs : List Str) :
    totalLen (allRaw w srcs) = Spec.K7.encSize (srcs.map (C03.specFile w)) := by
  rw [C03.allRaw_eq_frames, totalLen_frames]
  induction srcs with
  | nil => rfl
  | cons s rest ih =>
    simp only [List.map_cons, List.flatMap_cons, List.map_append, List.sum_append, ih, Spec.K7.encSize, List.sum_cons]
    congr 1
    simp only [Spec.K7.fileBlocks, List.map_cons, List.map_append, List.map_map, List.sum_cons, List.sum_append,
      List.map_nil, List.sum_nil, List.length_nil]
    have : (Spec.K7.leaderPayload (C03.specFile w s)).length = 14 := (C03.leader_fields _).2.2
    rw [this]
    have e : ((fun b : Nat × Bytes => 21 + b.2.length) ∘ fun c => (1, c)) = fun c : Bytes => 21 + c.length := by
      funext c; rfl
    rw [e]
    omega

/-- **C09 (accepted)**: every list shorter than the tape is accepted: status 0, one write — the
    complete archive (C03's encoding of every source), 21504 bytes. -/
theorem accepted (w : World) (verbose : Bool) (archive : Str) (srcs : List Str) (hr : AllReadable w archive srcs)
    (hfit : Spec.K7.encSize (srcs.map (C03.specFile w)) < 21504) :
    (inject w verbose archive srcs).status = .ret 0
      ∧ (inject w verbose archive srcs).writes = [(archive, Spec.K7.tape (srcs.map (C03.specFile w)))]
      ∧ (inject w verbose archive srcs).mkdirs = [] := by
  have hfit' : totalLen (allRaw w srcs) < Gen.Tape.tapeSize := by rw [needed_eq_encSize]; exact hfit
  refine ⟨?_, (C03.created_tape_is_k7 w verbose archive srcs hr hfit').1, ?_⟩
  · obtain ⟨t', e, _⟩ := injectLoop_ok w archive srcs blank { verbose := verbose } [] [] hr written_blank (by simpa using hfit')
    simp [inject, e]
  · obtain ⟨t', e, _⟩ := injectLoop_ok w archive srcs blank { verbose := verbose } [] [] hr written_blank (by simpa using hfit')
    simp [inject, e]

/-- **C09 (refused)**: every list at least as long as the tape is refused with status 1 and the
    diagnostic, and nothing at all is written (a file already at the target path keeps its bytes). -/
theorem refused (w : World) (verbose : Bool) (archive : Str) (srcs : List Str) (hr : AllReadable w archive srcs)
    (hbig : ¬ Spec.K7.encSize (srcs.map (C03.specFile w)) < 21504) :
    (inject w verbose archive srcs).status = .ret 1
      ∧ (inject w verbose archive srcs).writes = []
      ∧ (inject w verbose archive srcs).mkdirs = []
      ∧ (inject w verbose archive srcs).out.getLast? = some tooMuch := by
  have hne : srcs ≠ [] := by
    intro h; subst h; simp [Spec.K7.encSize] at hbig
  have hbig' : ¬ (([] : Bytes).length + totalLen (allRaw w srcs) < Gen.Tape.tapeSize) := by
    rw [needed_eq_encSize, tape_size]; simpa using hbig
  obtain ⟨out', e⟩ := injectLoop_overflow w archive srcs blank { verbose := verbose } [] [] hr written_blank hne hbig'
  simp [inject, e]

/-- **C09 (capacity is exact)** -/
theorem accepted_iff (w : World) (verbose : Bool) (archive : Str) (srcs : List Str) (hr : AllReadable w archive srcs) :
    (inject w verbose archive srcs).writes ≠ [] ↔ Spec.K7.encSize (srcs.map (C03.specFile w)) < 21504 := by
  constructor
  · intro h
    apply Classical.byContradiction
    intro hn
    exact h (refused w verbose archive srcs hr hn).2.1
  · intro h
    rw [(accepted w verbose archive srcs hr h).2.1]; simp

/-- **C09 (missing source)**: an unreadable source at any position: non-zero outcome, nothing written. -/
theorem missing_source (w : World) (verbose : Bool) (archive : Str) (srcs : List Str)
    (hm : ∃ s ∈ srcs, w (classify s).2 = none) :
    (inject w verbose archive srcs).status ≠ .ret 0 ∧ (inject w verbose archive srcs).writes = [] := by
  have := injectLoop_missing w archive srcs blank { verbose := verbose } [] hm
  unfold inject
  generalize injectLoop w archive blank { verbose := verbose } [] srcs = r at this ⊢
  obtain ⟨st, out, t⟩ := r
  simp only at this
  obtain ⟨h1, h2⟩ := this
  subst h1
  exact ⟨h2, rfl⟩

/-- never a truncated or oversized tape: whatever happens, at most one write, of exactly 21504 bytes -/
theorem never_partial (w : World) (verbose : Bool) (archive : Str) (srcs : List Str) (hr : AllReadable w archive srcs) :
    (inject w verbose archive srcs).writes = [] ∨
    ∃ tape, (inject w verbose archive srcs).writes = [(archive, tape)] ∧ tape.length = 21504 := by
  by_cases h : Spec.K7.encSize (srcs.map (C03.specFile w)) < 21504
  · right
    have hfit' : totalLen (allRaw w srcs) < Gen.Tape.tapeSize := by rw [needed_eq_encSize]; exact h
    exact ⟨_, C03.created_tape_is_k7 w verbose archive srcs hr hfit'⟩
  · left; exact (refused w verbose archive srcs hr h).2.1

/-- **C09 (all or nothing — for every world and every source list, no hypothesis)**: whatever the files on
    disk (missing, unreadable as far as the model goes, of any size), whatever the source arguments (any
    names, the archive itself, non-ascii names, any number), `--create` either returns 0 and writes exactly
    one file, the archive, of exactly 21504 bytes, or returns another status (or raises) and writes nothing. -/
theorem all_or_nothing (w : World) (verbose : Bool) (archive : Str) (srcs : List Str) :
    ((inject w verbose archive srcs).status = .ret 0
      ∧ ∃ tape, (inject w verbose archive srcs).writes = [(archive, tape)] ∧ tape.length = 21504)
    ∨ ((inject w verbose archive srcs).status ≠ .ret 0 ∧ (inject w verbose archive srcs).writes = []) := by
  have h := injectLoop_any w archive srcs blank { verbose := verbose } [] (by simp [blank])
  unfold inject
  generalize injectLoop w archive blank { verbose := verbose } [] srcs = r at h ⊢
  obtain ⟨st, out, ot⟩ := r
  rcases h with ⟨h1, t', h2, h3⟩ | ⟨h1, h2⟩
  · left
    simp only at h1 h2 h3
    subst h2
    refine ⟨h1, t'.buf, rfl, ?_⟩
    rw [h3]
    simp [blank]
    rfl
  · right
    simp only at h1 h2
    subst h2
    exact ⟨h1, rfl⟩

/-- **C09 (success holds every source completely — one statement, no hypothesis)**: for every world and every source list, when
    `--create` returns 0 the file it writes is the format's encoding (`Spec.K7.tape`: per source a leader, the data blocks whose
    payloads concatenate to its content, an end block; zero padding; 21504 bytes) of *all* the sources, in order — every source was
    readable and accepted, and the whole list fits -/
theorem success_holds_every_source (w : World) (verbose : Bool) (archive : Str) (srcs : List Str)
    (h0 : (inject w verbose archive srcs).status = .ret 0) :
    AllReadable w archive srcs ∧ Spec.K7.encSize (srcs.map (C03.specFile w)) < 21504
      ∧ (inject w verbose archive srcs).writes = [(archive, Spec.K7.tape (srcs.map (C03.specFile w)))]
      ∧ (Spec.K7.tape (srcs.map (C03.specFile w))).length = 21504 := by
  have hr : AllReadable w archive srcs := by
    intro s hs
    apply Classical.byContradiction
    intro hbad
    by_cases hre : refusal archive s = none
    · have hmiss : w (classify s).2 = none := by
        cases hw : w (classify s).2 with
        | none => rfl
        | some d => exact absurd ⟨hre, d, hw⟩ hbad
      exact (missing_source w verbose archive srcs ⟨s, hs, hmiss⟩).1 h0
    · have := injectLoop_refused w archive srcs blank { verbose := verbose } [] ⟨s, hs, hre⟩
      unfold inject at h0
      generalize injectLoop w archive blank { verbose := verbose } [] srcs = r at this h0
      obtain ⟨st, out, t⟩ := r
      simp only at this
      obtain ⟨h1, h2⟩ := this
      subst h1
      simp only at h0
      exact h2 h0
  have hfit : Spec.K7.encSize (srcs.map (C03.specFile w)) < 21504 := by
    apply Classical.byContradiction
    intro hn
    have := (refused w verbose archive srcs hr hn).1
    rw [h0] at this
    cases this
  have hfit' : totalLen (allRaw w srcs) < Gen.Tape.tapeSize := by rw [needed_eq_encSize]; exact hfit
  exact ⟨hr, hfit, (C03.created_tape_is_k7 w verbose archive srcs hr hfit').1, (C03.created_tape_is_k7 w verbose archive srcs hr hfit').2⟩

end Moto.C09
