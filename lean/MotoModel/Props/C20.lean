/-
  C20 — archive creation is a pure function of its sources; reading modifies nothing.
-/
import MotoModel.Props.C09
import MotoModel.Props.C18
import MotoModel.Proofs.PathSpelling
namespace Moto.C20
open Moto

/-! ### tape -/

theorem specFile_congr (w w' : Tape.World) (s : Str) (h : Tape.contentOf w s = Tape.contentOf w' s) :
    C03.specFile w s = C03.specFile w' s := by
  simp [C03.specFile, h]

/-- **C20 (tape creation is a function of the sources)**: two runs whose sources have the same
    contents write byte-identical archives (or both write nothing) — whatever else differs in the
    file system (an old archive at the target path included), in quiet or verbose mode, under any
    archive name. -/
theorem tape_create_pure (w w' : Tape.World) (v v' : Bool) (a a' : Str) (srcs : List Str)
    (hr : Tape.AllReadable w a srcs) (hr' : Tape.AllReadable w' a' srcs)
    (hc : ∀ s ∈ srcs, Tape.contentOf w s = Tape.contentOf w' s) :
    (Tape.inject w v a srcs).writes.map (·.2) = (Tape.inject w' v' a' srcs).writes.map (·.2)
      ∧ (Tape.inject w v a srcs).status = (Tape.inject w' v' a' srcs).status := by
  have hm : srcs.map (C03.specFile w) = srcs.map (C03.specFile w') :=
    List.map_congr_left (fun s hs => specFile_congr w w' s (hc s hs))
  by_cases hfit : Spec.K7.encSize (srcs.map (C03.specFile w)) < 21504
  · have h1 := C09.accepted w v a srcs hr hfit
    have h2 := C09.accepted w' v' a' srcs hr' (hm ▸ hfit)
    rw [h1.2.1, h2.2.1, h1.1, h2.1, hm]; simp
  · have h1 := C09.refused w v a srcs hr hfit
    have h2 := C09.refused w' v' a' srcs hr' (hm ▸ hfit)
    rw [h1.2.1, h2.2.1, h1.1, h2.1]; simp

/-- reading a tape writes nothing at all (list), or only inside the destination (extract) -/
theorem tape_list_readonly (verbose : Bool) (tape : Bytes) :
    (Tape.enumerate verbose tape).writes = [] ∧ (Tape.enumerate verbose tape).mkdirs = [] := ⟨rfl, rfl⟩

theorem tape_extract_only_destination (verbose : Bool) (archive : Str) (into : Option Str) (tape : Bytes) :
    ∀ w ∈ (Tape.extract verbose archive into tape).writes,
      ∃ f, w.1 = pathJoin (Tape.targetDirOf archive into) f ∧ f.contains 47 = false ∧ Tape.openable f = true :=
  C18.tape_confined verbose archive into tape

/-! ### disk: the image does not depend on the listener (quiet / verbose) -/

open Moto.Disk

/-- what of the injector state reaches the archive -/
def core (st : Inj) : Image × Nat := (st.img, st.cur)

theorem injWriteFile_core (name ext : Str) (kind flag : Nat) (data : Bytes) (fuel : Nat) :
    ∀ (a b : Inj), core a = core b →
      (injWriteFile name ext kind flag data fuel a).map core = (injWriteFile name ext kind flag data fuel b).map core := by
  induction fuel with
  | zero => intro a b h; simp [injWriteFile, Except.map, h]
  | succ f ih =>
    intro a b h
    obtain ⟨ai, ac, al⟩ := a
    obtain ⟨bi, bc, bl⟩ := b
    simp only [core, Prod.mk.injEq] at h
    obtain ⟨rfl, rfl⟩ := h
    simp only [injWriteFile]
    by_cases hc : ac ≥ 4
    · simp [hc, Except.map, core]
    · simp only [hc, if_false]
      cases hw : writeFile (ai.getD ac []) data name ext kind flag with
      | ok sd => simp [Except.map, core]
      | raised e sd =>
        cases e with
        | valueError m =>
          simp only
          cases hu : usageOfSide (ai.set ac sd) ac with
          | error e => simp [Except.map]
          | ok u =>
            simp only
            by_cases h4 : ac + 1 ≥ 4
            · simp [h4, Except.map, core]
            · simp only [h4, if_false]
              exact ih _ _ rfl
        | indexError => simp [Except.map]
        | typeError => simp [Except.map]
        | overflowError => simp [Except.map]
        | unicodeError => simp [Except.map]
        | nameError => simp [Except.map]
        | attributeError => simp [Except.map]
        | osError k => simp [Except.map]

theorem injFile_core (w w' : Tape.World) (src : Str) (hw : w (splitSource src).2.2.2 = w' (splitSource src).2.2.2)
    (a b : Inj) (h : core a = core b) :
    (injFile w src a).map (fun r => (core r.1, r.2)) = (injFile w' src b).map (fun r => (core r.1, r.2)) := by
  unfold injFile
  dsimp only
  rw [← hw]
  cases hd : w (splitSource src).2.2.2 with
  | none => simp [Except.map, core] at h ⊢; exact h
  | some data =>
    dsimp only
    split
    · simp [Except.map, core] at h ⊢; exact h
    · split
      · simp [Except.map, core] at h ⊢; exact h
      · split
        · simp [Except.map, core] at h ⊢; exact h
        · have := injWriteFile_core (splitSource src).1
            (dispatch (splitSource src).1 (splitSource src).2.1 (splitSource src).2.2.1).2.2
            (dispatch (splitSource src).1 (splitSource src).2.1 (splitSource src).2.2.1).1
            (dispatch (splitSource src).1 (splitSource src).2.1 (splitSource src).2.2.1).2.1 data 4 a b h
          revert this
          cases injWriteFile _ _ _ _ data 4 a <;> cases injWriteFile _ _ _ _ data 4 b <;> simp [Except.map]

theorem injLoop_core (w w' : Tape.World) (srcs : List Str) (hw : ∀ s ∈ srcs, w (splitSource s).2.2.2 = w' (splitSource s).2.2.2) :
    ∀ (a b : Inj), core a = core b → (injLoop w srcs a).map core = (injLoop w' srcs b).map core := by
  induction srcs with
  | nil => intro a b h; simp [injLoop, Except.map, h]
  | cons src rest ih =>
    intro a b h
    have hrest := ih (fun s hs => hw s (by simp [hs]))
    obtain ⟨ai, ac, al⟩ := a
    obtain ⟨bi, bc, bl⟩ := b
    simp only [core, Prod.mk.injEq] at h
    obtain ⟨rfl, rfl⟩ := h
    simp only [injLoop]
    split
    · cases hu : usageOfSide ai ac with
      | error e => simp [Except.map]
      | ok u =>
        dsimp only
        by_cases h4 : ac + 1 ≥ 4
        · simp [h4, Except.map, core]
        · simp only [h4, if_false]
          exact hrest _ _ rfl
    · have hf := injFile_core w w' src (hw src (by simp)) ⟨ai, ac, al⟩ ⟨ai, ac, bl⟩ rfl
      cases h1 : injFile w src ⟨ai, ac, al⟩ with
      | error e1 =>
        cases h2 : injFile w' src ⟨ai, ac, bl⟩ with
        | error e2 => rw [h1, h2] at hf; simpa [Except.map] using hf
        | ok r2 => rw [h1, h2] at hf; simp [Except.map] at hf
      | ok r1 =>
        cases h2 : injFile w' src ⟨ai, ac, bl⟩ with
        | error e2 => rw [h1, h2] at hf; simp [Except.map] at hf
        | ok r2 =>
          obtain ⟨s1, p1⟩ := r1
          obtain ⟨s2, p2⟩ := r2
          rw [h1, h2] at hf
          simp only [Except.map, Except.ok.injEq, Prod.mk.injEq] at hf
          obtain ⟨hc, hp⟩ := hf
          subst hp
          have hcur : s1.cur = s2.cur := by simp only [core, Prod.mk.injEq] at hc; exact hc.2
          dsimp only
          rw [hcur]
          by_cases hq : (p1 && decide (s2.cur ≥ 4)) = true
          · simp only [hq, if_true, Except.map, hc]
          · simp only [hq, if_false]
            exact hrest s1 s2 hc

/-! ### the spelling of the source paths -/

/-- position by position -/
inductive AllSame {α β : Type} (R : α → β → Prop) : List α → List β → Prop
  | nil : AllSame R [] []
  | cons {a : α} {b : β} {as : List α} {bs : List β} : R a b → AllSame R as bs → AllSame R (a :: as) (b :: bs)

/-- two source arguments that designate the same thing: same end-of-side test, same catalog name,
    same extensions (stored and with option), and the files they open hold the same bytes -/
def SameSource (w w' : Tape.World) (s s' : Str) : Prop :=
  basename (upper s) = basename (upper s') ∧ (splitSource s).1 = (splitSource s').1 ∧ (splitSource s).2.1 = (splitSource s').2.1
  ∧ (splitSource s).2.2.1 = (splitSource s').2.2.1 ∧ w (splitSource s).2.2.2 = w' (splitSource s').2.2.2

theorem injFile_core2 (w w' : Tape.World) (s s' : Str) (hs : SameSource w w' s s') (a b : Inj) (h : core a = core b) :
    (injFile w s a).map (fun r => (core r.1, r.2)) = (injFile w' s' b).map (fun r => (core r.1, r.2)) := by
  obtain ⟨_, h1, h2, h3, hw⟩ := hs
  unfold injFile
  dsimp only
  rw [← hw, ← h1, ← h2, ← h3]
  cases hd : w (splitSource s).2.2.2 with
  | none => simp [Except.map, core] at h ⊢; exact h
  | some data =>
    dsimp only
    split
    · simp [Except.map, core] at h ⊢; exact h
    · split
      · simp [Except.map, core] at h ⊢; exact h
      · split
        · simp [Except.map, core] at h ⊢; exact h
        · have := injWriteFile_core (splitSource s).1
            (dispatch (splitSource s).1 (splitSource s).2.1 (splitSource s).2.2.1).2.2
            (dispatch (splitSource s).1 (splitSource s).2.1 (splitSource s).2.2.1).1
            (dispatch (splitSource s).1 (splitSource s).2.1 (splitSource s).2.2.1).2.1 data 4 a b h
          revert this
          cases injWriteFile _ _ _ _ data 4 a <;> cases injWriteFile _ _ _ _ data 4 b <;> simp [Except.map]

theorem injLoop_core2 (w w' : Tape.World) : ∀ (srcs srcs' : List Str), AllSame (SameSource w w') srcs srcs' →
    ∀ (a b : Inj), core a = core b → (injLoop w srcs a).map core = (injLoop w' srcs' b).map core := by
  intro srcs srcs' hf
  induction hf with
  | nil => intro a b h; simp [injLoop, Except.map, h]
  | @cons src src' rest rest' hs _ ih =>
    intro a b h
    obtain ⟨ai, ac, al⟩ := a
    obtain ⟨bi, bc, bl⟩ := b
    simp only [core, Prod.mk.injEq] at h
    obtain ⟨rfl, rfl⟩ := h
    simp only [injLoop]
    rw [← hs.1]
    split
    · cases hu : usageOfSide ai ac with
      | error e => simp [Except.map]
      | ok u =>
        dsimp only
        by_cases h4 : ac + 1 ≥ 4
        · simp [h4, Except.map, core]
        · simp only [h4, if_false]
          exact ih _ _ rfl
    · have hf := injFile_core2 w w' src src' hs ⟨ai, ac, al⟩ ⟨ai, ac, bl⟩ rfl
      cases h1 : injFile w src ⟨ai, ac, al⟩ with
      | error e1 =>
        cases h2 : injFile w' src' ⟨ai, ac, bl⟩ with
        | error e2 => rw [h1, h2] at hf; simpa [Except.map] using hf
        | ok r2 => rw [h1, h2] at hf; simp [Except.map] at hf
      | ok r1 =>
        cases h2 : injFile w' src' ⟨ai, ac, bl⟩ with
        | error e2 => rw [h1, h2] at hf; simp [Except.map] at hf
        | ok r2 =>
          obtain ⟨s1, p1⟩ := r1
          obtain ⟨s2, p2⟩ := r2
          rw [h1, h2] at hf
          simp only [Except.map, Except.ok.injEq, Prod.mk.injEq] at hf
          obtain ⟨hc, hp⟩ := hf
          subst hp
          have hcur : s1.cur = s2.cur := by simp only [core, Prod.mk.injEq] at hc; exact hc.2
          dsimp only
          rw [hcur]
          by_cases hq : (p1 && decide (s2.cur ≥ 4)) = true
          · simp only [hq, if_true, Except.map, hc]
          · simp only [hq, if_false]
            exact ih s1 s2 hc

theorem injTail_core (fuel : Nat) : ∀ (a b : Inj), core a = core b → (injTail fuel a).map core = (injTail fuel b).map core := by
  induction fuel with
  | zero => intro a b h; simp [injTail, Except.map, h]
  | succ f ih =>
    intro a b h
    obtain ⟨ai, ac, al⟩ := a
    obtain ⟨bi, bc, bl⟩ := b
    simp only [core, Prod.mk.injEq] at h
    obtain ⟨rfl, rfl⟩ := h
    simp only [injTail]
    split
    · cases hu : usageOfSide ai (ac + 1) with
      | error e => simp [Except.map]
      | ok u => dsimp only; exact ih _ _ rfl
    · simp [Except.map, core]

/-- **C20 (disk creation is a function of the ordered (catalog name, kind, content) list)**: two
    create or add batches on the same image whose sources, position by position, have the same
    catalog name, extension, option and content — whatever the spelling of the paths, the
    verbosity, the archive name, the rest of the file system — produce the same image, or both fail
    the same way. -/
theorem performCore_pure (w w' : Tape.World) (v v' : Bool) (img : Image) (srcs srcs' : List Str)
    (hs : AllSame (SameSource w w') srcs srcs') :
    (match performCore w v img srcs with | .ok st => some (.ok st.img) | .error (e, _) => some (Except.error e) : Option (Except PyErr Image))
      = (match performCore w' v' img srcs' with | .ok st => some (.ok st.img) | .error (e, _) => some (Except.error e)) := by
  unfold performCore
  dsimp only
  have hl := injLoop_core2 w w' srcs srcs' hs
    { img := img, cur := 0, l := onBeginOfSide { processing := 2, verbose := v } 0 }
    { img := img, cur := 0, l := onBeginOfSide { processing := 2, verbose := v' } 0 } rfl
  cases h1 : injLoop w srcs { img := img, cur := 0, l := onBeginOfSide { processing := 2, verbose := v } 0 } with
  | error e1 =>
    cases h2 : injLoop w' srcs' { img := img, cur := 0, l := onBeginOfSide { processing := 2, verbose := v' } 0 } with
    | error e2 => rw [h1, h2] at hl; simp [Except.map] at hl; simp [hl]
    | ok s2 => rw [h1, h2] at hl; simp [Except.map] at hl
  | ok s1 =>
    cases h2 : injLoop w' srcs' { img := img, cur := 0, l := onBeginOfSide { processing := 2, verbose := v' } 0 } with
    | error e2 => rw [h1, h2] at hl; simp [Except.map] at hl
    | ok s2 =>
      rw [h1, h2] at hl
      simp only [Except.map, Except.ok.injEq, core, Prod.mk.injEq] at hl
      obtain ⟨himg, hcur⟩ := hl
      obtain ⟨i1, c1, l1⟩ := s1
      obtain ⟨i2, c2, l2⟩ := s2
      dsimp only at himg hcur ⊢
      subst himg hcur
      by_cases hc : c1 < 4
      · rw [if_pos hc, if_pos hc]
        cases hu : usageOfSide i1 c1 with
        | error e => simp
        | ok u =>
          dsimp only
          have ht := injTail_core 4 ⟨i1, c1, onEndOfSide l1 u⟩ ⟨i1, c1, onEndOfSide l2 u⟩ rfl
          cases g1 : injTail 4 ⟨i1, c1, onEndOfSide l1 u⟩ with
          | error e1 =>
            cases g2 : injTail 4 ⟨i1, c1, onEndOfSide l2 u⟩ with
            | error e2 => rw [g1, g2] at ht; simp [Except.map] at ht; simp [ht]
            | ok t2 => rw [g1, g2] at ht; simp [Except.map] at ht
          | ok t1 =>
            cases g2 : injTail 4 ⟨i1, c1, onEndOfSide l2 u⟩ with
            | error e2 => rw [g1, g2] at ht; simp [Except.map] at ht
            | ok t2 =>
              rw [g1, g2] at ht
              simp only [Except.map, Except.ok.injEq, core, Prod.mk.injEq] at ht
              simp [ht.1]
      · rw [if_neg hc, if_neg hc]

/-- a source given with another directory spelling — relative, absolute, through directories whose
    names contain dots — designates the same thing, provided both spellings open files with the
    same bytes -/
theorem same_source_of_spelling (w w' : Tape.World) (pre pre' base : Str) (hp : DirPrefix pre) (hp' : DirPrefix pre') (hb : 47 ∉ base)
    (hw : w (pre ++ (splitSource base).2.2.2) = w' (pre' ++ (splitSource base).2.2.2)) :
    SameSource w w' (pre ++ base) (pre' ++ base) := by
  obtain ⟨a1, a2, a3, a4⟩ := splitSource_prefix pre base hp hb
  obtain ⟨b1, b2, b3, b4⟩ := splitSource_prefix pre' base hp' hb
  refine ⟨by rw [eos_prefix pre base hp hb, eos_prefix pre' base hp' hb], by rw [a1, b1], by rw [a2, b2], by rw [a3, b3], ?_⟩
  rw [a4, b4]; exact hw

/-- the same for the tape archiver: descriptor and content of a source do not depend on the
    spelling of its directory part -/
theorem tape_specFile_spelling (w w' : Tape.World) (pre pre' base : Str) (hp : DirPrefix pre) (hp' : DirPrefix pre') (hb : 47 ∉ base)
    (hw : w (pre ++ (Tape.classify base).2) = w' (pre' ++ (Tape.classify base).2)) :
    C03.specFile w (pre ++ base) = C03.specFile w' (pre' ++ base) := by
  obtain ⟨a1, a2⟩ := classify_prefix pre base hp hb
  obtain ⟨b1, b2⟩ := classify_prefix pre' base hp' hb
  unfold C03.specFile Tape.contentOf
  dsimp only
  rw [a1, b1, a2, b2, hw]

/-- **C20 (tape creation depends on the (name, kind, content) list only)**: source lists that give
    the same descriptors and contents, however the paths are spelled, give the same archive -/
theorem tape_create_spelling (w w' : Tape.World) (v v' : Bool) (a a' : Str) (srcs srcs' : List Str)
    (hr : Tape.AllReadable w a srcs) (hr' : Tape.AllReadable w' a' srcs')
    (hm : srcs.map (C03.specFile w) = srcs'.map (C03.specFile w')) :
    (Tape.inject w v a srcs).writes.map (·.2) = (Tape.inject w' v' a' srcs').writes.map (·.2)
      ∧ (Tape.inject w v a srcs).status = (Tape.inject w' v' a' srcs').status := by
  by_cases hfit : Spec.K7.encSize (srcs.map (C03.specFile w)) < 21504
  · have h1 := C09.accepted w v a srcs hr hfit
    have h2 := C09.accepted w' v' a' srcs' hr' (hm ▸ hfit)
    rw [h1.2.1, h2.2.1, h1.1, h2.1, hm]; simp
  · have h1 := C09.refused w v a srcs hr hfit
    have h2 := C09.refused w' v' a' srcs' hr' (hm ▸ hfit)
    rw [h1.2.1, h2.2.1, h1.1, h2.1]; simp

/-- **C20 (no action alters a source)**: whatever the sources and the files on disk, the only path
    `--create` / `--add` of the disk archivers ever write is the archive, and they create no directory -/
theorem disk_update_writes_only_archive (fl : Flavour) (w : Tape.World) (verbose : Bool) (archive : Str) (img : Image) (srcs : List Str) :
    (∀ p ∈ (performOn fl w verbose archive img srcs).writes, p.1 = archive) ∧ (performOn fl w verbose archive img srcs).mkdirs = [] := by
  unfold performOn
  split
  · exact ⟨by intro p hp; simp at hp, rfl⟩
  · cases performCore w verbose img srcs with
    | error e => obtain ⟨e1, o⟩ := e; exact ⟨by intro p hp; simp at hp, rfl⟩
    | ok st => exact ⟨by intro p hp; simp at hp; rw [hp], rfl⟩

theorem disk_create_writes_only_archive (fl : Flavour) (w : Tape.World) (verbose : Bool) (archive : Str) (srcs : List Str) :
    (∀ p ∈ (create fl w verbose archive srcs).writes, p.1 = archive) ∧ (create fl w verbose archive srcs).mkdirs = [] :=
  disk_update_writes_only_archive fl w verbose archive _ srcs

theorem disk_add_writes_only_archive (fl : Flavour) (w : Tape.World) (verbose : Bool) (archive : Str) (raw : Bytes) (srcs : List Str) :
    (∀ p ∈ (add fl w verbose archive raw srcs).writes, p.1 = archive) ∧ (add fl w verbose archive raw srcs).mkdirs = [] := by
  unfold add
  cases load fl raw with
  | error e => exact ⟨by intro p hp; simp at hp, rfl⟩
  | ok img => exact disk_update_writes_only_archive fl w verbose archive img srcs

/-- reading a disk archive never writes the archive nor anything outside the destination
    (list: nothing at all) — for every byte string -/
theorem disk_read_leaves_archive (fl : Flavour) (verbose : Bool) (raw : Bytes) :
    (Disk.list fl verbose raw).writes = [] ∧ (Disk.list fl verbose raw).mkdirs = [] :=
  C18.disk_list_readonly fl verbose raw

/-! ### extraction never replaces the archive it reads -/

theorem tape_keep_step (extract : Bool) (dir : Str) (s : Tape.RState) (raw : Bytes) :
    (Tape.readStep extract dir s raw).1.keep = s.keep ∧
    ((Tape.readStep extract dir s raw).1.writes = s.writes ∨
      ∃ p c, (Tape.readStep extract dir s raw).1.writes = s.writes ++ [(p, c)] ∧ Tape.collides s.keep p = false) := by
  unfold Tape.readStep
  cases Tape.blockType raw with
  | invalid => exact ⟨rfl, Or.inl rfl⟩
  | leader =>
    simp only
    cases Tape.descOfBlock raw with
    | error e => exact ⟨rfl, Or.inl rfl⟩
    | ok d => exact ⟨rfl, Or.inl rfl⟩
  | data =>
    simp only
    cases Tape.onDataBlock s.l raw with
    | error e => exact ⟨rfl, Or.inl rfl⟩
    | ok l' => exact ⟨rfl, Or.inl rfl⟩
  | eof =>
    simp only
    cases extract with
    | false =>
      simp only [Bool.false_eq_true, if_false]
      cases Tape.onEndBlock s.l with
      | error e => exact ⟨rfl, Or.inl rfl⟩
      | ok r => exact ⟨rfl, Or.inl rfl⟩
    | true =>
      simp only [if_true]
      cases s.desc with
      | none => exact ⟨rfl, Or.inl rfl⟩
      | some d =>
        simp only
        split
        · exact ⟨rfl, Or.inl rfl⟩
        · split
          · exact ⟨rfl, Or.inl rfl⟩
          · rename_i hcol
            split
            · exact ⟨rfl, Or.inl rfl⟩
            · split
              · exact ⟨rfl, Or.inl rfl⟩
              · cases Tape.onEndBlock s.l with
                | error e => exact ⟨rfl, Or.inr ⟨_, _, rfl, by simpa using hcol⟩⟩
                | ok r => exact ⟨rfl, Or.inr ⟨_, _, rfl, by simpa using hcol⟩⟩

theorem tape_keep_loop (dir : Str) (k : Option Str) (blocks : List Bytes) : ∀ (s : Tape.RState), s.keep = k →
    (∀ w ∈ s.writes, Tape.collides k w.1 = false) →
    ∀ w ∈ (Tape.readLoop true dir s blocks).2.writes, Tape.collides k w.1 = false := by
  induction blocks with
  | nil => intro s _ hs; simpa [Tape.readLoop] using hs
  | cons raw rest ih =>
    intro s hk hs
    simp only [Tape.readLoop]
    have hst := tape_keep_step true dir s raw
    cases hstep : Tape.readStep true dir s raw with
    | mk s' e =>
      rw [hstep] at hst
      obtain ⟨hk', hw'⟩ := hst
      dsimp only at hk' hw'
      have hs' : ∀ w ∈ s'.writes, Tape.collides k w.1 = false := by
        intro w hw
        rcases hw' with h | ⟨p, c, h, hc⟩
        · rw [h] at hw; exact hs w hw
        · rw [h] at hw
          simp only [List.mem_append, List.mem_singleton] at hw
          rcases hw with h1 | h1
          · exact hs w h1
          · rw [h1, ← hk]; exact hc
      cases e with
      | none => exact ih s' (hk'.trans hk) hs'
      | some err => simpa using hs'

/-- **C20 (tape: extraction never replaces the archive it reads)**: whatever the bytes of the tape,
    the names it announces and the destination, no path `--extract` writes is the archive itself
    (`samePath`: equal after lexical normalisation, both relative or both absolute) — a member named
    like the archive makes the run stop before anything is written over it -/
theorem tape_extract_never_overwrites_archive (verbose : Bool) (archive : Str) (into : Option Str) (tape : Bytes) :
    ∀ w ∈ (Tape.extract verbose archive into tape).writes, samePath w.1 archive = false := by
  unfold Tape.extract
  exact tape_keep_loop _ (some archive) _ _ rfl (by simp)

/-- **C20 (disk: extraction never replaces the archive it reads)**: whatever the bytes of the image —
    any catalog, any names — and the destination, no path `--extract` writes is the archive itself -/
theorem disk_extract_never_overwrites_archive (fl : Flavour) (verbose : Bool) (archive : Str) (into : Option Str) (raw : Bytes) :
    ∀ w ∈ (Disk.extract fl verbose archive into raw).writes, samePath w.1 archive = false := by
  intro w hw
  unfold Disk.extract at hw
  cases hl : Disk.load fl raw with
  | error e => rw [hl] at hw; simp at hw
  | ok img =>
    rw [hl] at hw
    dsimp only at hw
    have hfin : ∀ (r : Disk.RdState × Option PyErr), (Disk.finishRead r).writes = r.1.writes := by
      intro r; obtain ⟨s, o⟩ := r; cases o <;> rfl
    rw [hfin] at hw
    exact (C18.readSides_writes _ img 0 _ (by intro w' hw'; simp at hw') w hw).2

/-- the guard at work: a tape member `GAMES.K7` extracted beside the archive `GAMES.K7`, and a disk
    member `DISK.SD` of side 0 extracted with `--into .` from `side0/DISK.SD`, are the archive -/
example : samePath (pathJoin (Tape.targetDirOf (Tape.str "GAMES.K7") none) (Tape.str "GAMES.K7")) (Tape.str "GAMES.K7") = true
    ∧ samePath (pathJoin (pathJoin (Tape.targetDirOf (Tape.str "side0/DISK.SD") (some (Tape.str "."))) (Tape.str "side0")) (Tape.str "DISK.SD")) (Tape.str "side0/DISK.SD") = true
    ∧ samePath (Tape.str "out/GAMES.K7") (Tape.str "GAMES.K7") = false := by decide +kernel

/-! ### creation never replaces one of its sources -/

/-- **C20 (tape: a source that is the archive)**: when one of the source arguments designates the archive's
    own path (after the `,a` option is removed; `samePath`), or has a name that is not ascii, `--create`
    fails and writes nothing: the source is not overwritten -/
theorem tape_create_refuses_archive_as_source (w : Tape.World) (verbose : Bool) (archive : Str) (srcs : List Str)
    (h : ∃ s ∈ srcs, Tape.refusal archive s ≠ none) :
    (Tape.inject w verbose archive srcs).status ≠ .ret 0 ∧ (Tape.inject w verbose archive srcs).writes = [] := by
  have := Tape.injectLoop_refused w archive srcs Tape.blank { verbose := verbose } [] h
  unfold Tape.inject
  generalize Tape.injectLoop w archive Tape.blank { verbose := verbose } [] srcs = r at this ⊢
  obtain ⟨st, out, t⟩ := r
  simp only at this
  obtain ⟨h1, h2⟩ := this
  subst h1
  exact ⟨h2, rfl⟩

/-- what is refused: the archive's own path, a name with a code point above 127 -/
example : Tape.refusal (Tape.str "./notes.bin") (Tape.str "notes.bin") ≠ none
    ∧ Tape.refusal (Tape.str "t.k7") (Tape.str "prog.bas,a") = none
    ∧ Tape.refusal (Tape.str "prog.bas") (Tape.str "prog.bas,a") ≠ none
    ∧ Tape.refusal (Tape.str "t.k7") [97, 233, 46, 98, 97, 115] ≠ none := by decide +kernel

/-- **C20 (disk: the command is `create` / `add` of the other theorems unless a source is the archive)** -/
theorem disk_create_cmd_eq (fl : Flavour) (w : Tape.World) (verbose : Bool) (archive : Str) (srcs : List Str)
    (h : ∀ s ∈ srcs, srcIsArchive w archive s = false) :
    createCmd fl w verbose archive srcs = create fl w verbose archive srcs := by
  have : srcs.any (srcIsArchive w archive) = false := List.any_eq_false.mpr (fun s hs => by rw [h s hs]; simp)
  unfold createCmd guardSources
  rw [this]
  simp

theorem disk_add_cmd_eq (fl : Flavour) (w : Tape.World) (verbose : Bool) (archive : Str) (raw : Bytes) (srcs : List Str)
    (h : ∀ s ∈ srcs, srcIsArchive w archive s = false) :
    addCmd fl w verbose archive raw srcs = add fl w verbose archive raw srcs := by
  have : srcs.any (srcIsArchive w archive) = false := List.any_eq_false.mpr (fun s hs => by rw [h s hs]; simp)
  unfold addCmd
  cases load fl raw with
  | error e => rfl
  | ok img =>
    dsimp only
    unfold guardSources
    rw [this]
    simp

/-- **C20 (disk: a source that is the archive is never overwritten)**: when one of the source arguments is
    not a marker, designates an existing file and is the archive's own path (after the `,a` option is
    removed; `samePath`) — wherever it stands in the list, reached by the loop or not — `--create` writes
    nothing and raises -/
theorem disk_create_refuses_archive_as_source (fl : Flavour) (w : Tape.World) (verbose : Bool) (archive : Str) (srcs : List Str)
    (h : ∃ s ∈ srcs, srcIsArchive w archive s = true) :
    (createCmd fl w verbose archive srcs).writes = []
    ∧ (createCmd fl w verbose archive srcs).status = .raised (.valueError "source.is.the.archive") := by
  have : srcs.any (srcIsArchive w archive) = true := List.any_eq_true.mpr h
  unfold createCmd guardSources
  rw [if_neg (by simp), this]
  exact ⟨rfl, rfl⟩

/-- … and `--add` to a four-sided image likewise -/
theorem disk_add_refuses_archive_as_source (fl : Flavour) (w : Tape.World) (verbose : Bool) (archive : Str) (raw : Bytes) (img : Image)
    (srcs : List Str) (hl : load fl raw = .ok img) (h4 : img.length = 4) (h : ∃ s ∈ srcs, srcIsArchive w archive s = true) :
    (addCmd fl w verbose archive raw srcs).writes = []
    ∧ (addCmd fl w verbose archive raw srcs).status = .raised (.valueError "source.is.the.archive") := by
  have : srcs.any (srcIsArchive w archive) = true := List.any_eq_true.mpr h
  unfold addCmd
  rw [hl]
  dsimp only
  unfold guardSources
  rw [if_neg (by omega), this]
  exact ⟨rfl, rfl⟩

/-- `moto_fdar -c img.fd other.dat ./img.fd` with `img.fd` existing: refused, nothing written -/
example : (createCmd .fd (fun p => if p = Tape.str "./img.fd" ∨ p = Tape.str "other.dat" then some [1, 2, 3] else none) false (Tape.str "img.fd")
      [Tape.str "other.dat", Tape.str "./img.fd"]).writes = [] :=
  (disk_create_refuses_archive_as_source .fd _ false (Tape.str "img.fd") [Tape.str "other.dat", Tape.str "./img.fd"]
    ⟨Tape.str "./img.fd", by simp, by decide +kernel⟩).1

/-- **C20 / C09-like (disk: all or nothing, no hypothesis)**: for every world, every source list and every
    byte string given as existing archive, `--create` and `--add` either return 0 and write exactly one file,
    the archive, or end with another status and write nothing — never two files, never a file elsewhere,
    never a write on a failing run -/
theorem disk_all_or_nothing (fl : Flavour) (w : Tape.World) (verbose : Bool) (archive : Str) (raw : Bytes) (srcs : List Str) :
    (((createCmd fl w verbose archive srcs).status = .ret 0 ∧ ∃ b, (createCmd fl w verbose archive srcs).writes = [(archive, b)])
      ∨ ((createCmd fl w verbose archive srcs).status ≠ .ret 0 ∧ (createCmd fl w verbose archive srcs).writes = []))
    ∧ (((addCmd fl w verbose archive raw srcs).status = .ret 0 ∧ ∃ b, (addCmd fl w verbose archive raw srcs).writes = [(archive, b)])
      ∨ ((addCmd fl w verbose archive raw srcs).status ≠ .ret 0 ∧ (addCmd fl w verbose archive raw srcs).writes = [])) := by
  have hperf : ∀ img, ((performOn fl w verbose archive img srcs).status = .ret 0 ∧ ∃ b, (performOn fl w verbose archive img srcs).writes = [(archive, b)])
      ∨ ((performOn fl w verbose archive img srcs).status ≠ .ret 0 ∧ (performOn fl w verbose archive img srcs).writes = []) := by
    intro img
    unfold performOn
    split
    · right; exact ⟨by simp, rfl⟩
    · cases performCore w verbose img srcs with
      | error e => obtain ⟨e1, o⟩ := e; right; exact ⟨by simp, rfl⟩
      | ok st => left; exact ⟨rfl, _, rfl⟩
  have hguard : ∀ img (run : Tape.Outcome),
      ((run.status = .ret 0 ∧ ∃ b, run.writes = [(archive, b)]) ∨ (run.status ≠ .ret 0 ∧ run.writes = [])) →
      (((guardSources w archive img srcs run).status = .ret 0 ∧ ∃ b, (guardSources w archive img srcs run).writes = [(archive, b)])
        ∨ ((guardSources w archive img srcs run).status ≠ .ret 0 ∧ (guardSources w archive img srcs run).writes = [])) := by
    intro img run h
    unfold guardSources
    split
    · exact h
    · split
      · right; exact ⟨by simp, rfl⟩
      · exact h
  constructor
  · unfold createCmd create
    exact hguard _ _ (hperf _)
  · unfold addCmd add
    cases load fl raw with
    | error e => right; exact ⟨by simp, rfl⟩
    | ok img => exact hguard _ _ (hperf _)


/-! ### no action ever alters a source file -/

/-- **C20 (no action ever alters a source file — tape creation)**: for every world and every source list, every path
    `--create` writes is the archive, and then the archive is not the file read for any of the sources (`samePath`: the same place
    under any lexical spelling) — a run that would write over one of its sources writes nothing instead
    (`tape_create_refuses_archive_as_source`).  List writes nothing (`tape_list_readonly`), extract writes inside the destination
    and never onto the archive (`tape_extract_only_destination`, `tape_extract_never_overwrites_archive`). -/
theorem tape_create_alters_no_source (w : Tape.World) (verbose : Bool) (archive : Str) (srcs : List Str) :
    ∀ wr ∈ (Tape.inject w verbose archive srcs).writes,
      wr.1 = archive ∧ ∀ s ∈ srcs, samePath (Tape.classifyRaw s).2 archive = false := by
  intro wr hwr
  rcases C09.all_or_nothing w verbose archive srcs with ⟨_, tape, hw, _⟩ | ⟨_, hw⟩
  · rw [hw] at hwr
    simp only [List.mem_singleton] at hwr
    refine ⟨by rw [hwr], ?_⟩
    intro s hs
    cases hsp : samePath (Tape.classifyRaw s).2 archive with
    | false => rfl
    | true =>
      have href : Tape.refusal archive s ≠ none := by
        unfold Tape.refusal
        simp only [hsp, if_true]
        exact fun h => by cases h
      have := (tape_create_refuses_archive_as_source w verbose archive srcs ⟨s, hs, href⟩).2
      rw [this] at hw
      cases hw
  · rw [hw] at hwr
    cases hwr

open Moto.Disk in
/-- **C20 (no action ever alters a source file — disk creation and addition)**: every path `--create` / `--add` (to a four-sided
    image) writes is the archive, and then no source argument designates the archive's own existing file -/
theorem disk_update_alters_no_source (fl : Flavour) (w : Tape.World) (verbose : Bool) (archive : Str) (raw : Bytes) (img : Image)
    (srcs : List Str) (hl : load fl raw = .ok img) (h4 : img.length = 4) :
    (∀ wr ∈ (createCmd fl w verbose archive srcs).writes, wr.1 = archive ∧ ∀ s ∈ srcs, srcIsArchive w archive s = false)
    ∧ (∀ wr ∈ (addCmd fl w verbose archive raw srcs).writes, wr.1 = archive ∧ ∀ s ∈ srcs, srcIsArchive w archive s = false) := by
  obtain ⟨hc, ha⟩ := disk_all_or_nothing fl w verbose archive raw srcs
  constructor
  · intro wr hwr
    rcases hc with ⟨_, b, hw⟩ | ⟨_, hw⟩
    · rw [hw] at hwr
      simp only [List.mem_singleton] at hwr
      refine ⟨by rw [hwr], ?_⟩
      intro s hs
      cases hsp : srcIsArchive w archive s with
      | false => rfl
      | true =>
        have := (disk_create_refuses_archive_as_source fl w verbose archive srcs ⟨s, hs, hsp⟩).1
        rw [this] at hw
        cases hw
    · rw [hw] at hwr; cases hwr
  · intro wr hwr
    rcases ha with ⟨_, b, hw⟩ | ⟨_, hw⟩
    · rw [hw] at hwr
      simp only [List.mem_singleton] at hwr
      refine ⟨by rw [hwr], ?_⟩
      intro s hs
      cases hsp : srcIsArchive w archive s with
      | false => rfl
      | true =>
        have := (disk_add_refuses_archive_as_source fl w verbose archive raw img srcs hl h4 ⟨s, hs, hsp⟩).1
        rw [this] at hw
        cases hw
    · rw [hw] at hwr; cases hwr

end Moto.C20
