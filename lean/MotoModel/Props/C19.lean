/-
  C19 — every documented command starts, checks its arguments, writes where documented.
  Finite facts about the CLI description regenerated from the source (Gen.Cli), and placement
  theorems about the extract models.  Interpreter start-up and argparse itself are outside the
  model (see DESIGN.md): that part is enumerated exhaustively at process level by the check.
-/
import MotoModel.Model.DiskCli
import MotoModel.Gen.Cli
import MotoModel.Proofs.PathSpelling
import MotoModel.Proofs.Argparse
namespace Moto.C19
open Moto

def documentedTools : List Str :=
  [Tape.str "moto_tar", Tape.str "moto_sdar", Tape.str "moto_fdar", Tape.str "moto_nl", Tape.str "moto_prettier",
   Tape.str "moto_bas2lst", Tape.str "moto_lst2bas"]

/-- every documented `python3 -m <tool>` has a package with `__init__` and `__main__` whose
    relative imports all resolve to files of the package -/
theorem packages_resolve : Gen.Cli.packages.map (·.1) = documentedTools
    ∧ ∀ p ∈ Gen.Cli.packages, p.2.1 = true ∧ p.2.2 = [] := by decide

/-- every console script the project declares points at an existing `package.__main__:main`
    of a documented package -/
theorem scripts_resolve : ∀ s ∈ Gen.Cli.scripts, s.2.2 = true ∧ s.2.1 ∈ documentedTools := by decide

/-- no tool accepts abbreviated long options -/
theorem no_abbreviations : ∀ t ∈ Gen.Cli.tools, t.allowAbbrev = false := by decide

def actionConsts (t : Gen.Cli.Tool) : List Str := (t.actions.filter (·.inGroup)).map (·.const)

/-- the three archivers require exactly one action out of the documented ones (in whatever order the options are registered:
    the order only shows in the help text) -/
theorem archiver_actions :
    ∀ t ∈ Gen.Cli.tools,
      (t.name = Tape.str "moto_tar" → t.groupRequired = true ∧ (actionConsts t).length = 3 ∧
        ∀ c ∈ [Tape.str "create", Tape.str "list", Tape.str "extract"], c ∈ actionConsts t) ∧
      (t.name = Tape.str "moto_sdar" ∨ t.name = Tape.str "moto_fdar" →
        t.groupRequired = true ∧ (actionConsts t).length = 4 ∧
        ∀ c ∈ [Tape.str "create", Tape.str "list", Tape.str "extract", Tape.str "add"], c ∈ actionConsts t) := by
  decide

/-- every action of the exclusive group stores into the same destination: two of them conflict -/
theorem actions_share_dest : ∀ t ∈ Gen.Cli.tools, ∀ a ∈ t.actions, a.inGroup = true → a.dest = Tape.str "action" ∧ a.nargs = 0 := by
  decide

/-- every tool has the help option; `--into` takes one value where it exists -/
theorem help_everywhere : ∀ t ∈ Gen.Cli.tools, ∃ a ∈ t.actions, a.opts = [Tape.str "-h", Tape.str "--help"] := by decide

/-! ### placement -/

/-- **C19 (tape extract placement)**: every file written by tape extract is a direct child of the
    `--into` directory when given, of the archive's directory otherwise. -/
theorem tape_extract_placement_step (extract : Bool) (dir : Str) (s : Tape.RState) (raw : Bytes) :
    (Tape.readStep extract dir s raw).1.writes = s.writes ∨
    ∃ f c, (Tape.readStep extract dir s raw).1.writes = s.writes ++ [(pathJoin dir f, c)] ∧ f.contains 47 = false ∧ Tape.openable f = true := by
  unfold Tape.readStep
  cases Tape.blockType raw with
  | invalid => exact Or.inl rfl
  | leader =>
    simp only
    cases Tape.descOfBlock raw with
    | error e => exact Or.inl rfl
    | ok d => exact Or.inl rfl
  | data =>
    simp only
    cases Tape.onDataBlock s.l raw with
    | error e => exact Or.inl rfl
    | ok l' => exact Or.inl rfl
  | eof =>
    simp only
    cases extract with
    | false =>
      simp only [Bool.false_eq_true, if_false]
      cases Tape.onEndBlock s.l with
      | error e => exact Or.inl rfl
      | ok r => exact Or.inl rfl
    | true =>
      simp only [if_true]
      cases s.desc with
      | none => exact Or.inl rfl
      | some d =>
        simp only
        by_cases h47 : (d.name ++ [46] ++ d.ext).contains 47 = true
        · simp only [h47, if_true]; exact Or.inl trivial
        · simp only [h47, Bool.false_eq_true, if_false]
          split
          · exact Or.inl rfl
          · by_cases h0 : (d.name ++ [46] ++ d.ext).contains 0 = true
            · simp only [h0, if_true]; exact Or.inl trivial
            · by_cases ho : (!Tape.openable (d.name ++ [46] ++ d.ext)) = true
              · simp only [h0, ho, if_true, if_false, Bool.false_eq_true]; exact Or.inl trivial
              · simp only [h0, ho, if_false, Bool.false_eq_true]
                cases Tape.onEndBlock s.l with
                | error e => exact Or.inr ⟨_, _, rfl, by simpa using h47, by simpa using ho⟩
                | ok r => exact Or.inr ⟨_, _, rfl, by simpa using h47, by simpa using ho⟩

theorem tape_extract_placement_loop (dir : Str) (blocks : List Bytes) : ∀ (s : Tape.RState),
    (∀ w ∈ s.writes, ∃ f, w.1 = pathJoin dir f ∧ f.contains 47 = false ∧ Tape.openable f = true) →
    ∀ w ∈ (Tape.readLoop true dir s blocks).2.writes, ∃ f, w.1 = pathJoin dir f ∧ f.contains 47 = false ∧ Tape.openable f = true := by
  induction blocks with
  | nil => intro s hs; simpa [Tape.readLoop] using hs
  | cons raw rest ih =>
    intro s hs
    simp only [Tape.readLoop]
    cases hstep : Tape.readStep true dir s raw with
    | mk s' e =>
      have hs' : ∀ w ∈ s'.writes, ∃ f, w.1 = pathJoin dir f ∧ f.contains 47 = false ∧ Tape.openable f = true := by
        intro w hw
        have hst := tape_extract_placement_step true dir s raw
        rw [hstep] at hst
        rcases hst with h | ⟨f, c, h, hf⟩
        · rw [h] at hw; exact hs w hw
        · rw [h] at hw
          simp only [List.mem_append, List.mem_singleton] at hw
          rcases hw with h1 | h1
          · exact hs w h1
          · exact ⟨f, by rw [h1], hf⟩
      cases e with
      | none => exact ih s' hs'
      | some err => simpa using hs'

theorem tape_extract_placement (verbose : Bool) (archive : Str) (into : Option Str) (tape : Bytes) :
    ∀ w ∈ (Tape.extract verbose archive into tape).writes,
      ∃ f, w.1 = pathJoin (Tape.targetDirOf archive into) f ∧ f.contains 47 = false ∧ Tape.openable f = true := by
  unfold Tape.extract
  exact tape_extract_placement_loop _ _ _ (by simp)

theorem into_wins (archive d : Str) : Tape.targetDirOf archive (some d) = d := rfl
theorem beside_archive (archive : Str) : Tape.targetDirOf archive none = dirname archive := rfl

/-- listing writes nothing -/
theorem tape_list_no_effect (verbose : Bool) (tape : Bytes) :
    (Tape.enumerate verbose tape).writes = [] ∧ (Tape.enumerate verbose tape).mkdirs = [] := ⟨rfl, rfl⟩

/-! ### the archive name -/

/-- the split of a list around the last occurrence of `c` is unique -/
theorem last_split_unique (c : Nat) (p1 p2 q1 q2 : Str) (h : p1 ++ c :: q1 = p2 ++ c :: q2) (h1 : c ∉ q1) (h2 : c ∉ q2) :
    p1 = p2 ∧ q1 = q2 := by
  induction p1 generalizing p2 with
  | nil =>
    cases p2 with
    | nil => simp at h; exact ⟨rfl, h⟩
    | cons y ys =>
      simp only [List.nil_append, List.cons_append, List.cons.injEq] at h
      exfalso
      apply h1
      rw [h.2]; simp
  | cons x xs ih =>
    cases p2 with
    | nil =>
      simp only [List.nil_append, List.cons_append, List.cons.injEq] at h
      exfalso
      apply h2
      rw [← h.2]; simp
    | cons y ys =>
      simp only [List.cons_append, List.cons.injEq] at h
      obtain ⟨hp, hq⟩ := ih ys h.2
      exact ⟨by rw [h.1, hp], hq⟩

open Moto.Disk in
/-- **C19 (wrong archive extension)**: the disk archivers accept an archive name exactly when what
    follows its last dot is the two letters of their flavour, in either case — `sd` for moto_sdar,
    `fd` for moto_fdar; a name without a dot, with another extension, or with anything after the
    extension is refused with a `ValueError` before any file is opened -/
theorem archive_name_rule (fl : Flavour) (a : Str) :
    checkArchiveName fl a = .ok () ↔
      ∃ stem x y, a = stem ++ [46, x, y] ∧ x ≠ 46 ∧ y ≠ 46
        ∧ lowerC x = (match fl with | .sd => 115 | .fd => 102) ∧ lowerC y = 100 := by
  unfold checkArchiveName
  cases fl
  all_goals
    dsimp only
    rcases rfind_split 46 a with ⟨hn, hno⟩ | ⟨i, hi, pre, post, ha, hpl, hpost⟩
    · rw [hn]
      constructor
      · intro h; cases h
      · rintro ⟨stem, x, y, rfl, _⟩; exfalso; apply hno; simp
    · rw [hi]
      dsimp only
      have hdrop : a.drop (i + 1) = post := by
        rw [ha, ← hpl]
        have : pre ++ 46 :: post = (pre ++ [46]) ++ post := by simp
        rw [this]
        exact List.drop_left' (by simp)
      rw [hdrop]
      constructor
      · intro h
        split at h
        · rename_i hl
          have hlen : post.length = 2 := by
            have := congrArg List.length hl
            simpa [lower, Tape.str] using this
          match post, hlen with
          | [x, y], _ =>
            simp [lower, Tape.str] at hl
            refine ⟨pre, x, y, by rw [ha], ?_, ?_, hl.1, hl.2⟩
            · intro e; apply hpost; simp [e]
            · intro e; apply hpost; simp [e]
        · cases h
      · rintro ⟨stem, x, y, hst, hx, hy, hlx, hly⟩
        have hsplit : pre ++ 46 :: post = stem ++ 46 :: [x, y] := by rw [← ha, hst]
        obtain ⟨_, hq⟩ := last_split_unique 46 pre stem post [x, y] hsplit hpost
          (by simp only [List.mem_cons, List.mem_nil_iff, or_false, not_or]; exact ⟨fun e => hx e.symm, fun e => hy e.symm⟩)
        rw [hq]
        rw [if_pos (by simp [lower, Tape.str, hlx, hly])]

open Moto.Disk in
/-- **C19 (wrong archive extension: non-zero status, no file created or modified)**: whatever the action, the sources, the
    destination and the bytes at the archive's path — when the archive's name is not accepted (`archive_name_rule`: what follows
    its last dot is not the flavour's two letters) the run raises `ValueError` and neither writes a file, nor creates a directory,
    nor prints anything; when it is accepted the run is the action itself (the command of all the other disk theorems) -/
theorem wrong_extension_rejected (fl : Flavour) (w : Tape.World) (verbose : Bool) (archive : Str) (into : Option Str) (raw : Bytes) (srcs : List Str)
    (h : checkArchiveName fl archive ≠ .ok ()) :
    ∀ o ∈ [runCreate fl w verbose archive srcs, runAdd fl w verbose archive raw srcs, runList fl verbose archive raw,
           runExtract fl verbose archive into raw],
      (∃ m, o.status = .raised (.valueError m)) ∧ o.writes = [] ∧ o.mkdirs = [] ∧ o.out = [] := by
  have herr : ∀ e, checkArchiveName fl archive = .error e → ∃ m, e = PyErr.valueError m := by
    intro e hc
    unfold checkArchiveName at hc
    cases hr : rfindFrom 46 archive 0 with
    | none => rw [hr] at hc; simp only at hc; injection hc with hc; exact ⟨_, hc.symm⟩
    | some dp =>
      rw [hr] at hc
      cases fl <;>
      · simp only at hc
        split at hc
        · cases hc
        · injection hc with hc; exact ⟨_, hc.symm⟩
  have hg : ∀ k, (∃ m, (gated fl archive k).status = .raised (.valueError m)) ∧ (gated fl archive k).writes = [] ∧
      (gated fl archive k).mkdirs = [] ∧ (gated fl archive k).out = [] := by
    intro k
    unfold gated
    cases hc : checkArchiveName fl archive with
    | ok u => exact absurd hc h
    | error e =>
      obtain ⟨m, rfl⟩ := herr e hc
      exact ⟨⟨m, rfl⟩, rfl, rfl, rfl⟩
  intro o ho
  simp only [List.mem_cons, List.mem_nil_iff, or_false] at ho
  rcases ho with rfl | rfl | rfl | rfl <;> exact hg _

open Moto.Disk in
theorem right_extension_runs_the_action (fl : Flavour) (w : Tape.World) (verbose : Bool) (archive : Str) (into : Option Str) (raw : Bytes) (srcs : List Str)
    (h : checkArchiveName fl archive = .ok ()) :
    runCreate fl w verbose archive srcs = createCmd fl w verbose archive srcs ∧ runAdd fl w verbose archive raw srcs = addCmd fl w verbose archive raw srcs ∧
    runList fl verbose archive raw = list fl verbose raw ∧ runExtract fl verbose archive into raw = extract fl verbose archive into raw := by
  simp [runCreate, runAdd, runList, runExtract, gated, h]

/-! ### the command line: every argument list, through the model of argparse (Model/Argparse.lean) -/

open Moto.Argparse in
/-- how each tool's `run()` reads its command line (from the AST of `run`): the disk archivers take what the parser does not
    recognise as further sources provided it is `--eos` or does not start with '-'; every other tool calls `parse_args()` -/
theorem parse_modes : ∀ t ∈ Gen.Cli.tools,
    (t.name = Tape.str "moto_sdar" ∨ t.name = Tape.str "moto_fdar" → t.parseMode = .knownThenEosFilter) ∧
    (¬(t.name = Tape.str "moto_sdar" ∨ t.name = Tape.str "moto_fdar") → t.parseMode = .strict) := by decide

open Moto.Argparse in
/-- the parsers have the shape the model is exact for (options without value or with one, positionals `x` then `x*`), and no
    positional belongs to the exclusive group -/
theorem parsers_in_modelled_shape : ∀ t ∈ Gen.Cli.tools,
    wellShaped t = true ∧ (∀ a ∈ t.actions, a.opts.isEmpty = true → a.inGroup = false) := by decide

open Moto.Argparse in
/-- **C19 (unknown option)**: for every tool and *every* command line, an argument string before any `--` that the tool's
    parser takes for an option it does not know is never accepted: the run ends with the usage error (status 2) — or with the
    help text if a help option is met first — before the tool does anything.  For the disk archivers the one exception is
    the documented `--eos` marker (any letter case). -/
theorem unknown_option_rejected : ∀ t ∈ Gen.Cli.tools, ∀ (pre : List Str) (s : Str) (post : List Str),
    dashdash ∉ pre → s ≠ dashdash → classify t s = .unknown → (t.parseMode = .knownThenEosFilter → upper s ≠ eosWord) →
    ∀ ns ex, cliParse t (pre ++ s :: post) ≠ .ok ns ex :=
  fun t _ pre s post hp hs hc hm ns ex => cliParse_unknown t pre s post hp hs hc hm ns ex

open Moto.Argparse in
/-- **C19 (two actions at once)**: for every tool and every command line, two option strings (before any `--`) that name two
    different options of the exclusive group — `-c … -t`, `--create … --extract`, in any position, whatever else is on
    the line — are never accepted. -/
theorem two_actions_rejected : ∀ t ∈ Gen.Cli.tools, ∀ (argv pre1 post1 pre2 post2 : List Str) (s1 s2 : Str) (b1 b2 : Gen.Cli.Action),
    argv = pre1 ++ s1 :: post1 → argv = pre2 ++ s2 :: post2 → dashdash ∉ pre1 → dashdash ∉ pre2 →
    findOpt t s1 = some b1 → findOpt t s2 = some b2 → b1.inGroup = true → b2.inGroup = true → b1.opts ≠ b2.opts →
    ∀ ns ex, cliParse t argv ≠ .ok ns ex := by
  intro t ht argv pre1 post1 pre2 post2 s1 s2 b1 b2 h1 h2 hp1 hp2 f1 f2 g1 g2 hne ns ex
  have hshape := (parsers_in_modelled_shape t ht).2
  have hn := actions_share_dest t ht
  -- an option string found in the table starts with '-' and is not `--` (facts of the generated tables)
  have hfacts : ∀ u ∈ Gen.Cli.tools, ∀ p ∈ optionMap u, p.1.head? = some dash ∧ p.1 ≠ dashdash := by decide
  have hmem : ∀ (s : Str) (b : Gen.Cli.Action), findOpt t s = some b → (s.head? = some dash ∧ s ≠ dashdash) ∧ b ∈ t.actions := by
    intro s b hf
    unfold findOpt at hf
    cases hfind : (optionMap t).find? (fun p => p.1 == s) with
    | none => rw [hfind] at hf; simp at hf
    | some p =>
      rw [hfind] at hf
      simp only [Option.map_some, Option.some.injEq] at hf
      have hp := List.mem_of_find?_eq_some hfind
      have he : p.1 = s := by simpa using List.find?_some hfind
      refine ⟨by rw [← he]; exact hfacts t ht p hp, ?_⟩
      subst hf
      unfold optionMap at hp
      simp only [List.mem_flatMap, List.mem_map] at hp
      obtain ⟨a, ha, o, _, rfl⟩ := hp
      exact ha
  obtain ⟨⟨hd1, hs1⟩, hb1⟩ := hmem s1 b1 f1
  obtain ⟨⟨hd2, hs2⟩, hb2⟩ := hmem s2 b2 f2
  exact cliParse_two_actions t hshape argv pre1 post1 pre2 post2 s1 s2 b1 b2 h1 h2 hp1 hp2 hs1 hs2 hd1 hd2 f1 f2
    ⟨g1, (hn b1 hb1 g1).2⟩ ⟨g2, (hn b2 hb2 g2).2⟩ hne ns ex

open Moto.Argparse in
/-- **C19 (missing action)**: for the three archivers and every command line on which no argument string reaches an option of
    the required group (no string is one of its option strings, none is a cluster of single-dash flags), the run is never
    accepted. -/
theorem missing_action_rejected : ∀ t ∈ Gen.Cli.tools, t.groupRequired = true → ∀ (argv : List Str),
    (∀ s ∈ argv, NoGroupStr t s) → ∀ ns ex, cliParse t argv ≠ .ok ns ex :=
  fun t ht hreq argv hall ns ex => cliParse_no_action t hreq (parsers_in_modelled_shape t ht).2 argv hall ns ex

open Moto.Argparse in
/-- the three archivers are the tools with a required group -/
theorem archivers_require_an_action : ∀ t ∈ Gen.Cli.tools,
    (t.groupRequired = true ↔ t.name ∈ [Tape.str "moto_tar", Tape.str "moto_sdar", Tape.str "moto_fdar"]) := by decide

def toolNamed (n : String) : Gen.Cli.Tool :=
  (Gen.Cli.tools.find? (fun t => t.name == Tape.str n)).getD { name := [], allowAbbrev := false, groupRequired := false, parseMode := .other, actions := [] }

def noAction : Gen.Cli.Action := { opts := [], nargs := 0, dest := [], const := [], isInt := false, inGroup := false, default := [] }

open Moto.Argparse in
/-- what `disk_form_accepted` needs of a parser description, as one decidable condition: its positionals are the archive (one string,
    the only required positional) then the sources (`*`), `run()` uses `parse_known_args` and the `--eos` filter, the actions
    store a non-empty constant into `action` -/
def DiskShape (t : Gen.Cli.Tool) : Prop :=
  let pa := (initSt t).pos.getD 0 noAction
  let ps := (initSt t).pos.getD 1 noAction
  (initSt t).pos = [pa, ps] ∧ t.parseMode = .knownThenEosFilter ∧ ps.dest = sourcesDest ∧ pa.dest = Tape.str "archive" ∧
    pa.nargs = 3 ∧ ps.nargs = 2 ∧ pa.isInt = false ∧ pa.inGroup = false ∧ ps.inGroup = false ∧ (pa.dest == helpDest) = false ∧
    (ps.dest == helpDest) = false ∧ (∀ x ∈ t.actions, (x.nargs == 3 || x.nargs == 4) = true → x.dest = pa.dest) ∧ (ps.dest == pa.dest) = false ∧
    (∀ a ∈ t.actions, a.inGroup = true → (ps.dest == a.dest) = false ∧ (pa.dest == a.dest) = false ∧ (a.dest == helpDest) = false ∧ a.nargs = 0 ∧
      a.dest = Tape.str "action" ∧ a.const.isEmpty = false)

instance (t : Gen.Cli.Tool) : Decidable (DiskShape t) := by unfold DiskShape; infer_instance

theorem disk_archivers_shape : DiskShape (toolNamed "moto_sdar") ∧ DiskShape (toolNamed "moto_fdar") := by decide +kernel

open Moto.Argparse in
/-- **C19 / C10 (the documented command line of the disk archivers is accepted, `--eos` where it stands)**: for both disk archivers,
    every option string `act` of an action (`-c`, `--create`, `-r`, `--add`, `-t`, …), every plain archive name and *every* list of
    sources — plain strings not starting with '-' and `--eos` markers in any letter case, in any number and order — the command
    line `act archive sources…` reaches `run()`: no usage error, `args.archive` is the archive, `args.action` the action,
    and `args.sources` is the list exactly as given, markers included, in the order given (the repair F19 at the level of every
    command line). -/
theorem disk_documented_form_accepted (n : String) (hn : n = "moto_sdar" ∨ n = "moto_fdar") (a : Gen.Cli.Action) (act arc : Str) (srcs : List Str)
    (hact : classify (toolNamed n) act = .opt a act none) (hain : a.inGroup = true) (hmem : a ∈ (toolNamed n).actions) (hactne : act ≠ dashdash)
    (harc : Plain (toolNamed n) arc) (hsrcs : ∀ s ∈ srcs, DiskSrc (toolNamed n) s) :
    ∃ ns, cliParse (toolNamed n) (act :: arc :: srcs) = .ok ns [] ∧ lookup ns (Tape.str "archive") = some (.str arc) ∧
      lookup ns (Tape.str "action") = some (.str a.const) ∧ lookup ns sourcesDest = some (.list srcs) := by
  have hshape : DiskShape (toolNamed n) := by
    rcases hn with rfl | rfl
    · exact disk_archivers_shape.1
    · exact disk_archivers_shape.2
  generalize toolNamed n = t at *
  obtain ⟨hpos, hmode, hsd, had, ha, hs, hai, hga, hgs, hda, hds, hreq, hd1, hgrp⟩ := hshape
  obtain ⟨hd2, hd3, hadest, han, hadst, hconst⟩ := hgrp a hmem hain
  obtain ⟨ns, h1, h2, h3, h4⟩ := disk_form_accepted t _ _ a act arc srcs hmode hsd hpos ha hs hai hga hgs hda hds hreq
    hd1 hd2 hd3 hactne hact hain han hadest harc hsrcs
  refine ⟨ns, h1, by rw [← had]; exact h2, ?_, by rw [← hsd]; exact h4⟩
  rw [← hadst, h3, if_neg (by simp [hconst])]

open Moto.Argparse in
/-- the same condition for the tape archiver, whose `run()` calls `parse_args()` -/
def TapeShape (t : Gen.Cli.Tool) : Prop :=
  let pa := (initSt t).pos.getD 0 noAction
  let ps := (initSt t).pos.getD 1 noAction
  (initSt t).pos = [pa, ps] ∧ t.parseMode = .strict ∧ ps.dest = sourcesDest ∧ pa.dest = Tape.str "archive" ∧
    pa.nargs = 3 ∧ ps.nargs = 2 ∧ pa.isInt = false ∧ pa.inGroup = false ∧ ps.inGroup = false ∧ (pa.dest == helpDest) = false ∧
    (ps.dest == helpDest) = false ∧ (∀ x ∈ t.actions, (x.nargs == 3 || x.nargs == 4) = true → x.dest = pa.dest) ∧ (ps.dest == pa.dest) = false ∧
    (∀ a ∈ t.actions, a.inGroup = true → (ps.dest == a.dest) = false ∧ (pa.dest == a.dest) = false ∧ (a.dest == helpDest) = false ∧ a.nargs = 0 ∧
      a.dest = Tape.str "action" ∧ a.const.isEmpty = false)

instance (t : Gen.Cli.Tool) : Decidable (TapeShape t) := by unfold TapeShape; infer_instance

theorem tape_archiver_shape : TapeShape (toolNamed "moto_tar") := by decide +kernel

open Moto.Argparse in
/-- **C19 (the documented command line of the tape archiver is accepted)**: every action option string, every plain archive name,
    every list of plain sources: `act archive sources…` reaches `run()` with exactly these arguments, the sources in the order given -/
theorem tape_documented_form_accepted (a : Gen.Cli.Action) (act arc : Str) (srcs : List Str)
    (hact : classify (toolNamed "moto_tar") act = .opt a act none) (hain : a.inGroup = true) (hmem : a ∈ (toolNamed "moto_tar").actions)
    (hactne : act ≠ dashdash) (harc : Plain (toolNamed "moto_tar") arc) (hsrcs : ∀ s ∈ srcs, Plain (toolNamed "moto_tar") s) :
    ∃ ns, cliParse (toolNamed "moto_tar") (act :: arc :: srcs) = .ok ns [] ∧ lookup ns (Tape.str "archive") = some (.str arc) ∧
      lookup ns (Tape.str "action") = some (.str a.const) ∧ lookup ns sourcesDest = some (.list srcs) := by
  have hshape := tape_archiver_shape
  generalize toolNamed "moto_tar" = t at *
  obtain ⟨hpos, hmode, hsd, had, ha, hs, hai, hga, hgs, hda, hds, hreq, hd1, hgrp⟩ := hshape
  obtain ⟨hd2, hd3, hadest, han, hadst, hconst⟩ := hgrp a hmem hain
  obtain ⟨ns, h1, h2, h3, h4⟩ := strict_form_accepted t _ _ a act arc srcs hmode hpos ha hs hai hga hgs hda hds hreq
    hd1 hd2 hd3 hactne hact hain han hadest harc hsrcs
  refine ⟨ns, h1, by rw [← had]; exact h2, ?_, by rw [← hsd]; exact h4⟩
  rw [← hadst, h3, if_neg (by simp [hconst])]

open Moto.Argparse in
/-- every tool's option strings are pairwise distinct, `-x` or `--word`, and abbreviations are off: no argument string is ever
    ambiguous (`Argparse.classify_not_ambiguous`), the parser's "ambiguous option" error cannot occur -/
theorem options_never_ambiguous : ∀ t ∈ Gen.Cli.tools, PlainOptions t := by decide +kernel

open Moto.Argparse in
/-- the string is exactly a help option of the parser: no value, not in the group -/
def helpOK (u : Gen.Cli.Tool) (x : Str) : Bool :=
  match classify u x with
  | .opt a o none => o == x && a.nargs == 0 && !a.inGroup && a.dest == helpDest
  | _ => false

open Moto.Argparse in
/-- **C19 (`--help` answers with status 0)**: for every tool, `-h` or `--help` as the first argument ends the run with the help text,
    whatever follows on the line -/
theorem help_answers : ∀ t ∈ Gen.Cli.tools, ∀ (h : Str) (rest : List Str), (h = Tape.str "-h" ∨ h = Tape.str "--help") →
    cliParse t (h :: rest) = .help := by
  intro t ht h rest hh
  have hamb : tokenize t rest ≠ none := tokenize_isSome t (options_never_ambiguous t ht) rest
  have hdec : ∀ u ∈ Gen.Cli.tools, helpOK u (Tape.str "-h") = true ∧ helpOK u (Tape.str "--help") = true := by decide +kernel
  have hfacts : ∀ u ∈ Gen.Cli.tools, ∀ x, (x = Tape.str "-h" ∨ x = Tape.str "--help") →
      ∃ a, classify u x = .opt a x none ∧ a.nargs = 0 ∧ a.inGroup = false ∧ a.dest = helpDest := by
    intro u hu x hx
    have hok : helpOK u x = true := by rcases hx with rfl | rfl; exact (hdec u hu).1; exact (hdec u hu).2
    unfold helpOK at hok
    split at hok
    · rename_i a o hcl
      simp only [Bool.and_eq_true, beq_iff_eq, Bool.not_eq_true'] at hok
      obtain ⟨⟨⟨ho, hn⟩, hg⟩, hd⟩ := hok
      exact ⟨a, by rw [hcl, ho], hn, hg, hd⟩
    · simp at hok
  obtain ⟨a, hc, hn, hg, hd⟩ := hfacts t ht h hh
  have hne : h ≠ dashdash := by rcases hh with rfl | rfl <;> decide
  exact help_first t h a rest hne hc hn hg hd hamb

section examples
open Moto.Argparse

/-- the hypotheses are met by ordinary strings: `--bogus` and `-z` are unknown to every tool; `--eos` is unknown to the parser of
    the disk archivers (and accepted by their `run()`) -/
example : ∀ t ∈ Gen.Cli.tools, classify t (Tape.str "--bogus") = .unknown ∧ classify t (Tape.str "-z") = .unknown := by decide +kernel
example : classify (toolNamed "moto_fdar") (Tape.str "--eos") = .unknown := by decide +kernel
/-- the documented spelling of F19 is accepted, the marker and the sources in the order given -/
example : cliParse (toolNamed "moto_fdar") [Tape.str "-c", Tape.str "d.fd", Tape.str "a.dat", Tape.str "--eos", Tape.str "b.dat"] =
    .ok [(Tape.str "archive", .str (Tape.str "d.fd")), (Tape.str "sources", .list [Tape.str "a.dat", Tape.str "--eos", Tape.str "b.dat"]),
         (Tape.str "action", .str (Tape.str "create")), (Tape.str "verbose", .bool false), (Tape.str "into", .none)] [] := by decide +kernel
example : cliParse (toolNamed "moto_tar") [Tape.str "-c", Tape.str "-t", Tape.str "a.k7"] = .error := by decide +kernel
example : cliParse (toolNamed "moto_tar") [Tape.str "a.k7", Tape.str "b.dat"] = .error := by decide +kernel
example : cliParse (toolNamed "moto_nl") [Tape.str "-i5", Tape.str "--bogus", Tape.str "p.lst"] = .error := by decide +kernel
example : cliParse (toolNamed "moto_nl") [Tape.str "-hz"] = .error := by decide +kernel
example : cliParse (toolNamed "moto_nl") [Tape.str "--bogus", Tape.str "-h"] = .help := by decide +kernel
/-- the hypotheses of `disk_documented_form_accepted` are met by the strings of the manuals -/
example : ∃ a, classify (toolNamed "moto_fdar") (Tape.str "-c") = .opt a (Tape.str "-c") none ∧ a.inGroup = true ∧ a ∈ (toolNamed "moto_fdar").actions :=
  -- the action is looked up by its option string, not by its position: the order in which the group's actions are declared is free
  ⟨((toolNamed "moto_fdar").actions.find? (fun a => a.opts.contains (Tape.str "-c"))).getD noAction, by decide +kernel, by decide +kernel, by decide +kernel⟩
example : Plain (toolNamed "moto_fdar") (Tape.str "d.fd") ∧ DiskSrc (toolNamed "moto_fdar") (Tape.str "a.dat") ∧ DiskSrc (toolNamed "moto_fdar") (Tape.str "--Eos") := by
  refine ⟨⟨by decide +kernel, by decide⟩, Or.inl ⟨by decide +kernel, by decide, by decide⟩, Or.inr ⟨by decide +kernel, by decide⟩⟩
end examples

end Moto.C19
