import MotoModel.Model.DiskCli
import MotoModel.Gen.Cli
namespace Moto.C19
open Moto
theorem placeholder : Gen.Cli.tools.length = 7 := rfl
end Moto.C19
