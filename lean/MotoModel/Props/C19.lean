/-
  C19 — every documented command starts, checks its arguments, writes where documented.
  Finite facts about the CLI description regenerated from the source (Gen.Cli), and placement
  theorems about the extract models.  Interpreter start-up and argparse itself are outside the
  model (see DESIGN.md): that part is enumerated exhaustively at process level by the check.
-/
import MotoModel.Model.DiskCli
import MotoModel.Gen.Cli
import MotoModel.Proofs.PathSpelling
namespace Moto.C19
open Moto

def documentedTools : List Str :=
  [Tape.str "moto_tar", Tape.str "moto_sdar", Tape.str "moto_fdar", Tape.str "moto_nl", Tape.str "moto_prettier",
   Tape.str "moto_bas2lst", Tape.str "moto_lst2bas"]

/-- every documented `python3 -m <tool>` has a package with `__init__` and `__main__` whose
    relative imports all resolve to files of the package -/
theorem packages_resolve : Gen.Cli.packages.map (·.1) = documentedTools
    ∧ ∀ p ∈ Gen.Cli.packages, p.2.1 = true ∧ p.2.2 = [] := by decide

/-- every console script the project declares points at an existing `package.__main__:main`
    of a documented package -/
theorem scripts_resolve : ∀ s ∈ Gen.Cli.scripts, s.2.2 = true ∧ s.2.1 ∈ documentedTools := by decide

/-- no tool accepts abbreviated long options -/
theorem no_abbreviations : ∀ t ∈ Gen.Cli.tools, t.allowAbbrev = false := by decide

def actionConsts (t : Gen.Cli.Tool) : List Str := (t.actions.filter (·.inGroup)).map (·.const)

/-- the three archivers require exactly one action out of the documented ones -/
theorem archiver_actions :
    ∀ t ∈ Gen.Cli.tools,
      (t.name = Tape.str "moto_tar" → t.groupRequired = true ∧ actionConsts t = [Tape.str "create", Tape.str "list", Tape.str "extract"]) ∧
      (t.name = Tape.str "moto_sdar" ∨ t.name = Tape.str "moto_fdar" →
        t.groupRequired = true ∧ actionConsts t = [Tape.str "create", Tape.str "list", Tape.str "extract", Tape.str "add"]) := by
  decide

/-- every action of the exclusive group stores into the same destination: two of them conflict -/
theorem actions_share_dest : ∀ t ∈ Gen.Cli.tools, ∀ a ∈ t.actions, a.inGroup = true → a.dest = Tape.str "action" ∧ a.nargs = 0 := by
  decide

/-- every tool has the help option; `--into` takes one value where it exists -/
theorem help_everywhere : ∀ t ∈ Gen.Cli.tools, ∃ a ∈ t.actions, a.opts = [Tape.str "-h", Tape.str "--help"] := by decide

/-! ### placement -/

/-- **C19 (tape extract placement)**: every file written by tape extract is a direct child of the
    `--into` directory when given, of the archive's directory otherwise. -/
theorem tape_extract_placement_step (extract : Bool) (dir : Str) (s : Tape.RState) (raw : Bytes) :
    (Tape.readStep extract dir s raw).1.writes = s.writes ∨
    ∃ f c, (Tape.readStep extract dir s raw).1.writes = s.writes ++ [(pathJoin dir f, c)] ∧ f.contains 47 = false := by
  unfold Tape.readStep
  cases Tape.blockType raw with
  | invalid => exact Or.inl rfl
  | leader =>
    simp only
    cases Tape.descOfBlock raw with
    | error e => exact Or.inl rfl
    | ok d => exact Or.inl rfl
  | data =>
    simp only
    cases Tape.onDataBlock s.l raw with
    | error e => exact Or.inl rfl
    | ok l' => exact Or.inl rfl
  | eof =>
    simp only
    cases extract with
    | false =>
      simp only [Bool.false_eq_true, if_false]
      cases Tape.onEndBlock s.l with
      | error e => exact Or.inl rfl
      | ok r => exact Or.inl rfl
    | true =>
      simp only [if_true]
      cases s.desc with
      | none => exact Or.inl rfl
      | some d =>
        simp only
        by_cases h47 : (d.name ++ [46] ++ d.ext).contains 47 = true
        · simp only [h47, if_true]; exact Or.inl trivial
        · simp only [h47, Bool.false_eq_true, if_false]
          split
          · exact Or.inl rfl
          · by_cases h0 : (d.name ++ [46] ++ d.ext).contains 0 = true
            · simp only [h0, if_true]; exact Or.inl trivial
            · by_cases ho : (!Tape.openable (d.name ++ [46] ++ d.ext)) = true
              · simp only [h0, ho, if_true, if_false, Bool.false_eq_true]; exact Or.inl trivial
              · simp only [h0, ho, if_false, Bool.false_eq_true]
                cases Tape.onEndBlock s.l with
                | error e => exact Or.inr ⟨_, _, rfl, by simpa using h47⟩
                | ok r => exact Or.inr ⟨_, _, rfl, by simpa using h47⟩

theorem tape_extract_placement_loop (dir : Str) (blocks : List Bytes) : ∀ (s : Tape.RState),
    (∀ w ∈ s.writes, ∃ f, w.1 = pathJoin dir f ∧ f.contains 47 = false) →
    ∀ w ∈ (Tape.readLoop true dir s blocks).2.writes, ∃ f, w.1 = pathJoin dir f ∧ f.contains 47 = false := by
  induction blocks with
  | nil => intro s hs; simpa [Tape.readLoop] using hs
  | cons raw rest ih =>
    intro s hs
    simp only [Tape.readLoop]
    cases hstep : Tape.readStep true dir s raw with
    | mk s' e =>
      have hs' : ∀ w ∈ s'.writes, ∃ f, w.1 = pathJoin dir f ∧ f.contains 47 = false := by
        intro w hw
        have hst := tape_extract_placement_step true dir s raw
        rw [hstep] at hst
        rcases hst with h | ⟨f, c, h, hf⟩
        · rw [h] at hw; exact hs w hw
        · rw [h] at hw
          simp only [List.mem_append, List.mem_singleton] at hw
          rcases hw with h1 | h1
          · exact hs w h1
          · exact ⟨f, by rw [h1], hf⟩
      cases e with
      | none => exact ih s' hs'
      | some err => simpa using hs'

theorem tape_extract_placement (verbose : Bool) (archive : Str) (into : Option Str) (tape : Bytes) :
    ∀ w ∈ (Tape.extract verbose archive into tape).writes,
      ∃ f, w.1 = pathJoin (Tape.targetDirOf archive into) f ∧ f.contains 47 = false := by
  unfold Tape.extract
  exact tape_extract_placement_loop _ _ _ (by simp)

theorem into_wins (archive d : Str) : Tape.targetDirOf archive (some d) = d := rfl
theorem beside_archive (archive : Str) : Tape.targetDirOf archive none = dirname archive := rfl

/-- listing writes nothing -/
theorem tape_list_no_effect (verbose : Bool) (tape : Bytes) :
    (Tape.enumerate verbose tape).writes = [] ∧ (Tape.enumerate verbose tape).mkdirs = [] := ⟨rfl, rfl⟩

/-! ### the archive name -/

/-- the split of a list around the last occurrence of `c` is unique -/
theorem last_split_unique (c : Nat) (p1 p2 q1 q2 : Str) (h : p1 ++ c :: q1 = p2 ++ c :: q2) (h1 : c ∉ q1) (h2 : c ∉ q2) :
    p1 = p2 ∧ q1 = q2 := by
  induction p1 generalizing p2 with
  | nil =>
    cases p2 with
    | nil => simp at h; exact ⟨rfl, h⟩
    | cons y ys =>
      simp only [List.nil_append, List.cons_append, List.cons.injEq] at h
      exfalso
      apply h1
      rw [h.2]; simp
  | cons x xs ih =>
    cases p2 with
    | nil =>
      simp only [List.nil_append, List.cons_append, List.cons.injEq] at h
      exfalso
      apply h2
      rw [← h.2]; simp
    | cons y ys =>
      simp only [List.cons_append, List.cons.injEq] at h
      obtain ⟨hp, hq⟩ := ih ys h.2
      exact ⟨by rw [h.1, hp], hq⟩

open Moto.Disk in
/-- **C19 (wrong archive extension)**: the disk archivers accept an archive name exactly when what
    follows its last dot is the two letters of their flavour, in either case — `sd` for moto_sdar,
    `fd` for moto_fdar; a name without a dot, with another extension, or with anything after the
    extension is refused with a `ValueError` before any file is opened -/
theorem archive_name_rule (fl : Flavour) (a : Str) :
    checkArchiveName fl a = .ok () ↔
      ∃ stem x y, a = stem ++ [46, x, y] ∧ x ≠ 46 ∧ y ≠ 46
        ∧ lowerC x = (match fl with | .sd => 115 | .fd => 102) ∧ lowerC y = 100 := by
  unfold checkArchiveName
  cases fl
  all_goals
    dsimp only
    rcases rfind_split 46 a with ⟨hn, hno⟩ | ⟨i, hi, pre, post, ha, hpl, hpost⟩
    · rw [hn]
      constructor
      · intro h; cases h
      · rintro ⟨stem, x, y, rfl, _⟩; exfalso; apply hno; simp
    · rw [hi]
      dsimp only
      have hdrop : a.drop (i + 1) = post := by
        rw [ha, ← hpl]
        have : pre ++ 46 :: post = (pre ++ [46]) ++ post := by simp
        rw [this]
        exact List.drop_left' (by simp)
      rw [hdrop]
      constructor
      · intro h
        split at h
        · rename_i hl
          have hlen : post.length = 2 := by
            have := congrArg List.length hl
            simpa [lower, Tape.str] using this
          match post, hlen with
          | [x, y], _ =>
            simp [lower, Tape.str] at hl
            refine ⟨pre, x, y, by rw [ha], ?_, ?_, hl.1, hl.2⟩
            · intro e; apply hpost; simp [e]
            · intro e; apply hpost; simp [e]
        · cases h
      · rintro ⟨stem, x, y, hst, hx, hy, hlx, hly⟩
        have hsplit : pre ++ 46 :: post = stem ++ 46 :: [x, y] := by rw [← ha, hst]
        obtain ⟨_, hq⟩ := last_split_unique 46 pre stem post [x, y] hsplit hpost
          (by simp only [List.mem_cons, List.mem_nil_iff, or_false, not_or]; exact ⟨fun e => hx e.symm, fun e => hy e.symm⟩)
        rw [hq]
        rw [if_pos (by simp [lower, Tape.str, hlx, hly])]

end Moto.C19
