/-
  C01 — tape archive round trip: create, then list/extract, returns every file intact.
-/
import MotoModel.Proofs.TapeFiles
import MotoModel.Props.C03
import MotoModel.Props.C08
import MotoModel.Props.C09
import MotoModel.Proofs.PathNorm
import MotoModel.Proofs.Names
namespace Moto.C01
open Moto Moto.Tape

/-- the catalog name of a source as the tool files it: upper-cased `NAME.EXT` -/
def catalogName (s : Str) : Str := upper (classify s).1.name ++ [46] ++ upper (classify s).1.ext

/-- sources whose archived names are ordinary 8.3 directory entries -/
def ValidNames (srcs : List Str) : Prop :=
  ∀ s ∈ srcs, NameOK (upper (classify s).1.name) (upper (classify s).1.ext)

/-- the blocks of a created tape, as the independent writer would lay them out: sixteen 01, no gap -/
def asWritten (bs : List (Nat × Bytes)) : List Spec.K7.WBlock := bs.map (fun b => ⟨16, b.1, b.2, []⟩)

theorem encode_eq_render (bs : List (Nat × Bytes)) :
    Spec.K7.encodeBlocks bs = Spec.K7.render [] (asWritten bs) := by
  simp [Spec.K7.encodeBlocks, Spec.K7.render, asWritten, List.flatMap_map, Spec.K7.renderBlock, Spec.K7.sync]

theorem fileBlocks_wf (f : Spec.K7.SFile) : ∀ b ∈ asWritten (Spec.K7.fileBlocks f), b.wf := by
  intro b hb
  simp only [asWritten, Spec.K7.fileBlocks, List.map_cons, List.map_append, List.map_map, List.mem_cons,
    List.mem_append, List.mem_map, List.map_nil] at hb
  rcases hb with h | ⟨c, hc, h⟩ | h
  · subst h
    refine ⟨Nat.le_of_ble_eq_true rfl, ?_, by simp⟩
    have := (C03.leader_fields f).2.2
    simp only; omega
  · subst h
    refine ⟨Nat.le_of_ble_eq_true rfl, ?_, by simp⟩
    exact (C03.chunks_bounds f.content c hc).2
  · simp only [List.not_mem_nil, or_false] at h
    subst h; exact ⟨Nat.le_of_ble_eq_true rfl, by simp, by simp⟩

/-- **C01 (blocks)**: reading a created tape returns exactly the frames of the files' blocks -/
theorem created_tape_blocks (fs : List Spec.K7.SFile) :
    readAll (Spec.K7.tape fs) = (fs.flatMap Spec.K7.fileBlocks).map (fun b => Spec.K7.frame b.1 b.2) := by
  unfold Spec.K7.tape Spec.K7.encode
  rw [encode_eq_render]
  have hwf : ∀ b ∈ asWritten (fs.flatMap Spec.K7.fileBlocks), b.wf := by
    intro b hb
    simp only [asWritten, List.mem_map, List.mem_flatMap] at hb
    obtain ⟨x, ⟨f, _, hx⟩, rfl⟩ := hb
    exact fileBlocks_wf f _ (by simp only [asWritten, List.mem_map]; exact ⟨x, hx, rfl⟩)
  rw [C08.read_blocks_padded [] _ _ (by simp) (by simp) hwf]
  simp [asWritten]

theorem frames_of_file (f : Spec.K7.SFile) :
    (Spec.K7.fileBlocks f).map (fun b => Spec.K7.frame b.1 b.2)
      = fileFrames f.name f.ext f.kind f.mode (Spec.K7.chunks254 f.content) := by
  simp [Spec.K7.fileBlocks, fileFrames, Spec.K7.leaderPayload]

/-- the extractor over the frames of a list of files: every file written once, in order, intact -/
theorem readLoop_files (dir : Str) (fs : List Spec.K7.SFile) : ∀ (s : RState),
    (∀ f ∈ fs, NameOK f.name f.ext) → (∀ f ∈ fs, collides s.keep (pathJoin dir (f.name ++ [46] ++ f.ext)) = false) →
    ∃ s', readLoop true dir s ((fs.flatMap Spec.K7.fileBlocks).map (fun b => Spec.K7.frame b.1 b.2)) = (.ret 0, s')
      ∧ s'.writes = s.writes ++ fs.map (fun f => (pathJoin dir (f.name ++ [46] ++ f.ext), f.content))
      ∧ (s.l.verbose = false → s'.out = s.out ++ fs.map (fun f => f.name ++ [46] ++ f.ext))
      ∧ s'.out.length = s.out.length + fs.length := by
  induction fs with
  | nil => intro s _ _; exact ⟨s, by simp [readLoop], by simp, by simp, by simp⟩
  | cons f rest ih =>
    intro s hn hk
    simp only [List.flatMap_cons, List.map_append, frames_of_file]
    obtain ⟨l', e, hv, _⟩ := readLoop_file dir f.name f.ext f.kind f.mode (Spec.K7.chunks254 f.content)
      (hn f (by simp)) s ((rest.flatMap Spec.K7.fileBlocks).map (fun b => Spec.K7.frame b.1 b.2)) (hk f (by simp))
    rw [e]
    obtain ⟨s', e', hw, ho, hl⟩ := ih
      { l := l', keep := s.keep,
        out := s.out ++ [lineOf s.l.verbose ⟨f.name, f.ext, f.kind, f.mode⟩ (s.l.blockIndex + 1)
                          ((Spec.K7.chunks254 f.content).map List.length).sum (Spec.K7.chunks254 f.content).length],
        desc := some ⟨f.name, f.ext, f.kind, f.mode⟩, content := (Spec.K7.chunks254 f.content).flatten,
        writes := s.writes ++ [(pathJoin dir (f.name ++ [46] ++ f.ext), (Spec.K7.chunks254 f.content).flatten)] }
      (fun f' hf' => hn f' (by simp [hf'])) (fun f' hf' => hk f' (by simp [hf']))
    refine ⟨s', e', ?_, ?_, ?_⟩
    · rw [hw]; simp [C03.chunks_concat]
    · intro hq
      rw [ho (by simp [hv, hq])]
      simp [lineOf, endLine, hq]
    · rw [hl]; simp; omega

/-- **C01 (round trip)**: for every ordered list of readable sources that fits on the tape, with
    ordinary 8.3 names and *any* contents, create writes an archive from which extract writes
    each file byte for byte under its upper-cased name next to the archive (or under `--into`),
    in order, and list names exactly those files in the order given. -/
theorem roundtrip (w : World) (v1 v2 : Bool) (archive : Str) (into : Option Str) (srcs : List Str)
    (hr : AllReadable w archive srcs) (hn : ValidNames srcs)
    (hfit : Spec.K7.encSize (srcs.map (C03.specFile w)) < 21504)
    (hk : ∀ s ∈ srcs, samePath (pathJoin (targetDirOf archive into) (catalogName s)) archive = false) :
    ∃ tape, (inject w v1 archive srcs).writes = [(archive, tape)]
      ∧ (extract v2 archive into tape).status = .ret 0
      ∧ (extract v2 archive into tape).writes
          = srcs.map (fun s => (pathJoin (targetDirOf archive into) (catalogName s), contentOf w s))
      ∧ (enumerate false tape).status = .ret 0
      ∧ (enumerate false tape).out = srcs.map catalogName := by
  refine ⟨Spec.K7.tape (srcs.map (C03.specFile w)), (C09.accepted w v1 archive srcs hr hfit).2.1, ?_⟩
  have hnames : ∀ f ∈ srcs.map (C03.specFile w), NameOK f.name f.ext := by
    intro f hf
    simp only [List.mem_map] at hf
    obtain ⟨s, hs, rfl⟩ := hf
    exact hn s hs
  have hx : ∀ (v : Bool) (dir : Str) (k : Option Str), (∀ s ∈ srcs, collides k (pathJoin dir (catalogName s)) = false) →
      ∃ s', readLoop true dir { l := { verbose := v }, keep := k } (readAll (Spec.K7.tape (srcs.map (C03.specFile w)))) = (.ret 0, s')
      ∧ s'.writes = srcs.map (fun s => (pathJoin dir (catalogName s), contentOf w s))
      ∧ (v = false → s'.out = srcs.map catalogName) := by
    intro v dir k hcol
    rw [created_tape_blocks]
    obtain ⟨s', e, hw, ho, _⟩ := readLoop_files dir (srcs.map (C03.specFile w)) { l := { verbose := v }, keep := k } hnames (by
      intro f hf
      simp only [List.mem_map] at hf
      obtain ⟨s, hs, rfl⟩ := hf
      exact hcol s hs)
    refine ⟨s', e, ?_, ?_⟩
    · rw [hw]; simp [List.map_map, C03.specFile, catalogName, Function.comp_def]
    · intro hv; rw [ho hv]; simp [List.map_map, C03.specFile, catalogName, Function.comp_def]
  obtain ⟨sx, ex, hwx, _⟩ := hx v2 (targetDirOf archive into) (some archive) hk
  obtain ⟨sq, eq, _, hoq⟩ := hx false [] none (fun _ _ => rfl)
  have hl := C08.list_extract_agree_dir false [] _ none (by rw [eq])
  refine ⟨?_, ?_, hl.1, ?_⟩
  · simp only [extract]; rw [ex]
  · simp only [extract]; rw [ex]; exact hwx
  · rw [hl.2, eq]; exact hoq rfl

/-- the content of path `p` after a list of writes (each write creates or truncates its file) -/
def contentAfter (writes : List (Str × Bytes)) (p : Str) : Option Bytes :=
  (writes.reverse.find? (fun wr => wr.1 == p)).map (·.2)

theorem nodup_map_inj : ∀ (l : List (Str × Bytes)), (l.map (·.1)).Nodup → ∀ x y, x ∈ l → y ∈ l → x.1 = y.1 → x = y := by
  intro l
  induction l with
  | nil => intro _ x y hx; cases hx
  | cons a r ih =>
    intro hnd x y hx hy hxy
    simp only [List.map_cons, List.nodup_cons, List.mem_map, not_exists, not_and] at hnd
    rcases List.mem_cons.mp hx with rfl | hx' <;> rcases List.mem_cons.mp hy with rfl | hy'
    · rfl
    · exact absurd hxy.symm (hnd.1 y hy')
    · exact absurd hxy (hnd.1 x hx')
    · exact ih hnd.2 x y hx' hy' hxy

theorem contentAfter_of_nodup : ∀ (writes : List (Str × Bytes)), (writes.map (·.1)).Nodup →
    ∀ wr ∈ writes, contentAfter writes wr.1 = some wr.2 := by
  intro writes hnd wr hm
  unfold contentAfter
  have hmem : wr ∈ writes.reverse := List.mem_reverse.mpr hm
  cases hf : writes.reverse.find? (fun x => x.1 == wr.1) with
  | none =>
    have := List.find?_eq_none.mp hf wr hmem
    simp at this
  | some x =>
    have hx1 : x.1 = wr.1 := by have := List.find?_some hf; simpa using this
    have hxm : x ∈ writes := List.mem_reverse.mp (List.mem_of_find?_eq_some hf)
    -- two writes to the same path in a list without repeated paths are the same write
    have : x = wr := nodup_map_inj writes hnd x wr hxm hm hx1
    rw [this]; rfl

/-- **C01 (what the destination directory holds afterwards)**: when the catalog names of the sources
    are pairwise distinct, after create then extract every source's content sits under its
    upper-cased 8.3 name in the destination: no file overwrites another -/
theorem roundtrip_directory (w : World) (v1 v2 : Bool) (archive : Str) (into : Option Str) (srcs : List Str)
    (hr : AllReadable w archive srcs) (hn : ValidNames srcs)
    (hfit : Spec.K7.encSize (srcs.map (C03.specFile w)) < 21504)
    (hd : (srcs.map fun s => pathJoin (targetDirOf archive into) (catalogName s)).Nodup)
    (hk : ∀ s ∈ srcs, samePath (pathJoin (targetDirOf archive into) (catalogName s)) archive = false) :
    ∃ tape, (inject w v1 archive srcs).writes = [(archive, tape)]
      ∧ ∀ s ∈ srcs, contentAfter (extract v2 archive into tape).writes (pathJoin (targetDirOf archive into) (catalogName s))
          = some (contentOf w s) := by
  obtain ⟨tape, h1, _, h3, _⟩ := roundtrip w v1 v2 archive into srcs hr hn hfit hk
  refine ⟨tape, h1, ?_⟩
  intro s hs
  rw [h3]
  have := contentAfter_of_nodup (srcs.map (fun s => (pathJoin (targetDirOf archive into) (catalogName s), contentOf w s)))
    (by simpa [List.map_map, Function.comp_def] using hd)
    (pathJoin (targetDirOf archive into) (catalogName s), contentOf w s) (List.mem_map_of_mem hs)
  exact this

/-- an ordinary archived name is a plain path component -/
theorem nameOK_plain (name ext : Str) (h : NameOK name ext) : 47 ∉ (name ++ [46] ++ ext) ∧ PlainComp (name ++ [46] ++ ext) := by
  have ho := h.openable
  unfold openable at ho
  simp only [Bool.and_eq_true, bne_iff_ne, ne_eq, Bool.not_eq_true'] at ho
  refine ⟨by simpa using h.no_slash, ?_, ho.1.1.1, ho.1.1.2⟩
  simp

/-- **C01 (round trip beside the archive)**: without `--into`, the only path condition is that the archive
    is not named like one of the files it holds: for every ordered list of readable sources with ordinary
    8.3 names that fits, none of whose catalog names is the archive's base name, create writes an archive
    from which extract writes each file byte for byte under its upper-cased name next to the archive, in
    order, and list names exactly those files. (A member named like the archive is refused: C20.) -/
theorem roundtrip_beside_archive (w : World) (v1 v2 : Bool) (archive : Str) (srcs : List Str)
    (hr : AllReadable w archive srcs) (hn : ValidNames srcs)
    (hfit : Spec.K7.encSize (srcs.map (C03.specFile w)) < 21504)
    (hne : ∀ s ∈ srcs, catalogName s ≠ basename archive) :
    ∃ tape, (inject w v1 archive srcs).writes = [(archive, tape)]
      ∧ (extract v2 archive none tape).status = .ret 0
      ∧ (extract v2 archive none tape).writes
          = srcs.map (fun s => (pathJoin (dirname archive) (catalogName s), contentOf w s))
      ∧ (enumerate false tape).status = .ret 0
      ∧ (enumerate false tape).out = srcs.map catalogName :=
  roundtrip w v1 v2 archive none srcs hr hn hfit (fun s hs => by
    obtain ⟨h47, hp⟩ := nameOK_plain _ _ (hn s hs)
    exact one_below_dirname_not_archive archive (catalogName s) h47 hp (hne s hs))

/-- the hypotheses are satisfiable: an ordinary name is `NameOK` -/
example : NameOK (str "A") (str "BAS") := ⟨by decide, by decide, by decide, by decide, by decide, by decide⟩
example : NameOK (str "NOEXT") [] := ⟨by decide, by decide, by decide, by decide, by decide, by decide⟩
example : catalogName (str "dir.d/prog.bas,a") = str "PROG.BAS" := by decide


theorem upperC_idem (c : Nat) : upperC (upperC c) = upperC c := by
  unfold upperC; split <;> (try split) <;> omega

theorem upper_field (n : Nat) (s : Str) : upper (Spec.Names.field n s) = Spec.Names.field n s := by
  unfold Spec.Names.field upper
  rw [← List.map_take, List.map_map]
  congr 1
  funext c
  exact upperC_idem c

/-- **C01 ("under its upper-cased 8.3 name")**: the name every theorem of this file files a source under —
    `catalogName` — is, for every argument string, `NAME.EXT` of the naming rule `Spec.Names.tapeSource`: 8 characters of
    the upper-cased stem of the last path component, a dot, 3 characters of the upper-cased text after its last dot
    (`C03.source_naming_rule`). -/
theorem catalog_name_is_8_3 (src : Str) :
    catalogName src = (Spec.Names.tapeSource src).name ++ [46] ++ (Spec.Names.tapeSource src).ext := by
  unfold catalogName
  rw [C03.source_naming_rule src]
  simp only
  have hn : upper (Spec.Names.tapeSource src).name = (Spec.Names.tapeSource src).name := by
    unfold Spec.Names.tapeSource
    split <;> exact upper_field 8 _
  have he : upper (Spec.Names.tapeSource src).ext = (Spec.Names.tapeSource src).ext := by
    unfold Spec.Names.tapeSource
    split
    · rfl
    · exact upper_field 3 _
  rw [hn, he]

end Moto.C01
