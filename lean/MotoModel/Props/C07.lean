/-
  C07 — any well-formed third-party disk image is listed and extracted exactly.
  (chain following, size formula, side counts of `load`, the efficient reader: Proofs/DiskReadProps.lean, same namespace)
-/
import MotoModel.Proofs.DiskReadProps
import MotoModel.Proofs.DiskByte0
import MotoModel.Proofs.DiskRender
import MotoModel.Proofs.DiskFewSides
import MotoModel.Proofs.DiskKindFlag
namespace Moto.C07
open Moto Moto.Disk

/-- **C07 (any well-formed image is extracted exactly)**: for every four-sided image whose sides
    are consistent file systems — whoever wrote them, whatever the allocation order and
    fragmentation, with deleted and never-used entries anywhere — and whose live entries have
    ordinary names, none of which would be extracted onto the archive itself (`hk`; the extractor
    refuses that, C20), `--extract` returns 0 and writes, for every side, exactly the files the
    independent decoder `Spec.Dos.files` finds there, in catalog order, each with the content the
    decoder assigns to its chain. -/
theorem wellformed_image_extracted_exactly (fl : Flavour) (verbose : Bool) (archive : Str) (into : Option Str) (img : Image)
    (h : ImgOk img) (hn : ∀ k, k < 4 → NiceSide (img.getD k []))
    (hk : ∀ p ∈ sidesFiles (Tape.targetDirOf archive into) img 0, samePath p.1 archive = false) :
    (extract fl verbose archive into (save fl img)).status = .ret 0
    ∧ (extract fl verbose archive into (save fl img)).writes = sidesFiles (Tape.targetDirOf archive into) img 0
    ∧ ∀ k, k < 4 → ∀ dir, ∃ fs, Spec.Dos.files (img.getD k []) = some fs
        ∧ sideFiles (img.getD k []) dir
            = fs.map (fun f => (pathJoin dir (fileNameOf ⟨1, recordOfBytes (slotData (img.getD k []) f.slot), []⟩), f.content)) := by
  obtain ⟨h1, h2⟩ := extract_consistent fl verbose archive into img h hn hk
  refine ⟨h1, h2, ?_⟩
  intro k hk dir
  obtain ⟨bat, own, inv⟩ := h.2 k hk
  exact ⟨_, spec_files_inv inv, sideFiles_eq_spec inv dir⟩

/-- **C07 (… extracted beside the archive)**: without `--into` the hypothesis on the archive's own path is
    void — the members are written two levels below the archive's directory (`sideN/NAME.EXT`), none of
    them can be the archive: any four-sided image of consistent sides with ordinary names is extracted
    (status 0) as exactly its files -/
theorem wellformed_image_extracted_beside_archive (fl : Flavour) (verbose : Bool) (archive : Str) (img : Image)
    (h : ImgOk img) (hn : ∀ k, k < 4 → NiceSide (img.getD k [])) :
    (extract fl verbose archive none (save fl img)).status = .ret 0
    ∧ (extract fl verbose archive none (save fl img)).writes = sidesFiles (dirname archive) img 0 :=
  extract_consistent_default fl verbose archive img h hn

/-- **C07 (emulator images of one or two sides, and four-sided images of either flavour)**: an
    image made of consistent sides with ordinary names — four of them, or one or two for the emulator
    flavour — is loaded back as those sides, listed as `readReport 0`, and extracted (status 0) as
    exactly the files of its sides, side after side under `side0`, `side1`, …, with the report
    `readReport 1`. -/
theorem images_of_one_two_or_four_sides (fl : Flavour) (verbose : Bool) (archive : Str) (into : Option Str) (img : Image)
    (hall : ∀ sd ∈ img, SideOk sd ∧ NiceSide sd)
    (hn : img.length = 4 ∨ (fl = .fd ∧ (img.length = 1 ∨ img.length = 2)))
    (hk : ∀ p ∈ sidesFiles (Tape.targetDirOf archive into) img 0, samePath p.1 archive = false) :
    (list fl verbose (save fl img)).status = .ret 0
    ∧ (list fl verbose (save fl img)).out = [readReport 0 verbose img]
    ∧ (extract fl verbose archive into (save fl img)).status = .ret 0
    ∧ (extract fl verbose archive into (save fl img)).writes = sidesFiles (Tape.targetDirOf archive into) img 0
    ∧ (extract fl verbose archive into (save fl img)).out = [intoText into ++ readReport 1 verbose img] := by
  obtain ⟨h1, h2⟩ := list_report_n fl verbose img hall hn
  obtain ⟨h3, h4, h5⟩ := extract_n fl verbose archive into img hall hn hk
  exact ⟨h2, h1, h3, h4, h5⟩

/-- **C07 (reader ∘ independent writer)**: for every well-formed description of a side — files in
    any catalog slots, chains in any allocation order and fragmentation (duplicate-free, inside the
    side, off the reserved blocks, pairwise disjoint), 1..8 sectors in the last block, 0..255 bytes
    in the last sector, deleted entries and extra reserved blocks anywhere, any filler bytes — the
    side laid out by the independent writer `Spec.Dos.render` is a consistent file system, and the
    tool's reader finds in it exactly the files of the description, each with exactly its content. -/
theorem independent_writer_is_read_exactly (a : Spec.Dos.ASide) (h : WFSideDesc a)
    (hsizes : ∀ f ∈ a.files, 255 * (8 * (f.chain.length - 1) + f.lastSectors - 1) + f.lastBytes = f.content.length) :
    SideOk (Spec.Dos.render a)
    ∧ (∀ f ∈ a.files, fileAt (Spec.Dos.render a) f.slot = some (recordOfBytes (Spec.Dos.entryOf a.recPad f), f.content))
    ∧ (∀ j, j < 112 → (∀ f ∈ a.files, f.slot ≠ j) → fileAt (Spec.Dos.render a) j = none) := by
  have inv := render_inv a h
  refine ⟨⟨_, _, inv⟩, ?_, ?_⟩
  · intro f hf
    have hw := h.files f hf
    rw [fileAt_inv inv f.slot hw.slot]
    have hlive : liveB (slotData (Spec.Dos.render a) f.slot) = true := by
      rw [liveB_iff, render_slotData a h f.slot hw.slot, catalogOf_file a h f hf]
      have := entryOf_0 a f hw
      exact ⟨by rw [this]; exact hw.first.2, by rw [this]; exact hw.first.1⟩
    unfold entryAt
    rw [if_pos hlive]
    simp only [Option.map_some]
    have hc := render_content a h f hf (hsizes f hf)
    unfold fileOf at hc
    rw [hc, render_slotData a h f.slot hw.slot, catalogOf_file a h f hf]
  · intro j hj hno
    rw [fileAt_inv inv j hj]
    unfold entryAt
    rw [if_neg]
    · rfl
    · intro hl
      obtain ⟨f, hf, hs, _⟩ := render_live a h j hj ((liveB_iff _).mp hl)
      exact hno f hf hs

/-- the hypotheses of `independent_writer_is_read_exactly` are decided by the executable check
    `Spec.Dos.wfDescB`, which the driver evaluates on every description the generators draw -/
theorem generator_domain (a : Spec.Dos.ASide) (h : Spec.Dos.wfDescB a = true) :
    WFSideDesc a ∧ ∀ f ∈ a.files, 255 * (8 * (f.chain.length - 1) + f.lastSectors - 1) + f.lastBytes = f.content.length :=
  wfDescB_sound a h

/-- **C07 (… each with its recorded kind)**: the kind and data-type words printed for a live entry (verbose
    `--list` / `--extract`) are those of bytes 11 and 12 of the entry as they are on the disk: kind 0..3 =
    BASIC / DATA / MODULE / TEXT, any other kind byte is shown as DATA; flag FF = ASCII, any other flag =
    TOKEN for a BASIC program and BINARY otherwise -/
theorem listed_kind_is_recorded_kind (sd : Side) (own : Nat → List Nat) (bat : List Nat) (j : Nat) (e : Entry) (he : entryAt sd own j = some e) :
    (evOfEntry bat e).tof = tofString (typeOfFileOfByte ((slotData sd j).getD 11 0))
    ∧ (evOfEntry bat e).tod = todString (typeOfFileOfByte ((slotData sd j).getD 11 0)) (typeOfDataByteOfByte ((slotData sd j).getD 12 0)) := by
  unfold entryAt at he
  split at he
  · cases he
    unfold evOfEntry
    dsimp only
    rw [recordOfBytes_11, recordOfBytes_12]
    exact ⟨rfl, rfl⟩
  · cases he

/-- the words, for every kind byte and flag byte -/
theorem kind_words (k f : Nat) :
    tofString (typeOfFileOfByte k) = (if k = 0 then Tape.str "BASIC" else if k = 2 then Tape.str "MODULE" else if k = 3 then Tape.str "TEXT" else Tape.str "DATA")
    ∧ todString (typeOfFileOfByte k) (typeOfDataByteOfByte f)
        = (if f = 0xFF then Tape.str "ASCII" else if k = 0 then Tape.str "TOKEN" else Tape.str "BINARY") := by
  have hk : typeOfFileOfByte k = if k = 0 then 0 else if k = 1 then 1 else if k = 2 then 2 else if k = 3 then 3 else 1 := by
    unfold typeOfFileOfByte
    by_cases h0 : k = 0
    · subst h0; rfl
    · by_cases h1 : k = 1
      · subst h1; rfl
      · by_cases h2 : k = 2
        · subst h2; rfl
        · by_cases h3 : k = 3
          · subst h3; rfl
          · rw [if_neg, if_neg h0, if_neg h1, if_neg h2, if_neg h3]; rfl
            have : Gen.Disk.typeOfFileValues = [0, 1, 2, 3] := rfl
            rw [this]
            simp [h0, h1, h2, h3]
  rw [hk]
  unfold typeOfDataByteOfByte
  by_cases h0 : k = 0
  · subst h0
    by_cases hf : f = 0xFF
    · subst hf; exact ⟨rfl, rfl⟩
    · simp only [if_true, if_neg hf]; exact ⟨rfl, by unfold todString; simp; rfl⟩
  · by_cases h1 : k = 1 <;> by_cases h2 : k = 2 <;> by_cases h3 : k = 3 <;> by_cases hf : f = 0xFF <;>
      simp only [h0, h1, h2, h3, hf, if_true, if_false] <;> first | exact ⟨rfl, rfl⟩ | (constructor <;> first | rfl | (unfold todString; simp; rfl))

end Moto.C07
