import MotoModel.Model.DiskCli
import MotoModel.Spec.Dos
namespace Moto.C07
open Moto Moto.Disk
theorem placeholder : computeRequiredSlots 0 255 = (0, 255) := rfl
end Moto.C07
