/-
  C07 — any well-formed third-party disk image is listed and extracted exactly.
  (chain following, size formula, side counts of `load`, the efficient reader: Proofs/DiskReadProps.lean, same namespace)
-/
import MotoModel.Proofs.DiskReadProps
import MotoModel.Proofs.DiskByte0
namespace Moto.C07
open Moto Moto.Disk

/-- **C07 (any well-formed image is extracted exactly)**: for every four-sided image whose sides
    are consistent file systems — whoever wrote them, whatever the allocation order and
    fragmentation, with deleted and never-used entries anywhere — and whose live entries have
    ordinary names, `--extract` returns 0 and writes, for every side, exactly the files the
    independent decoder `Spec.Dos.files` finds there, in catalog order, each with the content the
    decoder assigns to its chain. -/
theorem wellformed_image_extracted_exactly (fl : Flavour) (verbose : Bool) (archive : Str) (into : Option Str) (img : Image)
    (h : ImgOk img) (hn : ∀ k, k < 4 → NiceSide (img.getD k [])) :
    (extract fl verbose archive into (save fl img)).status = .ret 0
    ∧ (extract fl verbose archive into (save fl img)).writes = sidesFiles (Tape.targetDirOf archive into) img 0
    ∧ ∀ k, k < 4 → ∀ dir, ∃ fs, Spec.Dos.files (img.getD k []) = some fs
        ∧ sideFiles (img.getD k []) dir
            = fs.map (fun f => (pathJoin dir (fileNameOf ⟨1, recordOfBytes (slotData (img.getD k []) f.slot), []⟩), f.content)) := by
  obtain ⟨h1, h2⟩ := extract_consistent fl verbose archive into img h hn
  refine ⟨h1, h2, ?_⟩
  intro k hk dir
  obtain ⟨bat, own, inv⟩ := h.2 k hk
  exact ⟨_, spec_files_inv inv, sideFiles_eq_spec inv dir⟩

end Moto.C07
