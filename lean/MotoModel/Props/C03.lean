import MotoModel.Model.Tape
import MotoModel.Spec.K7
namespace Moto.C03
open Moto Moto.Tape
theorem placeholder : buildEmpty 255 = [255, 2, 0] := rfl
end Moto.C03
