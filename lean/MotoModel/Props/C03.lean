/-
  C03 — created tapes conform to the MO5 .k7 format.
  `Spec.K7` is the format description; the model is `Tape.inject` (Model/Tape.lean).
-/
import MotoModel.Proofs.GenFn
import MotoModel.Proofs.TapeFormat
import MotoModel.Proofs.Names
namespace Moto.C03
open Moto Moto.Tape

/-- constants of the code (regenerated on every run) are those of the format -/
theorem marker_is_sync : Gen.Tape.writeMarker = Spec.K7.sync := by decide
theorem tape_size : Gen.Tape.tapeSize = Spec.K7.tapeLength := rfl
theorem blank_is_zero : Gen.Tape.blankByte = 0 ∧ Gen.Tape.blankUniform = true := ⟨rfl, rfl⟩
theorem block_types : Gen.Tape.typeLeader = 0 ∧ Gen.Tape.typeData = 1 ∧ Gen.Tape.typeEof = 255 := ⟨rfl, rfl, rfl⟩

/-- the file the format must hold for one source, as the tool understands the source -/
def specFile (w : World) (s : Str) : Spec.K7.SFile :=
  let d := (classify s).1
  ⟨upper d.name, upper d.ext, d.kind % 256, d.mode % 65536, contentOf w s⟩

/-- **C03 (frame laws)** length byte and checksum of every frame -/
theorem frame_length_byte (ty : Nat) (p : Bytes) : (Spec.K7.frame ty p)[1]? = some ((p.length + 2) % 256) := rfl

theorem frame_checksum (p : Bytes) : (p.sum + Spec.K7.cks p) % 256 = 0 := by
  unfold Spec.K7.cks; omega

/-- **C03 (chunking)** data payloads are 1..254 bytes and concatenate to the content -/
theorem chunks_bounds (content : Bytes) : ∀ c ∈ Spec.K7.chunks254 content, 1 ≤ c.length ∧ c.length ≤ 254 :=
  chunksFuel_bounds 253 _ content

theorem chunks_concat (content : Bytes) : (Spec.K7.chunks254 content).flatten = content :=
  chunksFuel_flatten 253 _ content (Nat.le_refl _)

/-- **C03 (leader fields)** 8 and 3 bytes whatever the lengths of name and extension -/
theorem leader_fields (f : Spec.K7.SFile) :
    (Spec.K7.pad 8 f.name).length = 8 ∧ (Spec.K7.pad 3 f.ext).length = 3 ∧ (Spec.K7.leaderPayload f).length = 14 := by
  simp [Spec.K7.leaderPayload, Spec.K7.pad]

/-- **C03 (kind/mode table)**: BAS → 0/0000, BAS,a → 0/FFFF, CSV → 1/0000, other → 2/0000,
    decided on the upper-cased extension of the base name -/
theorem kind_mode_table (src : Str) (dp : Nat) (h : rfindFrom 46 src (afterLast 47 src) = some dp) :
    ((classify src).1.kind, (classify src).1.mode) = Spec.K7.kindMode (upper (src.drop (dp + 1))) := by
  show ((classifyRaw src).1.kind, (classifyRaw src).1.mode) = _
  unfold classifyRaw
  simp only [h]
  unfold Spec.K7.kindMode
  have e1 : str "BAS,A" = [66, 65, 83, 44, 65] := by decide
  have e2 : str "BAS" = [66, 65, 83] := by decide
  have e3 : str "CSV" = [67, 83, 86] := by decide
  simp only [e1, e2, e3]
  by_cases h1 : upper (src.drop (dp + 1)) = [66, 65, 83, 44, 65]
  · simp [h1]
  · by_cases h2 : upper (src.drop (dp + 1)) = [66, 65, 83]
    · simp [h2]
    · by_cases h3 : upper (src.drop (dp + 1)) = [67, 83, 86]
      · simp [h3]
      · simp [h1, h2, h3]

theorem kind_mode_no_extension (src : Str) (h : rfindFrom 46 src (afterLast 47 src) = none) :
    (classify src).1.kind = 2 ∧ (classify src).1.mode = 0 ∧ (classify src).1.ext = [] := by
  unfold classify classifyRaw; simp [h]

theorem allRaw_eq_frames (w : World) (srcs : List Str) :
    allRaw w srcs = ((srcs.map (specFile w)).flatMap Spec.K7.fileBlocks).map (fun b => Spec.K7.frame b.1 b.2) := by
  induction srcs with
  | nil => rfl
  | cons s rest ih =>
    simp only [allRaw, List.flatMap_cons, List.map_cons, List.map_append] at ih ⊢
    rw [ih]
    congr 1
    exact fileRaw_eq_frames _ _

/-- **C03 (shape)**: whenever create writes an archive, the archive is exactly the format's
    encoding of the sources — blocks back to back from offset 0, each sixteen 01, 3C 5A, frame —
    followed by zero padding, 21504 bytes in all. -/
theorem created_tape_is_k7 (w : World) (verbose : Bool) (archive : Str) (srcs : List Str)
    (hr : AllReadable w archive srcs) (hfit : totalLen (allRaw w srcs) < Gen.Tape.tapeSize) :
    (inject w verbose archive srcs).writes = [(archive, Spec.K7.tape (srcs.map (specFile w)))]
      ∧ (Spec.K7.tape (srcs.map (specFile w))).length = 21504 := by
  obtain ⟨t', e, hw⟩ := injectLoop_ok w archive srcs blank { verbose := verbose } [] [] hr written_blank (by simpa using hfit)
  have hbuf : t'.buf = Spec.K7.tape (srcs.map (specFile w)) := by
    rw [hw.buf]
    simp only [List.nil_append, Spec.K7.tape, Spec.K7.encode]
    rw [allRaw_eq_frames, laidOut_eq_encode _ marker_is_sync]
    rfl
  constructor
  · simp only [inject, e, hbuf]
  · rw [← hbuf, hw.buf_length]; rfl

/-- non-vacuity: a two-file list fits -/
example : totalLen (allRaw (fun _ => some [1, 2, 3]) [[97], [98, 46, 98, 97, 115]]) < Gen.Tape.tapeSize := by decide

/-- **C03 (checksum, tied by translation)**: `TapeBlock.computeChecksum`, translated from the source
    on every run, is the model's checksum for every payload -/
theorem generated_checksum (data : List Nat) : Gen.Fn.computeChecksum data = Tape.checksum data :=
  GenFn.computeChecksum_eq data


/-- **C03 (the leader names the file by the naming rule — name padded to 8, extension padded to 3, upper case; kind and mode
    from the extension as documented)**: for *every* argument string, what the archiver puts into the leader block and the file
    it reads are those of `Spec.Names.tapeSource` — the last path component cut at its last dot, both parts upper-cased, 8
    characters of the name and 3 of the extension, kind / mode by `Spec.K7.kindMode` of the upper-cased extension (`BAS`,
    `BAS,A`, `CSV`, other), the option `,a` taken off the path that is opened.  The specification is written with `reverse` /
    `takeWhile`, the code with `rfind` and index arithmetic (Proofs/Names.lean). -/
theorem source_naming_rule (src : Str) :
    classify src = ({ name := (Spec.Names.tapeSource src).name, ext := (Spec.Names.tapeSource src).ext,
                      kind := (Spec.Names.tapeSource src).kind, mode := (Spec.Names.tapeSource src).mode },
                    (Spec.Names.tapeSource src).path) :=
  classify_eq_spec src

/-- the specification on the usual cases -/
example : Spec.Names.tapeSource (str "dir.d/prog.bas,a") = ⟨str "PROG", str "BAS", 0, 0xFFFF, str "dir.d/prog.bas"⟩ := by decide
example : Spec.Names.tapeSource (str "/abs/verylongname.data") = ⟨str "VERYLONG", str "DAT", 2, 0, str "/abs/verylongname.data"⟩ := by decide
example : Spec.Names.tapeSource (str "a.b/noext") = ⟨str "NOEXT", [], 2, 0, str "a.b/noext"⟩ := by decide
example : Spec.Names.tapeSource (str "t.v2.csv") = ⟨str "T.V2", str "CSV", 1, 0, str "t.v2.csv"⟩ := by decide

end Moto.C03
