/-
  C04 — created disk images conform to the Thomson DOS layout.
  (first layer: geometry, dispatch table, entry layout, a freshly initialised side passes the
   independent checker)
-/
import MotoModel.Proofs.GenFn
import MotoModel.Proofs.DiskSector
import MotoModel.Spec.Dos
import MotoModel.Proofs.DiskByte0
import MotoModel.Proofs.DiskKindFlag
namespace Moto.C04
open Moto Moto.Disk

/-- the processor table of the tool (regenerated on every run) is the documented one:
    BAS → BASIC/binary, BAS,A → BASIC/ASCII stored as BAS, BIN → module/binary, TXT → text/ASCII,
    AUTO.BAT → BASIC/binary; anything else → data/binary -/
theorem kind_table :
    Gen.Disk.processors = [(Tape.str "BAS", 0, 0, none), (Tape.str "BAS,A", 0, 255, some (Tape.str "BAS")),
                           (Tape.str "BIN", 2, 0, none), (Tape.str "TXT", 3, 255, none), (Tape.str "AUTO.BAT", 0, 0, none)]
    ∧ Gen.Disk.defaultProcessor = (1, 0, none) := by decide

theorem dispatch_examples :
    dispatch (Tape.str "PROG") (Tape.str "BAS") (Tape.str "BAS") = (0, 0, Tape.str "BAS")
    ∧ dispatch (Tape.str "PROG") (Tape.str "BAS") (Tape.str "BAS,A") = (0, 255, Tape.str "BAS")
    ∧ dispatch (Tape.str "M") (Tape.str "BIN") (Tape.str "BIN") = (2, 0, Tape.str "BIN")
    ∧ dispatch (Tape.str "README") (Tape.str "TXT") (Tape.str "TXT") = (3, 255, Tape.str "TXT")
    ∧ dispatch (Tape.str "AUTO") (Tape.str "BAT") (Tape.str "BAT") = (0, 0, Tape.str "BAT")
    ∧ dispatch (Tape.str "X") (Tape.str "DAT") (Tape.str "DAT") = (1, 0, Tape.str "DAT")
    ∧ dispatch (Tape.str "NOEXT") [] [] = (1, 0, []) := by decide

theorem status_codes : Gen.Disk.bsFree = 0xFF ∧ Gen.Disk.bsReserved = 0xFE ∧ Gen.Disk.bsLastBlock = 0xC0
    ∧ Gen.Disk.bsMaxNext = 160 ∧ Gen.Disk.bsMinLast = 0xC1 ∧ Gen.Disk.bsMaxLast = 0xC9 := ⟨rfl, rfl, rfl, rfl, rfl, rfl⟩

/-- the model's validity test of a status is the layout's -/
theorem valid_status_is_layout_all : ∀ s < 256, validStatus s = Spec.Dos.okStatus s := by decide +kernel

theorem valid_status_is_layout (s : Nat) (h : s < 256) : validStatus s = Spec.Dos.okStatus s :=
  valid_status_is_layout_all s h

theorem bytesFromStr_length (s : Str) (n : Nat) : (bytesFromStr s n).length = n := by
  unfold bytesFromStr
  split
  · simp; omega
  · simp; omega

/-- **C04 (entry layout)**: name 8, extension 3, kind, ASCII flag, first block, bytes in the last
    sector (big endian), sixteen padding bytes: 32 bytes for every name and extension length -/
theorem entry_layout (name ext : Str) (kind flag first lastBytes : Nat) :
    (newRecord name ext kind flag first lastBytes).length = 32
    ∧ (newRecord name ext kind flag first lastBytes).drop 11
        = [kind, flag, first, (lastBytes / 256) % 256, lastBytes % 256] ++ Gen.Disk.paddingOfRecord := by
  unfold newRecord
  have h8 := bytesFromStr_length (upper name) 8
  have h3 := bytesFromStr_length (upper ext) 3
  have hp : Gen.Disk.paddingOfRecord.length = 16 := by decide
  constructor
  · simp [h8, h3, hp]
  · simp only [List.append_assoc]
    rw [List.drop_append_of_le_length (by simp [h8, h3])]
    have : ((bytesFromStr (upper name) 8 ++ bytesFromStr (upper ext) 3).map fun c => if c < 32 then Gen.Disk.invalidChar else c).drop 11 = [] := by
      apply List.drop_of_length_le; simp [h8, h3]
    rw [this]; rfl

/-- **C04 (geometry)**: a saved image of four well-formed sides has 4 x 80 x 16 sectors -/
theorem image_length (fl : Flavour) (img : Image) (h : C11.WFImage img) (h4 : img.length = 4) :
    (save fl img).length = 4 * (80 * 16 * sectorSize fl) := by
  rw [C11.save_length fl img h, h4]

/-- in an SDDrive image every 512-byte slot is a payload followed by 256 bytes of FF -/
theorem sd_slots (img : Image) : save .sd img = img.flatten.flatMap (· ++ List.replicate 256 0xFF) := by
  rw [C11.save_sd_interleave, C11.sd_padding]

theorem setBat_wf (sd : Side) (bat : List Nat) (h : C11.WFSide sd) : C11.WFSide (setBat sd bat) := by
  unfold setBat; exact putSector_wf _ _ _ _ h

theorem fold_put_wf (l : List Nat) (v : Bytes) : ∀ (s : Side), C11.WFSide s →
    C11.WFSide (l.foldl (fun acc s => putSector acc batTrack s v) s) := by
  induction l with
  | nil => intro s hs; exact hs
  | cons x xs ih => intro s hs; exact ih _ (putSector_wf _ _ _ _ hs)

/-- `initFileSystem` keeps the geometry -/
theorem init_wf (sd : Side) (h : C11.WFSide sd) : C11.WFSide (initFileSystem sd) := by
  unfold initFileSystem
  exact fold_put_wf _ _ _ (setBat_wf _ _ (putSector_wf _ _ _ _ h))

/-- **C04 (a fresh side is a file system)**: the side `--create` starts from — blank sectors,
    `initFileSystem` — is accepted by the independent checker written from the layout description:
    table byte 0 zero, 160 valid statuses, blocks 40 and 41 reserved, empty catalog, nothing leaked. -/
theorem fresh_side_is_consistent : Spec.Dos.fsck true (initFileSystem blankSide) = true := by decide +kernel

/-- **C04 (every consistent side is a well-formed file system for the independent checker)**:
    `Spec.Dos.fsck` — written from the layout description: geometry, 160 valid statuses, track 20
    reserved, every live entry with an acyclic chain ending in C1..C8, no block shared, used blocks =
    blocks of the chains, at most 255 bytes in a last sector — accepts every side that satisfies
    the invariant of C05. -/
theorem consistent_side_passes_fsck {sd : Side} {bat : List Nat} {own : Nat → List Nat} (inv : SideInv sd bat own) :
    Spec.Dos.fsck false sd = true := fsck_of_inv inv

/-- **C04 (the independent reader reads what the tool reads)**: on a consistent side the decoder
    written from the layout description succeeds and lists, in catalog order, every live entry with
    its raw name/extension/kind/flag bytes, the chain, the sectors used in the last block, the bytes
    in the last sector, and as content — 255 bytes per sector along the chain — exactly the bytes the
    tool's own reader returns. -/
theorem independent_reader_agrees {sd : Side} {bat : List Nat} {own : Nat → List Nat} (inv : SideInv sd bat own) :
    Spec.Dos.files sd = some ((List.range 112).filterMap (specFileAt sd bat own)) := spec_files_inv inv

/-- **C04 (every image the tool creates)**: for every source list (any contents and sizes,
    markers, missing files, refusals) `--create` writes the serialisation of four sides each of
    which the strict independent checker accepts (table byte 0 zero included). -/
theorem created_image_is_well_formed (fl : Flavour) (w : Tape.World) (verbose : Bool) (archive : Str) (srcs : List Str)
    (hs : ∀ src ∈ srcs, CleanSrc src) :
    ∃ img, img.length = 4 ∧ (create fl w verbose archive srcs).writes = [(archive, save fl img)]
      ∧ ∀ k, k < 4 → Spec.Dos.fsck true (img.getD k []) = true := by
  have hfresh0 : ImgAll Byte0 ((List.replicate 4 blankSide).map initFileSystem) := by
    intro k hk
    have : ((List.replicate 4 blankSide).map initFileSystem).getD k [] = freshSide := by
      rw [List.getD_eq_getElem?_getD, List.getElem?_map, List.getElem?_replicate, if_pos hk]
      simp only [Option.map_some, Option.getD_some, freshSide]
    rw [this]; exact fresh_byte0
  obtain ⟨st, hst, hok, hp⟩ := performCore_pres byte0_preserved w verbose _ srcs fresh_img_ok hfresh0 hs
  refine ⟨st.img, hok.1, ?_, ?_⟩
  · unfold create performOn; rw [if_neg (by simp), hst]
  · intro k hk
    obtain ⟨bat, own, inv⟩ := hok.2 k hk
    exact fsck_strict _ (fsck_of_inv inv) (hp k hk)

/-- **C04 (kind and flag follow the documented extension rules, on the raw bytes)**: in every image
    `--create` writes, every stored file is the content of one of the sources, and bytes 11 and 12 of
    its catalog entry are the kind and the ASCII flag the extension table (`kind_table`) gives for that
    source: BAS → 0/00, BAS,A → 0/FF, BIN → 2/00, TXT → 3/FF, AUTO.BAT → 0/00, anything else → 1/00. -/
theorem created_entries_follow_extension_rules (fl : Flavour) (w : Tape.World) (verbose : Bool) (archive : Str) (srcs : List Str)
    (hs : ∀ src ∈ srcs, CleanSrc src) :
    ∃ img, ImgOk img ∧ (create fl w verbose archive srcs).writes = [(archive, save fl img)]
      ∧ ∀ k j r c, k < 4 → j < 112 → imgFileAt img k j = some (r, c) →
          ∃ src ∈ srcs, w (splitSource src).2.2.2 = some c
            ∧ r.getD 11 0 = (dispatch (splitSource src).1 (splitSource src).2.1 (splitSource src).2.2.1).1
            ∧ r.getD 12 0 = (dispatch (splitSource src).1 (splitSource src).2.1 (splitSource src).2.2.1).2.1 := by
  obtain ⟨st, hst, hok, _, hof⟩ := performCore_files w verbose _ srcs fresh_img_ok hs
  refine ⟨st.img, hok, ?_, ?_⟩
  · unfold create performOn; rw [if_neg (by simp), hst]
  · intro k j r c hk hj hf
    rcases hof k j r c hk hj hf with h | ⟨src, hsrc, name, ext, kind, flag, hoff, hrec⟩
    · rw [fresh_no_file k j hk hj] at h; cases h
    · obtain ⟨hw, _, hkind, hflag, _⟩ := hoff
      have hr := dispatch_range (splitSource src).1 (splitSource src).2.1 (splitSource src).2.2.1
      have := stored_kind_flag r name ext kind flag c.length hrec (by rw [hkind]; exact hr.1) (by rw [hflag]; exact hr.2)
      exact ⟨src, hsrc, hw, by rw [this.1, hkind], by rw [this.2, hflag]⟩

/-- **C04 (status rules, tied by translation)**: the status tests and the usage rule of
    `block_allocation.py`, translated from the source on every run (Gen/Fn.lean), are the functions of
    the model, for every status -/
theorem generated_status_functions (s : Nat) :
    Gen.Fn.isValidStatus s = validStatus s ∧ Gen.Fn.isFree s = isFree s ∧ Gen.Fn.isReserved s = isReserved s
    ∧ Gen.Fn.isLast s = isLast s ∧ Gen.Fn.hasNext s = hasNext s ∧ Gen.Fn.usage s = usageOf s :=
  ⟨GenFn.isValidStatus_eq s, GenFn.isFree_eq s, GenFn.isReserved_eq s, GenFn.isLast_eq s, GenFn.hasNext_eq s, GenFn.usage_eq s⟩

end Moto.C04
